"""Shared demo for C09 behaviour-preserving edits.

Embeds verbatim copies of the ORIGINAL functions (SimpleBatcher, subdivide_batches,
generate_batches, PtychographyBase.error_estimate, RNGMixin._update_torch_rng) and checks
that the functions in the tree under test give bit-identical results on a spread of inputs,
and that the partition / batch-count / seeded-determinism property holds.
"""

import itertools
from math import ceil
from types import SimpleNamespace
from typing import Iterator, List, Literal, Optional, Tuple

import numpy as np
import torch

from quantem.core.utils.rng import RNGMixin
from quantem.core.utils.utils import generate_batches, subdivide_batches
from quantem.diffractive_imaging.ptycho_utils import SimpleBatcher
from quantem.diffractive_imaging.ptychography_base import PtychographyBase


# ----------------------------------------------------------------------------- originals
class OrigSimpleBatcher:
    def __init__(
        self,
        num: int,
        batch_size: int | None,
        shuffle: bool = True,
        rng: np.random.Generator | int | None = None,
        val_ratio: float = 0.0,
        val_mode: Literal["grid", "random"] = "grid",
        train_indices: np.ndarray | None = None,
        val_indices: np.ndarray | None = None,
    ):
        self.indices = np.arange(num)
        self.batch_size = batch_size if batch_size is not None else num
        self.shuffle = shuffle
        self.rng = rng

        # Train/validation split (fixed for the lifetime of this batcher)
        if train_indices is not None or val_indices is not None:
            if train_indices is None or val_indices is None:
                raise ValueError("Both train_indices and val_indices must be provided together.")
            self.train_indices = np.asarray(train_indices, dtype=int)
            self.val_indices = np.asarray(val_indices, dtype=int)
        else:
            # Validate ratio and split deterministically given rng
            if val_ratio < 0 or val_ratio >= 1:
                val_ratio = 0.0
            n_val = int(round(len(self.indices) * val_ratio))
            if n_val > 0:
                if val_mode == "random":
                    # Random unique selection for validation
                    perm = self.rng.permutation(self.indices)
                    self.val_indices = perm[:n_val]
                    self.train_indices = np.setdiff1d(
                        self.indices, self.val_indices, assume_unique=False
                    )
                else:  # grid/regular selection: every k-th index
                    if val_ratio <= 0.5:
                        k = max(1, int(round(1.0 / val_ratio)))
                        invert = False
                    else:
                        k = max(1, int(round(1.0 / (1.0 - val_ratio))))
                        invert = True

                    grid_sel = self.indices[::k]
                    if len(grid_sel) > n_val:
                        grid_sel = grid_sel[:n_val]
                    if invert:
                        self.train_indices = grid_sel
                        self.val_indices = np.setdiff1d(
                            self.indices, grid_sel, assume_unique=False
                        )
                    else:
                        self.val_indices = grid_sel
                        self.train_indices = np.setdiff1d(
                            self.indices, self.val_indices, assume_unique=False
                        )
            else:
                self.val_indices = np.asarray([], dtype=int)
                self.train_indices = self.indices

    @property
    def rng(self) -> np.random.Generator:
        return self._rng

    @rng.setter
    def rng(self, rng: np.random.Generator | int | None):
        if rng is None:
            rng = np.random.default_rng()
        elif isinstance(rng, (int, float)):
            rng = np.random.default_rng(rng)
        elif not isinstance(rng, np.random.Generator):
            raise TypeError(f"rng should be a np.random.Generator or a seed, got {type(rng)}")
        self._rng = rng

    def __iter__(self):
        train_order = (
            self.rng.permutation(self.train_indices) if self.shuffle else self.train_indices
        )
        for i in range(0, len(train_order), self.batch_size):
            yield train_order[i : i + self.batch_size]

    def __len__(self):
        return int(ceil(len(self.train_indices) / self.batch_size))

    def iter_val(self):
        if len(self.val_indices) == 0:
            return iter(())

        # Do not shuffle validation by default
        def _gen():
            for i in range(0, len(self.val_indices), self.batch_size):
                yield self.val_indices[i : i + self.batch_size]

        return _gen()

    @property
    def has_validation(self) -> bool:
        return len(self.val_indices) > 0

    def val_len(self) -> int:
        return int(ceil(len(self.val_indices) / self.batch_size)) if self.has_validation else 0


def orig_subdivide_batches(
    num_items: int,
    num_batches: Optional[int] = None,
    max_batch: Optional[int] = None,
) -> List[int]:
    if num_batches is not None and max_batch is not None:
        raise RuntimeError("Specify only one of `num_batches` or `max_batch`.")

    if num_batches is None:
        if max_batch is None:
            raise RuntimeError("Must provide either `num_batches` or `max_batch`.")
        num_batches = (num_items + max_batch - 1) // max_batch

    if num_items < num_batches:
        raise ValueError("`num_batches` may not exceed `num_items`.")

    base_size = num_items // num_batches
    remainder = num_items % num_batches

    return [base_size + 1] * remainder + [base_size] * (num_batches - remainder)


def orig_generate_batches(
    num_items: int,
    num_batches: Optional[int] = None,
    max_batch: Optional[int] = None,
    start_index: int = 0,
) -> Iterator[Tuple[int, int]]:
    batch_sizes = orig_subdivide_batches(num_items, num_batches, max_batch)
    idx = start_index
    for size in batch_sizes:
        yield idx, idx + size
        idx += size


def orig_error_estimate(
    self,
    pred_intensities: torch.Tensor,
    batch_indices: np.ndarray,
    loss_type: Literal[
        "l2_amplitude", "l1_amplitude", "l2_intensity", "l1_intensity", "poisson"
    ] = "l2_amplitude",
) -> tuple[torch.Tensor, torch.Tensor]:
    targets = self.dset.targets[batch_indices]
    if "amplitude" in loss_type:
        preds = torch.sqrt(pred_intensities + 1e-9)  # add eps to avoid diverging gradients
    else:
        preds = pred_intensities

    diff = preds * self.dset.detector_mask - targets * self.dset.detector_mask
    if "l1" in loss_type:
        error = torch.sum(torch.abs(diff)) / (diff.shape[0] / self.dset.num_gpts)
    elif "l2" in loss_type:
        error = torch.sum(torch.abs(diff) ** 2) / (diff.shape[0] / self.dset.num_gpts)
    elif loss_type == "poisson":
        error = torch.sum(preds - targets * torch.log(preds + 1e-6))
    else:
        raise ValueError(f"Unknown loss type {loss_type}, should be 'l1' or 'l2'")
    loss = error / self.dset.mean_diffraction_intensity
    return loss, targets


def orig_update_torch_rng(self):
    """Update the torch generator with current seed and device."""
    if self._rng_seed is None:
        self._rng_torch = torch.Generator(device=self._device)
    else:
        self._rng_torch = torch.Generator(device=self._device).manual_seed(
            self._rng_seed % 2**32
        )


# ----------------------------------------------------------------------------- helpers
def outcome(fn, *args, **kwargs):
    """Return ('ok', value) or ('err', type, message) so exceptions are compared too."""
    try:
        return ("ok", fn(*args, **kwargs))
    except Exception as e:  # noqa: BLE001
        return ("err", type(e), str(e))


def same_arrays(a, b):
    a = np.asarray(a)
    b = np.asarray(b)
    return a.dtype == b.dtype and a.shape == b.shape and np.array_equal(a, b)


def same_batches(xs, ys):
    xs = list(xs)
    ys = list(ys)
    return len(xs) == len(ys) and all(same_arrays(x, y) for x, y in zip(xs, ys))


# ----------------------------------------------------------------------------- SimpleBatcher
def check_batcher():
    nums = [1, 2, 3, 5, 7, 10, 12, 16, 25, 37]
    batch_sizes = [None, 1, 2, 3, 4, 5, 7, 16, 100, np.int64(3)]
    ratios = [0.0, 0.05, 0.1, 0.2, 0.25, 1 / 3, 0.5, 0.6, 0.75, 0.9, 0.99, -0.2, 1.0, 1.5]
    modes = ["grid", "random"]
    n_cfg = 0
    for num, bs, ratio, mode, shuffle in itertools.product(
        nums, batch_sizes, ratios, modes, [True, False]
    ):
        seed = 1000 * num + int(100 * abs(ratio))
        new = SimpleBatcher(num, bs, shuffle=shuffle, rng=seed, val_ratio=ratio, val_mode=mode)
        old = OrigSimpleBatcher(
            num, bs, shuffle=shuffle, rng=seed, val_ratio=ratio, val_mode=mode
        )
        assert same_arrays(new.train_indices, old.train_indices)
        assert same_arrays(new.val_indices, old.val_indices)
        assert len(new) == len(old)
        assert new.val_len() == old.val_len()
        assert new.has_validation == old.has_validation

        # property: train/val disjoint and cover all patterns
        tr, va = np.asarray(new.train_indices), np.asarray(new.val_indices)
        assert len(np.intersect1d(tr, va)) == 0
        assert np.array_equal(np.sort(np.concatenate([tr, va])), np.arange(num))

        for _epoch in range(3):
            nb = list(new)
            ob = list(old)
            assert same_batches(nb, ob), (num, bs, ratio, mode, shuffle)
            # property: each training pattern visited exactly once, len == number yielded
            assert len(nb) == len(new)
            if len(nb):
                visited = np.concatenate(nb)
            else:
                visited = np.asarray([], dtype=int)
            assert np.array_equal(np.sort(visited), np.sort(tr))
            eff = new.batch_size
            assert all(len(b) <= eff for b in nb)
            assert all(len(b) == eff for b in nb[:-1])

            nv = list(new.iter_val())
            ov = list(old.iter_val())
            assert same_batches(nv, ov)
            assert len(nv) == new.val_len()
            if len(nv):
                assert np.array_equal(np.concatenate(nv), va)
            else:
                assert len(va) == 0

        # iter_val returns a fresh iterator object of the same kind as before
        assert type(new.iter_val()) is type(old.iter_val())  # noqa: E721

        # property: seeded determinism (same seed -> same schedule)
        again = SimpleBatcher(num, bs, shuffle=shuffle, rng=seed, val_ratio=ratio, val_mode=mode)
        ref = SimpleBatcher(num, bs, shuffle=shuffle, rng=seed, val_ratio=ratio, val_mode=mode)
        assert same_batches(list(again), list(ref))
        n_cfg += 1

    # explicit train/val indices (including list inputs and empty validation)
    for tr, va in [
        (np.array([4, 2, 0]), np.array([1, 3])),
        ([0, 1, 2, 3, 4, 5, 6], []),
        ([], [0, 1, 2]),
        (np.arange(9)[::-1], np.array([], dtype=int)),
    ]:
        for bs in [1, 2, 4, 50]:
            new = SimpleBatcher(9, bs, rng=3, train_indices=tr, val_indices=va)
            old = OrigSimpleBatcher(9, bs, rng=3, train_indices=tr, val_indices=va)
            assert same_batches(list(new), list(old))
            assert same_batches(list(new.iter_val()), list(old.iter_val()))
            assert len(new) == len(old) and new.val_len() == old.val_len()
            assert type(new.iter_val()) is type(old.iter_val())  # noqa: E721

    # error paths are unchanged
    for kwargs in [
        dict(train_indices=np.arange(3)),
        dict(val_indices=np.arange(3)),
        dict(rng="seed"),
    ]:
        a = outcome(SimpleBatcher, 5, 2, **kwargs)
        b = outcome(OrigSimpleBatcher, 5, 2, **kwargs)
        assert a[0] == b[0] == "err" and a[1:] == b[1:]
    # batch_size 0 -> range() step error, identical
    a = outcome(lambda: list(SimpleBatcher(5, 0, rng=0)))
    b = outcome(lambda: list(OrigSimpleBatcher(5, 0, rng=0)))
    assert a[0] == b[0] == "err" and a[1:] == b[1:]
    return n_cfg


# ----------------------------------------------------------------------------- batch ranges
def check_batches():
    n = 0
    values = [None, 1, 2, 3, 4, 5, 7, 8, 13, 64, 100]
    for num_items in [0, 1, 2, 3, 5, 8, 12, 13, 49, 64, 100, np.int64(17), np.int32(9)]:
        for nb, mb in itertools.product(values, values):
            a = outcome(subdivide_batches, num_items, nb, mb)
            b = outcome(orig_subdivide_batches, num_items, nb, mb)
            assert a == b, (num_items, nb, mb, a, b)
            if a[0] == "ok":
                assert [type(v) for v in a[1]] == [type(v) for v in b[1]]
                assert sum(a[1]) == num_items
            for start in [0, 3, -2]:
                ga = outcome(lambda: list(generate_batches(num_items, nb, mb, start)))
                gb = outcome(lambda: list(orig_generate_batches(num_items, nb, mb, start)))
                assert ga == gb, (num_items, nb, mb, start)
                if ga[0] == "ok" and ga[1]:
                    # contiguous ranges covering [start, start + num_items)
                    rngs = ga[1]
                    assert rngs[0][0] == start and rngs[-1][1] == start + num_items
                    assert all(r[1] == s[0] for r, s in zip(rngs[:-1], rngs[1:]))
            n += 1
    # max_batch = 0 -> ZeroDivisionError in both
    a = outcome(subdivide_batches, 5, None, 0)
    b = outcome(orig_subdivide_batches, 5, None, 0)
    assert a[0] == b[0] == "err" and a[1:] == b[1:]
    return n


# ----------------------------------------------------------------------------- error_estimate
def check_error_estimate():
    gen = torch.Generator().manual_seed(7)
    n_checked = 0
    for dtype in [torch.float32, torch.float64]:
        for num_gpts, roi in [(12, (6, 5)), (16, (8, 8)), (9, (3, 4))]:
            targets = torch.rand((num_gpts, *roi), generator=gen, dtype=dtype) * 3.0
            mask = (torch.rand(roi, generator=gen) > 0.2).to(dtype)
            for mean_int in [1.0, 37.25]:
                fake = SimpleNamespace(
                    dset=SimpleNamespace(
                        targets=targets,
                        detector_mask=mask,
                        num_gpts=num_gpts,
                        mean_diffraction_intensity=mean_int,
                    )
                )
                perm = np.random.default_rng(5).permutation(num_gpts)
                for bs in [1, 2, 3, 4, num_gpts // 2, num_gpts, 5]:
                    for loss_type in [
                        "l2_amplitude",
                        "l1_amplitude",
                        "l2_intensity",
                        "l1_intensity",
                        "poisson",
                    ]:
                        losses = []
                        for i in range(0, num_gpts, bs):
                            idx = perm[i : i + bs]
                            base = torch.rand((len(idx), *roi), generator=gen, dtype=dtype) * 4.0
                            p_new = base.clone().requires_grad_(True)
                            p_old = base.clone().requires_grad_(True)
                            l_new, t_new = PtychographyBase.error_estimate(
                                fake, p_new, idx, loss_type
                            )
                            l_old, t_old = orig_error_estimate(fake, p_old, idx, loss_type)
                            assert l_new.dtype == l_old.dtype and l_new.shape == l_old.shape
                            assert torch.equal(l_new, l_old), (loss_type, bs, l_new, l_old)
                            assert torch.equal(t_new, t_old)
                            l_new.backward()
                            l_old.backward()
                            assert torch.equal(p_new.grad, p_old.grad)
                            losses.append(l_new.detach())
                            n_checked += 1
                        # batch invariance: mean of per-batch losses == full-batch loss
                        if num_gpts % bs == 0 and loss_type != "poisson":
                            full_pred = torch.ones((num_gpts, *roi), dtype=dtype) * 2.0
                            full, _ = PtychographyBase.error_estimate(
                                fake, full_pred, np.arange(num_gpts), loss_type
                            )
                            per = [
                                PtychographyBase.error_estimate(
                                    fake, full_pred[i : i + bs], np.arange(i, i + bs), loss_type
                                )[0]
                                for i in range(0, num_gpts, bs)
                            ]
                            assert torch.allclose(
                                torch.stack(per).mean(), full, rtol=1e-4 if dtype == torch.float32 else 1e-10
                            )
    # unknown loss type -> identical ValueError
    fake = SimpleNamespace(
        dset=SimpleNamespace(
            targets=torch.ones(4, 2, 2),
            detector_mask=torch.ones(2, 2),
            num_gpts=4,
            mean_diffraction_intensity=1.0,
        )
    )
    a = outcome(PtychographyBase.error_estimate, fake, torch.ones(2, 2, 2), np.arange(2), "huber")
    b = outcome(orig_error_estimate, fake, torch.ones(2, 2, 2), np.arange(2), "huber")
    assert a[0] == b[0] == "err" and a[1:] == b[1:]
    return n_checked


# ----------------------------------------------------------------------------- RNGMixin
class OrigRNG(RNGMixin):
    _update_torch_rng = orig_update_torch_rng


def check_rng():
    seeds = [0, 1, 42, 2**31 - 1, 2**31, 2**32 - 1, 2**32, 2**32 + 5, 2**40 + 123, 2**63 - 1,
             2**64 + 17, 12345678901234567890, np.random.default_rng(99), np.random.default_rng(2**70 + 3),
             torch.Generator().manual_seed(2**35 + 11)]
    n = 0
    for seed in seeds:
        def mk(cls):
            s = seed
            if isinstance(s, np.random.Generator):
                s = np.random.default_rng(s.bit_generator._seed_seq.entropy)
            return cls(rng=s)

        new, old = mk(RNGMixin), mk(OrigRNG)
        assert new._rng_seed == old._rng_seed
        assert new._rng_torch.initial_seed() == old._rng_torch.initial_seed()
        assert new._rng_torch.initial_seed() == new._rng_seed % 2**32
        assert torch.equal(new._rng_torch.get_state(), old._rng_torch.get_state())
        a1 = torch.rand(5, generator=new._rng_torch)
        b1 = torch.rand(5, generator=old._rng_torch)
        assert torch.equal(a1, b1)
        n1 = new.rng.permutation(20)
        o1 = old.rng.permutation(20)
        assert np.array_equal(n1, o1)
        # reset -> same stream again (seeded determinism after reset)
        new._reset_rng()
        old._reset_rng()
        assert torch.equal(new._rng_torch.get_state(), old._rng_torch.get_state())
        assert torch.equal(torch.rand(5, generator=new._rng_torch), a1)
        assert torch.equal(torch.rand(5, generator=old._rng_torch), b1)
        assert np.array_equal(new.rng.permutation(20), n1)
        # device move keeps the same seeding rule
        new._rng_to_device("cpu")
        old._rng_to_device("cpu")
        assert torch.equal(new._rng_torch.get_state(), old._rng_torch.get_state())
        assert torch.equal(torch.rand(5, generator=new._rng_torch), a1)
        n += 1

    # unseeded: no seed recorded, generator created, reset is a no-op on the seed
    u_new, u_old = RNGMixin(), OrigRNG()
    assert u_new._rng_seed is None and u_old._rng_seed is None
    assert isinstance(u_new._rng_torch, torch.Generator)
    u_new._reset_rng()
    assert u_new._rng_seed is None

    # float / negative / bad seeds behave identically (value or exception)
    for bad in [7.0, 7.5, -3, "x", 2.0**40]:
        a = outcome(lambda: RNGMixin(rng=bad)._rng_torch.initial_seed())
        b = outcome(lambda: OrigRNG(rng=bad)._rng_torch.initial_seed())
        assert a == b, (bad, a, b)
    return n


if __name__ == "__main__":
    n1 = check_batcher()
    n2 = check_batches()
    n3 = check_error_estimate()
    n4 = check_rng()
    print(f"OK batcher_cfgs={n1} batch_range_cfgs={n2} error_estimate_calls={n3} rng_seeds={n4}")
