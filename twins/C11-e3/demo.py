"""Demo for C11 patch 3: recursive column add / remove (Vector.add_fields,
Vector.remove_fields).

Twin vectors are driven through the same random history that interleaves
adding / removing fields with cell, slice and field assignment: one twin uses
the methods of the installed module, the other verbatim copies of the ORIGINAL
methods.  After every step both must agree on outcome (incl. exception type and
message and the warnings printed), schema and data - also when the call fails
half-way (schema already updated, data not).  Successful steps are checked
against a pure-python list-of-lists reference model, and the invariants of the
property are asserted: every populated cell is 2-D with exactly one column per
field, field names are unique and in one-to-one order with units, and a field's
flattened view is the row-major concatenation of its column.
"""

import contextlib
import io
import itertools
from typing import Any, List, Union

import numpy as np

from quantem.core.datastructures.vector import Vector


# ----------------------------------------------------------------------------
# Verbatim copies of the ORIGINAL methods (docstrings dropped, renamed)
# ----------------------------------------------------------------------------
def orig_add_fields(self, new_fields: Union[str, List[str]]) -> None:
    if isinstance(new_fields, str):
        new_fields = [new_fields]
    else:
        new_fields = list(new_fields)

    if any(name in self._fields for name in new_fields):
        raise ValueError("One or more new field names already exist.")

    if len(set(new_fields)) != len(new_fields):
        raise ValueError("Duplicate field names in input are not allowed.")

    self._fields = list(self._fields) + list(new_fields)
    self._units = list(self._units) + ["none"] * len(new_fields)

    def expand_array(arr: Any) -> Any:
        if isinstance(arr, np.ndarray):
            if arr.shape[1] != self.num_fields - len(new_fields):
                raise ValueError(
                    f"Expected arrays with {self.num_fields - len(new_fields)} fields, got {arr.shape[1]}"
                )
            pad = np.zeros((arr.shape[0], len(new_fields)))
            return np.hstack([arr, pad])
        elif isinstance(arr, list):
            return [expand_array(sub) for sub in arr]
        else:
            return arr

    self._data = expand_array(self._data)


def orig_remove_fields(self, fields_to_remove: Union[str, List[str]]) -> None:
    if isinstance(fields_to_remove, str):
        fields_to_remove = [fields_to_remove]
    else:
        fields_to_remove = list(fields_to_remove)

    field_to_index = {name: i for i, name in enumerate(self._fields)}
    indices_to_remove = []
    for field in fields_to_remove:
        if field not in field_to_index:
            print(f"Warning: field '{field}' not found.")
        else:
            indices_to_remove.append(field_to_index[field])

    if not indices_to_remove:
        return

    indices_to_remove = sorted(set(indices_to_remove))
    keep_indices = [i for i in range(self.num_fields) if i not in indices_to_remove]

    # Update metadata
    self._fields = [self._fields[i] for i in keep_indices]
    self._units = [self._units[i] for i in keep_indices]

    def prune_array(arr: Any) -> Any:
        if isinstance(arr, np.ndarray):
            if arr.shape[1] < max(indices_to_remove) + 1:
                raise ValueError(
                    f"Cannot remove field index {max(indices_to_remove)} from array with shape {arr.shape}"
                )
            return arr[:, keep_indices]
        elif isinstance(arr, list):
            return [prune_array(sub) for sub in arr]
        else:
            return arr

    self._data = prune_array(self._data)


# ----------------------------------------------------------------------------
# helpers
# ----------------------------------------------------------------------------
def all_cells(shape):
    return list(itertools.product(*[range(s) for s in shape]))


def cell_at(data, idx):
    ref = data
    for i in idx:
        ref = ref[i]
    return ref


def put_cell(data, idx, value):
    ref = data
    for i in idx[:-1]:
        ref = ref[i]
    ref[idx[-1]] = value


def same_array(a, b):
    assert isinstance(a, np.ndarray) and isinstance(b, np.ndarray), (type(a), type(b))
    assert a.dtype == b.dtype and a.shape == b.shape, (a.dtype, b.dtype, a.shape, b.shape)
    assert np.array_equal(a, b), (a, b)


def same_nested(a, b):
    if isinstance(a, list):
        assert isinstance(b, list) and len(a) == len(b), (a, b)
        for x, y in zip(a, b):
            same_nested(x, y)
    elif isinstance(a, np.ndarray):
        same_array(a, b)
    else:
        assert a is None and b is None, (a, b)


def same_state(a, b):
    assert a.shape == b.shape and a.name == b.name
    assert a.fields == b.fields and a.units == b.units, (a.fields, b.fields, a.units, b.units)
    assert type(a._fields) is type(b._fields) is list and type(a._units) is type(b._units) is list
    same_nested(a._data, b._data)


def outcome(fn, *args):
    """Outcome of a call: (status, exception type, message, text printed to stdout)."""
    buf = io.StringIO()
    try:
        with contextlib.redirect_stdout(buf):
            fn(*args)
        return ("ok", None, None, buf.getvalue())
    except Exception as exc:  # noqa: BLE001
        return ("err", type(exc), str(exc), buf.getvalue())


class Model:
    """Pure-python reference: field / unit lists and rows (list of lists) per cell."""

    def __init__(self, v):
        self.fields = list(v.fields)
        self.units = list(v.units)
        self.cells = {}
        for idx in all_cells(v.shape):
            c = cell_at(v._data, idx)
            self.cells[idx] = None if c is None else [list(r) for r in c.tolist()]

    def add(self, names):
        self.fields += names
        self.units += ["none"] * len(names)
        for rows in self.cells.values():
            if rows is not None:
                for r in rows:
                    r.extend([0.0] * len(names))

    def remove(self, names):
        drop = {self.fields.index(n) for n in names if n in self.fields}
        keep = [i for i in range(len(self.fields)) if i not in drop]
        self.fields = [self.fields[i] for i in keep]
        self.units = [self.units[i] for i in keep]
        for idx, rows in self.cells.items():
            if rows is not None:
                self.cells[idx] = [[r[i] for i in keep] for r in rows]


def check_against_model(v, m):
    nf = len(m.fields)
    assert v.fields == m.fields and v.units == m.units and v.num_fields == nf
    assert len(set(v.fields)) == nf == len(v.units)
    all_rows = []
    for idx in all_cells(v.shape):
        c = cell_at(v._data, idx)
        rows = m.cells[idx]
        if rows is None:
            assert c is None
            continue
        assert isinstance(c, np.ndarray) and c.ndim == 2 and c.shape == (len(rows), nf), (c.shape, len(rows), nf)
        assert c.tolist() == rows, (c.tolist(), rows)
        all_rows.extend(rows)
    flat = v.flatten()
    assert flat.shape == (len(all_rows), nf)
    for k, name in enumerate(v.fields):
        col = v[name].flatten()
        assert col.tolist() == [r[k] for r in all_rows]
        # writing the flattened view back restores the same data
        before = [None if c is None else c.copy() for c in (cell_at(v._data, i) for i in all_cells(v.shape))]
        v[name].set_flattened(col)
        for i, b in zip(all_cells(v.shape), before):
            if b is not None:
                same_array(cell_at(v._data, i), b)


def random_cell(rng, nf, dtype):
    return (rng.normal(size=(int(rng.choice([0, 1, 2, 4])), nf)) * 10).astype(dtype)


def as_container(rng, names):
    """Pass the same names as a list, tuple, generator or (single name) plain string."""
    kind = rng.choice(["list", "tuple", "gen", "str"])
    if kind == "str" and len(names) == 1:
        return lambda: names[0]
    if kind == "tuple":
        return lambda: tuple(names)
    if kind == "gen":
        return lambda: (n for n in names)
    return lambda: list(names)


# ----------------------------------------------------------------------------
# one random history
# ----------------------------------------------------------------------------
def run_history(rng, shape, nf, dtype, steps, stats):
    fields = [f"f{i}" for i in range(nf)]
    units = [f"u{i}" for i in range(nf)]
    A = Vector.from_shape(shape=shape, fields=fields, units=units, name="twin")
    B = Vector.from_shape(shape=shape, fields=fields, units=units, name="twin")
    cells = all_cells(shape)
    for idx in cells:
        if rng.random() < 0.7:
            c = random_cell(rng, nf, dtype)
            A[idx] = c.copy()
            B[idx] = c.copy()
    m = Model(A)
    check_against_model(A, m)
    counter = itertools.count()

    for _ in range(steps):
        op = rng.choice(["add", "add", "remove", "remove", "assign", "slice", "field", "add_bad",
                         "remove_missing", "copy", "inject_add", "inject_remove"])
        nf_now = A.num_fields

        if op == "add":
            names = [f"g{next(counter)}" for _ in range(int(rng.choice([0, 1, 1, 2, 3])))]
            make = as_container(rng, names)
            old_cells = [cell_at(A._data, i) for i in cells]
            ra, rb = outcome(A.add_fields, make()), outcome(orig_add_fields, B, make())
            assert ra == rb and ra[0] == "ok", (ra, rb)
            m.add(names)
            for i, old in zip(cells, old_cells):  # fresh arrays, the old cells are not aliased
                if old is not None:
                    assert not np.shares_memory(old, cell_at(A._data, i))
            stats["add"] += 1

        elif op == "remove":
            if nf_now == 0:
                continue
            k = int(rng.choice([1, 1, 2, nf_now]))  # occasionally remove every field
            names = [A.fields[int(i)] for i in rng.integers(nf_now, size=k)]  # duplicates allowed
            if rng.random() < 0.3:
                names.insert(int(rng.integers(len(names) + 1)), "no-such-field")
            make = as_container(rng, names)
            ra, rb = outcome(A.remove_fields, make()), outcome(orig_remove_fields, B, make())
            assert ra == rb and ra[0] == "ok", (ra, rb)
            assert ra[3].count("Warning") == names.count("no-such-field")
            m.remove(names)
            stats["remove"] += 1

        elif op == "remove_missing":
            snap = Model(A)
            ra = outcome(A.remove_fields, ["nope", "neither"])
            rb = outcome(orig_remove_fields, B, ["nope", "neither"])
            assert ra == rb and ra[0] == "ok" and ra[3].count("Warning") == 2
            assert Model(A).__dict__ == snap.__dict__  # nothing changed
            stats["remove_missing"] += 1

        elif op == "add_bad":
            snap = Model(A)
            if nf_now and rng.random() < 0.5:
                bad = ["brand-new", A.fields[int(rng.integers(nf_now))]]  # already present
            else:
                bad = ["dup", "other", "dup"]
            ra, rb = outcome(A.add_fields, list(bad)), outcome(orig_add_fields, B, list(bad))
            assert ra == rb and ra[0] == "err" and ra[1] is ValueError, (ra, rb)
            assert Model(A).__dict__ == snap.__dict__  # rejected before any change
            stats["add_bad"] += 1

        elif op == "assign":
            idx = cells[int(rng.integers(len(cells)))]
            c = random_cell(rng, nf_now, dtype)
            A[idx] = c.copy()
            B[idx] = c.copy()
            m.cells[idx] = [list(r) for r in c.tolist()]
            # a cell with the pre-/post-change column count of another schema is rejected
            wrong = np.zeros((1, nf_now + 1))
            ra, rb = outcome(A.__setitem__, idx, wrong), outcome(B.__setitem__, idx, wrong)
            assert ra == rb and ra[1] is ValueError

        elif op == "slice":
            key = (slice(None),) * len(shape)
            vals = [random_cell(rng, nf_now, dtype) for _ in cells]
            A[key] = [x.copy() for x in vals]
            B[key] = [x.copy() for x in vals]
            for idx, x in zip(cells, vals):
                m.cells[idx] = [list(r) for r in x.tolist()]

        elif op == "field":
            if nf_now == 0:
                continue
            name = A.fields[int(rng.integers(nf_now))]
            A[name] *= 2
            B[name] *= 2
            n = A[name].flatten().shape[0]
            vals = np.round(rng.normal(size=n) * 5)
            A[name].set_flattened(vals)
            B[name].set_flattened(vals)
            m = Model(A)

        elif op == "copy":
            # a copy shares no mutable state: changing the copy's columns leaves the source alone
            C = A.copy()
            snap = Model(A)
            C.add_fields(["only-in-copy"])
            if C.num_fields > 1:
                C.remove_fields([C.fields[0]])
            for name in C.fields:
                C[name] += 1000.0
            assert Model(A).__dict__ == snap.__dict__
            assert "only-in-copy" not in A.fields and len(A.units) == A.num_fields
            stats["copy"] += 1

        elif op in ("inject_add", "inject_remove"):
            # failure injection on throw-away twins: a cell with a foreign column count sits somewhere
            # in the store, so the call fails half-way.  Old and new must fail identically and leave
            # the same (schema already updated, data untouched) state behind.
            populated = [i for i in cells if cell_at(A._data, i) is not None]
            if not populated or nf_now < 2:
                continue
            TA, TB = A.copy(), B.copy()
            where = populated[int(rng.integers(len(populated)))]
            rogue = np.zeros((2, nf_now - 1))
            put_cell(TA._data, where, rogue.copy())
            put_cell(TB._data, where, rogue.copy())
            data_before = [cell_at(TA._data, i) for i in cells]
            if op == "inject_add":
                ra = outcome(TA.add_fields, ["x1", "x2"])
                rb = outcome(orig_add_fields, TB, ["x1", "x2"])
                assert ra[2] == f"Expected arrays with {nf_now} fields, got {nf_now - 1}", ra
                assert TA.fields == A.fields + ["x1", "x2"] and TA.units == A.units + ["none"] * 2
            else:
                victims = [A.fields[-1], A.fields[0]]
                ra = outcome(TA.remove_fields, victims)
                rb = outcome(orig_remove_fields, TB, victims)
                assert ra[2] == f"Cannot remove field index {nf_now - 1} from array with shape (2, {nf_now - 1})", ra
                assert TA.fields == A.fields[1:-1] and TA.units == A.units[1:-1]
            assert ra == rb and ra[0] == "err" and ra[1] is ValueError, (ra, rb)
            same_state(TA, TB)
            for i, before in zip(cells, data_before):
                assert cell_at(TA._data, i) is before  # data left exactly as it was
            stats[op] += 1

        same_state(A, B)
        check_against_model(A, m)
        same_state(A, B)


def main():
    rng = np.random.default_rng(77)
    stats = dict(add=0, remove=0, remove_missing=0, add_bad=0, copy=0, inject_add=0, inject_remove=0)
    shapes = [(1,), (3,), (1, 1), (4, 3), (2, 5), (1, 1, 1), (2, 3, 2), (3, 1, 2)]
    dtypes = [np.float64, np.int64, np.float32]
    for n, shape in enumerate(shapes):
        for nf in (1, 2, 4):
            run_history(rng, shape, nf, dtypes[(n + nf) % 3], steps=60, stats=stats)

    # deterministic spot checks
    v = Vector.from_data([np.array([[1, 2, 3], [4, 5, 6]]), np.zeros((0, 3), dtype=int)],
                         fields=["a", "b", "c"], units=["m", "s", "kg"])
    v.add_fields(("d", "e"))
    assert v.fields == ["a", "b", "c", "d", "e"] and v.units == ["m", "s", "kg", "none", "none"]
    assert v[0].tolist() == [[1, 2, 3, 0, 0], [4, 5, 6, 0, 0]] and v[1].shape == (0, 5)
    v.remove_fields(["e", "b", "b"])
    assert v.fields == ["a", "c", "d"] and v.units == ["m", "kg", "none"]
    assert v[0].tolist() == [[1, 3, 0], [4, 6, 0]] and v[1].shape == (0, 3)
    v.remove_fields("a")
    assert v.fields == ["c", "d"] and v["c"].flatten().tolist() == [3, 6]
    v.remove_fields(["c", "d"])
    assert v.fields == [] and v.units == [] and v[0].shape == (2, 0) and v.flatten().shape == (2, 0)
    v.add_fields("z")
    assert v.fields == ["z"] and v[0].tolist() == [[0.0], [0.0]] and v[1].shape == (0, 1)

    assert min(stats.values()) > 0, stats
    print("PASS", stats)


if __name__ == "__main__":
    main()
