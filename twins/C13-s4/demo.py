"""
C13 demo: the cross-correlation shift estimators (NumPy and torch) of
quantem.core.utils.imaging_utils are compared bit-for-bit against a verbatim
embedded copy of the ORIGINAL functions, and the registration property itself
(returned shift == applied circular translation, sign convention, zero shift
for identical images, antisymmetry under swapping) is asserted.

Run:  PYTHONPATH=<root>/src /venv/bin/python demo.py
"""

import itertools
import os
import warnings

for _v in ("OMP_NUM_THREADS", "OPENBLAS_NUM_THREADS", "MKL_NUM_THREADS"):
    os.environ.setdefault(_v, "1")

import numpy as np
import torch

torch.set_num_threads(1)
warnings.filterwarnings("ignore")

import quantem.core.utils.imaging_utils as new  # noqa: E402

# --------------------------------------------------------------------------
# verbatim copy of the original registration functions (file head .. dftUpsample_torch)
# --------------------------------------------------------------------------
ORIG_SRC = r'''
# Utilities for processing images

import math
from typing import Optional, Tuple

import numpy as np
import torch
from numpy.typing import NDArray
from scipy.ndimage import gaussian_filter

from quantem.core.utils.utils import generate_batches


def dft_upsample(
    F: NDArray,
    up: int,
    shift: Tuple[float, float],
    device: str = "cpu",
):
    """
    Matrix multiplication DFT, from:

    Manuel Guizar-Sicairos, Samuel T. Thurman, and James R. Fienup, "Efficient subpixel
    image registration algorithms," Opt. Lett. 33, 156-158 (2008).
    http://www.sciencedirect.com/science/article/pii/S0045790612000778
    """
    if device == "gpu":
        import cupy as cp  # type: ignore

        xp = cp
    else:
        xp = np

    M, N = F.shape
    du = np.ceil(1.5 * up).astype(int)
    # sample positions (in upsampled pixels) of the local patch, centred on `shift`
    row = np.arange(-du, du + 1) + shift[0] * up
    col = np.arange(-du, du + 1) + shift[1] * up

    # inverse-DFT kernels: F is a Fourier-domain array, the patch is in real space
    kern_row = np.exp(
        2j * np.pi / (M * up) * np.outer(row, xp.fft.ifftshift(xp.arange(M)) - M // 2)
    )
    kern_col = np.exp(
        2j * np.pi / (N * up) * np.outer(xp.fft.ifftshift(xp.arange(N)) - N // 2, col)
    )
    return xp.real(kern_row @ F @ kern_col)


def cross_correlation_shift(
    im_ref,
    im,
    upsample_factor: int = 1,
    max_shift=None,
    return_shifted_image: bool = False,
    fft_input: bool = False,
    fft_output: bool = False,
    device: str = "cpu",
):
    """
    Estimate subpixel shift between two 2D images using Fourier cross-correlation.

    Parameters
    ----------
    im_ref : ndarray
        Reference image or its FFT if fft_input=True
    im : ndarray
        Image to align or its FFT if fft_input=True
    upsample_factor : int
        Subpixel upsampling factor (must be > 1 for subpixel accuracy)
    fft_input : bool
        If True, assumes im_ref and im are already in Fourier space
    return_shifted_image : bool
        If True, return the shifted version of `im` aligned to `im_ref`
    device : str
        'cpu' or 'gpu' (requires CuPy)

    Returns
    -------
    shifts : tuple of float
        (row_shift, col_shift) to align `im` to `im_ref`
    image_shifted : ndarray (optional)
        Shifted image in real space, only returned if return_shifted_image=True
    """
    if device == "gpu":
        import cupy as cp  # type: ignore

        xp = cp
    else:
        xp = np

    # Fourier transforms
    F_ref = im_ref if fft_input else xp.fft.fft2(im_ref)
    F_im = im if fft_input else xp.fft.fft2(im)

    # Correlation
    cc = F_ref * xp.conj(F_im)
    cc_real = xp.real(xp.fft.ifft2(cc))

    if max_shift is not None:
        x = np.fft.fftfreq(cc.shape[0], 1 / cc.shape[0])
        y = np.fft.fftfreq(cc.shape[1], 1 / cc.shape[1])
        mask = x[:, None] ** 2 + y[None, :] ** 2 >= max_shift**2
        cc_real[mask] = 0.0

    # Coarse peak
    peak = xp.unravel_index(xp.argmax(cc_real), cc_real.shape)
    x0, y0 = peak

    # Parabolic refinement
    x_inds = xp.mod(x0 + xp.arange(-1, 2), cc.shape[0]).astype(int)
    y_inds = xp.mod(y0 + xp.arange(-1, 2), cc.shape[1]).astype(int)

    vx = cc_real[x_inds, y0]
    vy = cc_real[x0, y_inds]

    def parabolic_peak(v):
        return (v[2] - v[0]) / (4 * v[1] - 2 * v[2] - 2 * v[0])

    dx = parabolic_peak(vx)
    dy = parabolic_peak(vy)

    x0 = (x0 + dx) % cc.shape[0]
    y0 = (y0 + dy) % cc.shape[1]

    if upsample_factor <= 1:
        shifts = (x0, y0)
    else:
        # Local DFT upsampling

        local = dft_upsample(cc, upsample_factor, (x0, y0), device=device)
        peak = np.unravel_index(xp.argmax(local), local.shape)

        try:
            lx, ly = peak
            icc = local[lx - 1 : lx + 2, ly - 1 : ly + 2]
            if icc.shape == (3, 3):
                dxf = parabolic_peak(icc[:, 1])
                dyf = parabolic_peak(icc[1, :])
            else:
                raise ValueError("Subarray too close to edge")
        except (IndexError, ValueError):
            dxf = dyf = 0.0

        # the local patch is centred on (x0, y0): its centre sample has index (len - 1) // 2
        center = (np.array(local.shape) - 1) // 2
        shifts = np.array([x0, y0]) + (np.array(peak) - center) / upsample_factor
        shifts += np.array([dxf, dyf]) / upsample_factor

    shifts = (shifts + 0.5 * np.array(cc.shape)) % cc.shape - 0.5 * np.array(cc.shape)

    if not return_shifted_image:
        return shifts

    # Fourier shift image (F_im assumed to be FFT)
    kx = xp.fft.fftfreq(F_im.shape[0])[:, None]
    ky = xp.fft.fftfreq(F_im.shape[1])[None, :]
    phase_ramp = xp.exp(-2j * np.pi * (kx * shifts[0] + ky * shifts[1]))
    F_im_shifted = F_im * phase_ramp
    if fft_output:
        image_shifted = F_im_shifted
    else:
        image_shifted = xp.real(xp.fft.ifft2(F_im_shifted))

    return shifts, image_shifted


def cross_correlation_shift_torch(
    im_ref: torch.Tensor, im: torch.Tensor, upsample_factor: int = 2
) -> torch.Tensor:
    """
    Align two real images using Fourier cross-correlation and DFT upsampling.
    Returns dx, dy in pixel units (signed shifts).
    """
    G1 = torch.fft.fft2(im_ref)
    G2 = torch.fft.fft2(im)

    xy_shift = align_images_fourier_torch(G1, G2, upsample_factor)

    # convert to centered signed shifts as original code
    M, N = im_ref.shape
    dx = ((xy_shift[0] + M / 2) % M) - M / 2
    dy = ((xy_shift[1] + N / 2) % N) - N / 2

    return torch.tensor([dx, dy], device=G1.device)


def align_images_fourier_torch(
    G1: torch.Tensor,
    G2: torch.Tensor,
    upsample_factor: int,
) -> torch.Tensor:
    """
    Alignment using DFT upsampling of cross correlation.
    G1, G2: torch tensors representing FTs of images (complex)
    Returns: xy_shift (tensor length 2)
    """
    device = G1.device
    cc = G1 * G2.conj()
    cc_real = torch.fft.ifft2(cc).real

    # local max (integer)
    flat_idx = torch.argmax(cc_real)
    x0 = (flat_idx // cc_real.shape[1]).to(torch.long).item()
    y0 = (flat_idx % cc_real.shape[1]).to(torch.long).item()

    # half pixel shifts: pick ±1 indices with wrap (mod)
    M, N = cc_real.shape
    x_inds = [((x0 + dx) % M) for dx in (-1, 0, 1)]
    y_inds = [((y0 + dy) % N) for dy in (-1, 0, 1)]

    vx = cc_real[x_inds, y0]
    vy = cc_real[x0, y_inds]

    # parabolic half-pixel refine
    # dx = (vx[2] - vx[0]) / (4*vx[1] - 2*vx[2] - 2*vx[0])
    denom_x = 4.0 * vx[1] - 2.0 * vx[2] - 2.0 * vx[0]
    denom_y = 4.0 * vy[1] - 2.0 * vy[2] - 2.0 * vy[0]
    dx = (vx[2] - vx[0]) / denom_x if denom_x != 0 else torch.tensor(0.0, device=device)
    dy = (vy[2] - vy[0]) / denom_y if denom_y != 0 else torch.tensor(0.0, device=device)

    # round to nearest half-pixel
    x0 = torch.round((x0 + dx) * 2.0) / 2.0
    y0 = torch.round((y0 + dy) * 2.0) / 2.0

    xy_shift = torch.tensor([x0, y0])

    if upsample_factor > 2:
        xy_shift = upsampled_correlation_torch(cc, upsample_factor, xy_shift)

    return xy_shift


def upsampled_correlation_torch(
    imageCorr: torch.Tensor,
    upsampleFactor: int,
    xyShift: torch.Tensor,
) -> torch.Tensor:
    """
    Refine the correlation peak of imageCorr around xyShift by DFT upsampling.

    imageCorr: complex-valued FT-domain cross-correlation (G1 * conj(G2))
    upsampleFactor: integer > 2
    xyShift: 2-element tensor (x,y) in image coords; must be half-pixel precision as described.
    Returns refined xyShift (tensor length 2).
    """

    assert upsampleFactor > 2

    xyShift = torch.round(xyShift * float(upsampleFactor)) / float(upsampleFactor)
    globalShift = torch.floor(torch.ceil(torch.tensor(upsampleFactor * 1.5)) / 2.0)
    upsampleCenter = globalShift - (upsampleFactor * xyShift)

    conj_input = imageCorr.conj()
    im_up = dftUpsample_torch(conj_input, upsampleFactor, upsampleCenter)
    imageCorrUpsample = im_up.conj()

    # find maximum
    # flatten argmax -> unravel to 2D
    flat_idx = torch.argmax(imageCorrUpsample.real)
    # unravel_index
    xySubShift0 = (flat_idx // imageCorrUpsample.shape[1]).to(torch.long)
    xySubShift1 = (flat_idx % imageCorrUpsample.shape[1]).to(torch.long)
    xySubShift = torch.tensor([xySubShift0.item(), xySubShift1.item()])

    # parabolic subpixel refinement
    dx = 0.0
    dy = 0.0
    try:
        # extract 3x3 patch around found peak
        r = xySubShift[0].item()
        c = xySubShift[1].item()
        patch = imageCorrUpsample.real[r - 1 : r + 2, c - 1 : c + 2]
        # if patch is incomplete (near edge) this will raise / have wrong shape -> except
        if patch.shape == (3, 3):
            icc = patch
            # dx corresponds to row direction (vertical axis) as in original code:
            dx = (icc[2, 1] - icc[0, 1]) / (4.0 * icc[1, 1] - 2.0 * icc[2, 1] - 2.0 * icc[0, 1])
            dy = (icc[1, 2] - icc[1, 0]) / (4.0 * icc[1, 1] - 2.0 * icc[1, 2] - 2.0 * icc[1, 0])
            dx = dx.item()
            dy = dy.item()
        else:
            dx, dy = 0.0, 0.0
    except Exception:
        dx, dy = 0.0, 0.0

    # convert xySubShift to zero-centered by subtracting globalShift
    xySubShift = xySubShift.to(dtype=torch.get_default_dtype())
    xySubShift = xySubShift - globalShift.to(xySubShift.dtype)

    xyShift = xyShift + (xySubShift + torch.tensor([dx, dy])) / float(upsampleFactor)

    return xyShift


def dftUpsample_torch(
    imageCorr: torch.Tensor,
    upsampleFactor: int,
    xyShift: torch.Tensor,
) -> torch.Tensor:
    """
    Corrected matrix-multiply DFT upsampling (matches the original numpy dftups).
    Returns the real-valued upsampled correlation patch.

    imageCorr: (M, N) complex tensor (FT-domain cross-correlation)
    upsampleFactor: int > 2
    xyShift: 2-element tensor [x0, y0] giving the (half-pixel-rounded) peak location
             in the UPSAMPLED grid (same convention used elsewhere).
    """
    device = imageCorr.device
    M, N = imageCorr.shape
    pixelRadius = 1.5
    numRow = int(math.ceil(pixelRadius * upsampleFactor))
    numCol = numRow

    # prepare the vectors exactly like the numpy version
    # col: frequency indices (centered) for N
    col_freq = torch.fft.ifftshift(torch.arange(N, device=device)) - math.floor(N / 2)
    # row: frequency indices (centered) for M
    row_freq = torch.fft.ifftshift(torch.arange(M, device=device)) - math.floor(M / 2)

    # small upsample grid coordinates (integer positions in the UPSAMPLED GRID)
    col_coords = torch.arange(numCol, device=device, dtype=torch.get_default_dtype()) - float(
        xyShift[1]
    )
    row_coords = torch.arange(numRow, device=device, dtype=torch.get_default_dtype()) - float(
        xyShift[0]
    )

    # build kernels: note factor signs and denominators match original numpy code
    # colKern: shape (N, numCol)
    factor_col = -2j * math.pi / (N * float(upsampleFactor))
    # outer(col_freq, col_coords) -> shape (N, numCol)
    colKern = torch.exp(factor_col * (col_freq.unsqueeze(1) * col_coords.unsqueeze(0))).to(
        imageCorr.dtype
    )

    # rowKern: shape (numRow, M)
    factor_row = -2j * math.pi / (M * float(upsampleFactor))
    # outer(row_coords, row_freq) -> shape (numRow, M)
    rowKern = torch.exp(factor_row * (row_coords.unsqueeze(1) * row_freq.unsqueeze(0))).to(
        imageCorr.dtype
    )

    # perform the small-matrix DFT: (numRow, M) @ (M, N) @ (N, numCol) -> (numRow, numCol)
    imageUpsample = rowKern @ imageCorr @ colKern

    # original code took xp.real(...) before returning
    return imageUpsample.real
'''

orig = {}
exec(compile(ORIG_SRC, "<original imaging_utils>", "exec"), orig)


class _O:
    pass


old = _O()
for _k in (
    "dft_upsample",
    "cross_correlation_shift",
    "cross_correlation_shift_torch",
    "align_images_fourier_torch",
    "upsampled_correlation_torch",
    "dftUpsample_torch",
):
    setattr(old, _k, orig[_k])


# --------------------------------------------------------------------------
# helpers
# --------------------------------------------------------------------------
def same_np(a, b, what):
    a = np.asarray(a)
    b = np.asarray(b)
    assert a.dtype == b.dtype, (what, a.dtype, b.dtype)
    assert a.shape == b.shape, (what, a.shape, b.shape)
    assert a.tobytes() == b.tobytes(), (what, a, b)


def same_t(a, b, what):
    assert isinstance(a, torch.Tensor) and isinstance(b, torch.Tensor), what
    assert a.dtype == b.dtype, (what, a.dtype, b.dtype)
    assert a.shape == b.shape, (what, a.shape, b.shape)
    assert a.device == b.device, what
    same_np(a.resolve_conj().numpy(), b.resolve_conj().numpy(), what)


def smooth_image(shape, seed, kmax=3):
    # band-limited, real, unique correlation peak
    rng = np.random.default_rng(seed)
    M, N = shape
    F = np.zeros(shape, dtype=complex)
    for kx in range(-kmax, kmax + 1):
        for ky in range(-kmax, kmax + 1):
            F[kx % M, ky % N] = rng.normal() + 1j * rng.normal()
    im = np.real(np.fft.ifft2(F))
    return im / np.abs(im).max()


def fshift(im, s):
    # circular translation of a band-limited real image by s = (sx, sy) pixels
    kx = np.fft.fftfreq(im.shape[0])[:, None]
    ky = np.fft.fftfreq(im.shape[1])[None, :]
    return np.real(np.fft.ifft2(np.fft.fft2(im) * np.exp(-2j * np.pi * (kx * s[0] + ky * s[1]))))


def wrap(d, shape):
    d = np.asarray(d, dtype=float)
    s = np.asarray(shape, dtype=float)
    return (d + 0.5 * s) % s - 0.5 * s


SHAPES = [(16, 16), (15, 17), (32, 20), (21, 21), (9, 30)]
SHIFTS = [(0, 0), (1, 0), (0, -1), (3, -2), (7, 5), (-6, 9), (0.5, 0.25), (2.3, -1.7), (-4.62, 6.41)]
n_cmp = 0
n_prop = 0

# --------------------------------------------------------------------------
# NumPy estimator
# --------------------------------------------------------------------------
for shape, (si, s) in itertools.product(SHAPES, enumerate(SHIFTS)):
    base = smooth_image(shape, seed=si + 10 * shape[0])
    ref = fshift(base, s)  # translating `base` by s reproduces `ref`
    want = wrap(s, shape)
    for up in (1, 2, 3, 4, 8, 16, 64):
        for max_shift in (None, 2.5, 6, 40):
            a = old.cross_correlation_shift(ref, base, upsample_factor=up, max_shift=max_shift)
            b = new.cross_correlation_shift(ref, base, upsample_factor=up, max_shift=max_shift)
            same_np(a, b, ("np shift", shape, s, up, max_shift))
            n_cmp += 1
        # property
        got = np.asarray(new.cross_correlation_shift(ref, base, upsample_factor=up), dtype=float)
        half = np.isclose(np.abs(want), 0.5 * np.array(shape))  # +-N/2 are the same shift
        err = np.abs(wrap(got - want, shape))
        tol = 0.5 if up <= 1 else 1.0 / up + 1e-9
        assert np.all(err <= tol), ("np property", shape, s, up, got, want)
        if float(s[0]).is_integer() and float(s[1]).is_integer():
            assert np.all(err <= 1e-6), ("np integer shift", shape, s, up, got, want)
        # swapping negates
        neg = np.asarray(new.cross_correlation_shift(base, ref, upsample_factor=up), dtype=float)
        assert np.all((np.abs(wrap(neg + got, shape)) <= 2 * tol) | half), ("np swap", shape, s, up)
        n_prop += 1

    # aligned image, real / Fourier inputs and outputs
    for up, fft_in, fft_out, max_shift in itertools.product((1, 4, 16), (False, True), (False, True), (None, 6)):
        A, B = (np.fft.fft2(ref), np.fft.fft2(base)) if fft_in else (ref, base)
        kw = dict(
            upsample_factor=up,
            max_shift=max_shift,
            return_shifted_image=True,
            fft_input=fft_in,
            fft_output=fft_out,
        )
        sa, ia = old.cross_correlation_shift(A, B, **kw)
        sb, ib = new.cross_correlation_shift(A, B, **kw)
        same_np(sa, sb, ("np shift+img", shape, s, kw))
        same_np(ia, ib, ("np aligned", shape, s, kw))
        n_cmp += 1
        if max_shift is None and up > 1:
            img = np.real(np.fft.ifft2(ib)) if fft_out else ib
            assert np.abs(img - ref).max() < 0.5 * (1.0 / up) * 6, ("np aligned property", shape, s, kw)

# identical images -> zero shift for every upsampling factor
for shape in SHAPES:
    im = smooth_image(shape, seed=99)
    for up in range(1, 65):
        a = old.cross_correlation_shift(im, im, upsample_factor=up)
        b = new.cross_correlation_shift(im, im, upsample_factor=up)
        same_np(a, b, ("np identical", shape, up))
        assert np.all(np.abs(np.asarray(b, dtype=float)) < 1e-6), ("np identical zero", shape, up, b)
        n_cmp += 1

# random (not band-limited) images, integer inputs, float32 inputs
rng = np.random.default_rng(5)
for shape in SHAPES:
    for dt in (np.float64, np.float32, np.int32):
        a0 = (rng.normal(size=shape) * 50).astype(dt)
        b0 = np.roll(a0, (3, -4), axis=(0, 1))
        for up in (1, 2, 5, 10):
            for ms in (None, 1, 7.5):
                a = old.cross_correlation_shift(b0, a0, upsample_factor=up, max_shift=ms)
                b = new.cross_correlation_shift(b0, a0, upsample_factor=up, max_shift=ms)
                same_np(a, b, ("np random", shape, dt, up, ms))
                n_cmp += 1

# dft_upsample directly
for shape in SHAPES:
    F = np.fft.fft2(smooth_image(shape, 3)) * np.conj(np.fft.fft2(smooth_image(shape, 4)))
    for up in (2, 3, 4, 7, 16, 64):
        for sh in ((0.0, 0.0), (1.5, -2.25), (shape[0] - 0.5, 3.0)):
            same_np(old.dft_upsample(F, up, sh), new.dft_upsample(F, up, sh), ("dft_upsample", shape, up, sh))
            n_cmp += 1

# --------------------------------------------------------------------------
# torch estimator
# --------------------------------------------------------------------------
for shape, (si, s) in itertools.product(SHAPES, enumerate(SHIFTS)):
    base = smooth_image(shape, seed=si + 10 * shape[0])
    ref = fshift(base, s)
    want = wrap(s, shape)
    for dt in (torch.float32, torch.float64):
        tb = torch.tensor(base, dtype=dt)
        tr = torch.tensor(ref, dtype=dt)
        for up in (1, 2, 3, 4, 5, 8, 16, 33, 64):
            a = old.cross_correlation_shift_torch(tr, tb, upsample_factor=up)
            b = new.cross_correlation_shift_torch(tr, tb, upsample_factor=up)
            same_t(a, b, ("torch shift", shape, s, dt, up))
            n_cmp += 1
            G1, G2 = torch.fft.fft2(tr), torch.fft.fft2(tb)
            same_t(
                old.align_images_fourier_torch(G1, G2, up),
                new.align_images_fourier_torch(G1, G2, up),
                ("torch align", shape, s, dt, up),
            )
            n_cmp += 1
            # property (the torch variant rounds to half pixels for factors <= 2)
            got = b.double().numpy()
            err = np.abs(wrap(got - want, shape))
            tol = 0.5 + 1e-6 if up <= 2 else 1.0 / up + 1e-4
            half = np.isclose(np.abs(want), 0.5 * np.array(shape))
            assert np.all((err <= tol) | half), ("torch property", shape, s, dt, up, got, want)
            if float(s[0]).is_integer() and float(s[1]).is_integer():
                assert np.all((err <= 1e-3) | half), ("torch integer shift", shape, s, dt, up, got, want)
            neg = new.cross_correlation_shift_torch(tb, tr, upsample_factor=up).double().numpy()
            assert np.all((np.abs(wrap(neg + got, shape)) <= 2 * tol) | half), ("torch swap", shape, s, up)
            n_prop += 1

# identical images (torch)
for shape in SHAPES:
    im = torch.tensor(smooth_image(shape, seed=98), dtype=torch.float32)
    for up in range(1, 65):
        a = old.cross_correlation_shift_torch(im, im, upsample_factor=up)
        b = new.cross_correlation_shift_torch(im, im, upsample_factor=up)
        same_t(a, b, ("torch identical", shape, up))
        assert float(b.abs().max()) < 1e-3, ("torch identical zero", shape, up, b)
        n_cmp += 1

# the torch helpers directly, incl. peaks at the patch edge and non-integer factors
g = torch.Generator().manual_seed(3)
for shape in SHAPES:
    for cdt in (torch.complex64, torch.complex128):
        cc = torch.randn(shape, generator=g, dtype=torch.float64).to(cdt) + 1j * torch.randn(
            shape, generator=g, dtype=torch.float64
        ).to(cdt)
        cc_s = torch.fft.fft2(torch.tensor(smooth_image(shape, 1))) * torch.fft.fft2(
            torch.tensor(smooth_image(shape, 2))
        ).conj()
        for C in (cc, cc_s.to(cdt)):
            for up in (3, 4, 5, 8, 16, 64, 3.0, 4.5, np.int64(6)):
                for xy in ((0.0, 0.0), (1.5, 2.0), (shape[0] - 0.5, 0.5), (4.0, shape[1] - 1.0)):
                    t = torch.tensor(xy)
                    same_t(
                        old.dftUpsample_torch(C, up, t * 2.0),
                        new.dftUpsample_torch(C, up, t * 2.0),
                        ("dftUpsample_torch", shape, cdt, up, xy),
                    )
                    n_cmp += 1
                    if isinstance(up, float):
                        continue
                    same_t(
                        old.upsampled_correlation_torch(C, int(up), t),
                        new.upsampled_correlation_torch(C, int(up), t),
                        ("upsampled_correlation_torch", shape, cdt, up, xy),
                    )
                    n_cmp += 1

print(f"OK: {n_cmp} old==new bit-for-bit comparisons, {n_prop} property checks")
