"""Demo for property C18 (centre-of-mass origin estimation).

Embeds verbatim copies of the ORIGINAL implementations of the five functions the
property depends on and asserts that the functions currently in the source tree
give bit-for-bit identical results, on a spread of non-square 4-D datasets,
detector masks, batch sizes, fit functions and integer origins.  In addition the
property itself is asserted against float64 oracles.

Invoked as:  PYTHONPATH=<root>/src /venv/bin/python demo.py
"""

import math
import warnings
from typing import Literal, Tuple

import numpy as np
import torch
from numpy.typing import NDArray
from scipy.optimize import curve_fit
from torch.nn import functional as F

from quantem.core import config
from quantem.core.datastructures import Dataset
from quantem.core.utils.utils import tqdmnd
from quantem.core.utils.validators import validate_tensor
from quantem.diffractive_imaging import ptycho_utils
from quantem.diffractive_imaging.dataset_models import PtychographyDatasetRaster
from quantem.diffractive_imaging.origin_models import CenterOfMassOriginModel
from quantem.diffractive_imaging.ptycho_utils import (
    SimpleBatcher,
    _bezier_two,
    _parabola,
    _plane,
    perform_robust_fitting,
)

warnings.filterwarnings("ignore")

new_fit_origin = ptycho_utils.fit_origin


# --------------------------------------------------------------------------------------
# verbatim copies of the ORIGINAL functions (worktree HEAD cb777aa)
# --------------------------------------------------------------------------------------


def fit_origin(
    data: np.ndarray | tuple[np.ndarray, np.ndarray],
    mask: np.ndarray | None = None,
    fit_function: Literal["plane", "parabola", "bezier_two", "constant"] = "plane",
    robust=False,
    robust_steps=3,
    robust_thresh=2,
) -> tuple[np.ndarray, np.ndarray, np.ndarray, np.ndarray]:
    """Fits the origin of diffraction space using the specified method."""

    qr0_meas, qc0_meas = data

    if fit_function == "plane":
        f = _plane
    elif fit_function == "parabola":
        f = _parabola
    elif fit_function == "bezier_two":
        f = _bezier_two
    elif fit_function == "constant":
        qr0_fit = np.mean(qr0_meas) * np.ones_like(qr0_meas)
        qc0_fit = np.mean(qc0_meas) * np.ones_like(qc0_meas)
        qr0_residuals = qr0_meas - qr0_fit
        qc0_residuals = qc0_meas - qc0_fit
        return qr0_fit, qc0_fit, qr0_residuals, qc0_residuals
    else:
        raise ValueError(
            "fit_function must be one of 'plane', 'parabola', 'bezier_two', 'constant'"
        )
    shape = qr0_meas.shape
    r, c = np.indices(shape)
    r1D = r.reshape(1, np.prod(shape))
    c1D = c.reshape(1, np.prod(shape))
    rc = np.vstack((r1D, c1D))

    if mask is not None:
        qr0_meas_masked = qr0_meas[mask]
        qc0_meas_masked = qc0_meas[mask]
        mask1D = mask.reshape(1, np.prod(shape))
        rc_masked = np.vstack((r1D * mask1D, c1D * mask1D))

        popt_r, _ = curve_fit(f, rc_masked, qr0_meas_masked)
        popt_c, _ = curve_fit(f, rc_masked, qc0_meas_masked)

        if robust:
            popt_r = perform_robust_fitting(
                f, rc_masked, qr0_meas_masked, popt_r, robust_steps, robust_thresh
            )
            popt_c = perform_robust_fitting(
                f, rc_masked, qc0_meas_masked, popt_c, robust_steps, robust_thresh
            )
    else:
        popt_r, _ = curve_fit(f, rc, qr0_meas)
        popt_c, _ = curve_fit(f, rc, qc0_meas)

        if robust:
            popt_r = perform_robust_fitting(f, rc, qr0_meas, popt_r, robust_steps, robust_thresh)
            popt_c = perform_robust_fitting(f, rc, qc0_meas, popt_c, robust_steps, robust_thresh)

    qr0_fit = f(rc, *popt_r).reshape(shape)
    qc0_fit = f(rc, *popt_c).reshape(shape)
    qr0_residuals = qr0_meas - qr0_fit
    qc0_residuals = qc0_meas - qc0_fit

    return qr0_fit, qc0_fit, qr0_residuals, qc0_residuals


def calculate_origin(
    self,
    max_batch_size: int | None = None,
):
    """ """
    nqx, nqy = self.dataset.shape[-2:]
    tensor_3d = self.tensor.view((-1, nqx, nqy))

    qx = torch.arange(nqx, dtype=torch.float, device=self.device)
    qy = torch.arange(nqy, dtype=torch.float, device=self.device)
    qxa, qya = torch.meshgrid(qx, qy, indexing="ij")

    if max_batch_size is None:
        max_batch_size = self.num_dps

    batcher = SimpleBatcher(self.num_dps, batch_size=max_batch_size, shuffle=False)

    com_measured = torch.empty((self.num_dps, 2), dtype=torch.float, device=self.device)

    for batch_idx in batcher:
        intensities = tensor_3d[batch_idx]
        summed_intensities = torch.sum(intensities, dim=(-2, -1))
        com_measured[batch_idx, 0] = (
            torch.sum(intensities * qxa[None, :, :], dim=(-2, -1)) / summed_intensities
        )
        com_measured[batch_idx, 1] = (
            torch.sum(intensities * qya[None, :, :], dim=(-2, -1)) / summed_intensities
        )

    self.origin_measured = com_measured
    return self


def fit_origin_background(
    self,
    probe_positions: torch.Tensor | NDArray | None = None,
    fit_method: str = "plane",
):
    """ """

    if self._origin_measured is None:
        raise ValueError("measured origins not detected. Use self.calculate_origin() first.")

    if probe_positions is None:
        if self.dataset.ndim != 4:
            raise ValueError(
                "probe positions could not be inferred from dataset, please pass them explicitly."
            )

        nx, ny = self.dataset.shape[:2]

        x = torch.arange(nx, dtype=torch.float, device=self.device)
        y = torch.arange(ny, dtype=torch.float, device=self.device)
        xa, ya = torch.meshgrid(x, y, indexing="ij")
        probe_positions = torch.stack([xa, ya], -1).view((-1, 2))
    else:
        probe_positions = validate_tensor(
            probe_positions, "probe positions", dtype=torch.float
        ).view((-1, 2))
        if probe_positions.shape != self.origin_measured.shape:
            raise ValueError("probe positions shape must match the measured origins.")

    if fit_method == "plane":

        def fit_linear_plane(points: torch.Tensor):
            """ """
            # Covariance matrix
            centroid = points.mean(0)
            centered_points = points - centroid
            covariance_matrix = torch.cov(centered_points.T)

            # Fall back to CPU (to support MPS)
            eigenvectors = torch.linalg.eigh(covariance_matrix.cpu())[1].to(points.device)

            # The normal vector to the plane is the eigenvector corresponding to the smallest eigenvalue
            normal_vector = eigenvectors[:, 0]
            a, b, c = normal_vector

            # Calculate d using the centroid: d = -(ax_c + by_c + cz_c)
            d = -torch.dot(normal_vector, centroid)
            return a, b, c, d

        com_x_pts = torch.concatenate((probe_positions, self.origin_measured[:, 0, None]), 1)
        com_y_pts = torch.concatenate((probe_positions, self.origin_measured[:, 1, None]), 1)

        ax, bx, cx, dx = fit_linear_plane(com_x_pts)
        ay, by, cy, dy = fit_linear_plane(com_y_pts)

        com_fitted_x = (
            probe_positions @ torch.tensor([-ax, -bx], device=self.device) - dx
        ) / cx
        com_fitted_y = (
            probe_positions @ torch.tensor([-ay, -by], device=self.device) - dy
        ) / cy
        com_fitted = torch.stack([com_fitted_x, com_fitted_y], -1)

    elif fit_method == "constant":
        com_fitted = self.origin_measured.mean(0)

    else:
        raise NotImplementedError(
            "only fit_method='plane' and 'constant' are implemented for now."
        )

    self.origin_fitted = com_fitted
    return self


def shift_origin_to(
    self,
    origin_coordinate: Tuple[int | float, int | float] = (0, 0),
    max_batch_size: int | None = None,
    mode: str = "bilinear",
):
    if self._origin_fitted is None:
        raise ValueError(
            "fitted origins not detected. Use self.fit_origin_background() first."
        )

    origin_fitted = self.origin_fitted
    H, W = self.dataset.shape[-2:]

    tensor_3d = self.tensor.view((-1, 1, H, W))
    shifted_tensor_3d = torch.empty_like(tensor_3d)
    coordinate = torch.as_tensor(origin_coordinate, dtype=torch.float, device=self.device)

    grid_y, grid_x = torch.meshgrid(
        torch.arange(H, device=self.device), torch.arange(W, device=self.device), indexing="ij"
    )
    base_grid = torch.stack((grid_y, grid_x), dim=-1).float()

    if max_batch_size is None:
        max_batch_size = self.num_dps

    batcher = SimpleBatcher(self.num_dps, batch_size=max_batch_size, shuffle=False)

    size_tensor = torch.tensor([H, W], dtype=torch.float, device=self.device)

    for batch_idx in batcher:
        intensities = tensor_3d[batch_idx]

        shift_yx = origin_fitted[batch_idx] - coordinate
        shift_tensor = shift_yx.view(-1, 1, 1, 2)

        shifted_grid = (base_grid[None, ...] + shift_tensor) % size_tensor

        grid_x_norm = 2 * shifted_grid[..., 1] / (W - 1) - 1
        grid_y_norm = 2 * shifted_grid[..., 0] / (H - 1) - 1
        grid = torch.stack((grid_x_norm, grid_y_norm), dim=-1)

        shifted_tensor_3d[batch_idx] = F.grid_sample(
            intensities,
            grid,
            mode=mode,
            padding_mode="zeros",
            align_corners=True,
        )

    self.shifted_tensor = shifted_tensor_3d.view(self.tensor.shape)
    return self


def _set_intensities_com(
    self,
    intensities: np.ndarray,
    dp_mask: np.ndarray | None = None,
    fit_function: Literal["none", "plane", "parabola", "constant", "no_shift"] = "plane",
    vectorized_calculation=True,
) -> None:
    if dp_mask is not None:
        if dp_mask.shape != intensities.shape[-2:]:
            raise ValueError(
                f"Mask shape should be (Qr,Qc) = {intensities.shape[-2:]} | got {dp_mask.shape}"
            )
        dp_mask = np.asarray(dp_mask, dtype=config.get("dtype_real"))

    # Coordinates
    kr = np.arange(intensities.shape[-2])
    kc = np.arange(intensities.shape[-1])
    krm, kcm = np.meshgrid(kr, kc, indexing="ij")

    if vectorized_calculation:
        if dp_mask is not None:
            intensities_mask = (intensities * dp_mask).astype(config.get("dtype_real"))
        else:
            intensities_mask = (intensities).astype(config.get("dtype_real"))
        com_measured_r = np.sum(intensities_mask * krm[None, None], axis=(-2, -1))
        com_measured_c = np.sum(intensities_mask * kcm[None, None], axis=(-2, -1))

        intensities_sum = np.sum(intensities_mask, axis=(-2, -1))
        com_measured_r /= intensities_sum
        com_measured_c /= intensities_sum

    else:
        shape_r, shape_c = intensities.shape[:2]
        com_measured_r = np.zeros((shape_r, shape_c))
        com_measured_c = np.zeros((shape_r, shape_c))

        # loop of dps
        for Rr, Rc in tqdmnd(
            range(shape_r),
            range(shape_c),
            desc="Calculating center of mass",
            unit="probe position",
            disable=not self._verbose,
        ):
            masked_intensity = intensities[Rr, Rc]
            if dp_mask is not None:
                masked_intensity *= dp_mask
            summed_intensity = masked_intensity.sum()
            com_measured_r[Rr, Rc] = np.sum(masked_intensity * krm) / summed_intensity
            com_measured_c[Rr, Rc] = np.sum(masked_intensity * kcm) / summed_intensity

    if fit_function == "none":
        com_fit_r, com_fit_c = com_measured_r, com_measured_c
    elif fit_function == "no_shift":
        com_fit_r, com_fit_c = np.ones_like(com_measured_r), np.ones_like(com_measured_c)
        com_fit_r = com_fit_r * self.roi_shape[0] / 2
        com_fit_c = com_fit_c * self.roi_shape[1] / 2
    else:
        finite_mask = np.isfinite(com_measured_r)
        com_fit_r, com_fit_c, _com_res_r, _com_res_c = fit_origin(
            data=(com_measured_r, com_measured_c),
            fit_function=fit_function,
            mask=finite_mask,
        )

    self.com_measured = (com_measured_r, com_measured_c)  # raw measured pixels
    self.com_fit = (com_fit_r, com_fit_c)  # fitted for descan, pixels
    return


# --------------------------------------------------------------------------------------
# helpers
# --------------------------------------------------------------------------------------

SHAPES = [(3, 4, 5, 7), (4, 3, 6, 5), (2, 5, 8, 3), (1, 6, 4, 9), (5, 2, 7, 7), (3, 3, 2, 6)]


def make_data(shape, seed):
    """Positive, asymmetric, non-separable patterns whose centre drifts with the scan."""
    rng = np.random.default_rng(seed)
    Rr, Rc, Qr, Qc = shape
    q_r, q_c = np.meshgrid(np.arange(Qr), np.arange(Qc), indexing="ij")
    arr = np.empty(shape, dtype=np.float32)
    for i in range(Rr):
        for j in range(Rc):
            cr = 0.30 * Qr + 0.21 * i - 0.08 * j
            cc = 0.55 * Qc - 0.13 * i + 0.17 * j
            blob = np.exp(-(((q_r - cr) / (0.35 * Qr)) ** 2) - ((q_c - cc) / (0.2 * Qc)) ** 2)
            arr[i, j] = blob + 0.05 + 0.3 * rng.random((Qr, Qc))
    return arr


def oracle_com(arr, mask=None):
    a = arr.astype(np.float64)
    if mask is not None:
        a = a * mask.astype(np.float64)
    Qr, Qc = arr.shape[-2:]
    r = np.arange(Qr, dtype=np.float64)[:, None]
    c = np.arange(Qc, dtype=np.float64)[None, :]
    s = a.sum((-2, -1))
    return (a * r).sum((-2, -1)) / s, (a * c).sum((-2, -1)) / s


def same_t(a, b):
    return (
        a.dtype == b.dtype
        and a.shape == b.shape
        and a.stride() == b.stride()
        and torch.equal(
            a.contiguous().view(torch.int32), b.contiguous().view(torch.int32)
        )  # bitwise, so NaN == NaN
    )


def same_n(a, b):
    return (
        a.dtype == b.dtype
        and a.shape == b.shape
        and a.flags["C_CONTIGUOUS"] == b.flags["C_CONTIGUOUS"]
        and np.array_equal(a, b, equal_nan=True)
    )


def outcome(fn, *args, **kwargs):
    try:
        return ("ok", fn(*args, **kwargs))
    except Exception as e:  # noqa: BLE001 - compared by type and message below
        return ("err", (type(e), str(e)))


def new_model(arr):
    return CenterOfMassOriginModel.from_dataset(Dataset.from_array(arr.copy()), device="cpu")


def new_raster(arr, mask=None):
    return PtychographyDatasetRaster.from_array(
        arr.copy(),
        units=["A", "A", "A^-1", "A^-1"],
        detector_mask=mask,
        verbose=0,
    )


n_checks = 0


def check(cond, msg):
    global n_checks
    n_checks += 1
    assert cond, msg


# --------------------------------------------------------------------------------------
# 1. CenterOfMassOriginModel: calculate_origin / fit_origin_background / shift_origin_to
# --------------------------------------------------------------------------------------

for si, shape in enumerate(SHAPES):
    arr = make_data(shape, 100 + si)
    n = shape[0] * shape[1]
    ref_r, ref_c = oracle_com(arr)
    ref = np.stack([ref_r.ravel(), ref_c.ravel()], -1)

    first = None
    for bs in [None] + list(range(1, n + 1)):
        m_new, m_old = new_model(arr), new_model(arr)
        m_new.calculate_origin(bs)
        calculate_origin(m_old, bs)
        check(same_t(m_new.origin_measured, m_old.origin_measured), f"calculate_origin {shape} {bs}")
        got = m_new.origin_measured.numpy().astype(np.float64)
        check(np.allclose(got, ref, rtol=0, atol=2e-5), f"com oracle {shape} {bs}")
        if first is None:
            first = got
        check(np.allclose(got, first, rtol=0, atol=2e-5), f"batch invariance {shape} {bs}")

    # plane / constant fit of the measured origins, inferred and explicit positions
    rng = np.random.default_rng(7 + si)
    explicit = rng.uniform(-3, 9, size=(n, 2)).astype(np.float32)
    for method in ("plane", "constant", "bogus"):
        for pos in (None, explicit, torch.as_tensor(explicit), explicit[:-1]):
            if shape[0] == 1 and method == "plane" and pos is None:
                pass  # degenerate (collinear) positions are still compared old-vs-new
            m_new, m_old = new_model(arr), new_model(arr)
            m_new.calculate_origin()
            calculate_origin(m_old)
            o_new = outcome(m_new.fit_origin_background, pos, method)
            o_old = outcome(fit_origin_background, m_old, pos, method)
            check(o_new[0] == o_old[0], f"fit outcome {shape} {method}")
            if o_new[0] == "err":
                check(o_new[1] == o_old[1], f"fit error {shape} {method}")
            else:
                check(
                    same_t(m_new.origin_fitted, m_old.origin_fitted),
                    f"fit_origin_background {shape} {method}",
                )

    # origins lying exactly on a plane / constant are returned
    if shape[0] > 1 and shape[1] > 1:
        for coef in [(0.5, -0.25, 3.0, 0.125, 0.75, 2.0), (-1.0, 0.5, 10.0, 0.25, -0.5, 4.5)]:
            ii, jj = np.meshgrid(np.arange(shape[0]), np.arange(shape[1]), indexing="ij")
            pr = coef[0] * ii + coef[1] * jj + coef[2]
            pc = coef[3] * ii + coef[4] * jj + coef[5]
            surf = np.stack([pr.ravel(), pc.ravel()], -1).astype(np.float32)
            m_new, m_old = new_model(arr), new_model(arr)
            m_new.origin_measured = torch.as_tensor(surf)
            m_old.origin_measured = torch.as_tensor(surf)
            m_new.fit_origin_background(None, "plane")
            fit_origin_background(m_old, None, "plane")
            check(same_t(m_new.origin_fitted, m_old.origin_fitted), f"exact plane old/new {shape}")
            check(
                np.allclose(m_new.origin_fitted.numpy(), surf, rtol=0, atol=5e-4),
                f"exact plane recovered {shape}",
            )
        const = np.tile(np.array([[2.5, 3.25]], dtype=np.float32), (n, 1))
        m_new = new_model(arr)
        m_new.origin_measured = torch.as_tensor(const)
        m_new.fit_origin_background(None, "constant")
        check(np.array_equal(m_new.origin_fitted.numpy(), const), f"exact constant {shape}")

    # integer origins -> circular roll
    H, W = shape[-2:]
    rng = np.random.default_rng(31 + si)
    org = np.stack([rng.integers(0, H, n), rng.integers(0, W, n)], -1).astype(np.float32)
    for target in [(0, 0), (1, 2)]:
        for bs in [None, 1, 2, n]:
            for mode in ("bilinear", "nearest"):
                m_new, m_old = new_model(arr), new_model(arr)
                m_new.origin_fitted = torch.as_tensor(org)
                m_old.origin_fitted = torch.as_tensor(org)
                m_new.shift_origin_to(target, bs, mode)
                shift_origin_to(m_old, target, bs, mode)
                check(
                    same_t(m_new.shifted_tensor, m_old.shifted_tensor),
                    f"shift_origin_to {shape} {target} {bs} {mode}",
                )
                flat = arr.reshape(n, H, W)
                rolled = np.stack(
                    [
                        np.roll(
                            flat[k],
                            (-(int(org[k, 0]) - target[0]), -(int(org[k, 1]) - target[1])),
                            axis=(0, 1),
                        )
                        for k in range(n)
                    ]
                ).reshape(shape)
                check(
                    np.allclose(m_new.shifted_tensor.numpy(), rolled, rtol=1e-4, atol=1e-5),
                    f"shift == roll {shape} {target} {bs} {mode}",
                )
    # non-integer origin: only old == new
    m_new, m_old = new_model(arr), new_model(arr)
    m_new.calculate_origin().fit_origin_background()
    fit_origin_background(calculate_origin(m_old))
    m_new.shift_origin_to((0.5, 1.25), 2)
    shift_origin_to(m_old, (0.5, 1.25), 2)
    check(same_t(m_new.shifted_tensor, m_old.shifted_tensor), f"shift fractional {shape}")
    # full workflow
    m_new = new_model(arr).forward(max_batch_size=2, estimate_detector_orientation=False)
    check(same_t(m_new.shifted_tensor, shift_origin_to(
        fit_origin_background(calculate_origin(new_model(arr), 2)), (0, 0), 2).shifted_tensor),
        f"forward {shape}")

# errors before calculate / fit
for fn_new, fn_old in (
    (lambda m: m.fit_origin_background(), lambda m: fit_origin_background(m)),
    (lambda m: m.shift_origin_to(), lambda m: shift_origin_to(m)),
):
    arr = make_data(SHAPES[0], 1)
    a, b = outcome(fn_new, new_model(arr)), outcome(fn_old, new_model(arr))
    check(a[0] == "err" and a == b, "guard errors")

# --------------------------------------------------------------------------------------
# 2. PtychographyDatasetRaster._set_intensities_com (vectorised / looped, masks, fits)
# --------------------------------------------------------------------------------------

for si, shape in enumerate(SHAPES):
    arr = make_data(shape, 200 + si)
    Qr, Qc = shape[-2:]
    rng = np.random.default_rng(50 + si)
    mask_bool = rng.random((Qr, Qc)) > 0.25
    mask_bool[0, 0] = True
    masks = [None, mask_bool, mask_bool.astype(np.float32), rng.random((Qr, Qc)) + 0.1]
    fits = ["none", "no_shift", "constant", "plane"]
    if shape[0] * shape[1] >= 12 and min(shape[:2]) >= 3:
        fits.append("parabola")
    for mask in masks:
        ref_r, ref_c = oracle_com(arr, mask)
        per_path = {}
        for vectorized in (True, False):
            for fit in fits:
                d_new, d_old = new_raster(arr), new_raster(arr)
                i_new, i_old = d_new.intensities_4d.copy(), d_old.intensities_4d.copy()
                m_new = None if mask is None else mask.copy()
                m_old = None if mask is None else mask.copy()
                o_new = outcome(d_new._set_intensities_com, i_new, m_new, fit, vectorized)
                o_old = outcome(_set_intensities_com, d_old, i_old, m_old, fit, vectorized)
                check(o_new[0] == o_old[0], f"com outcome {shape} {fit} {vectorized}")
                if o_new[0] == "err":
                    check(o_new[1] == o_old[1], f"com error {shape} {fit} {vectorized}")
                    continue
                check(same_n(d_new.com_measured, d_old.com_measured), f"com_measured {shape} {fit}")
                check(same_n(d_new.com_fit, d_old.com_fit), f"com_fit {shape} {fit} {vectorized}")
                check(same_n(i_new, i_old), "input mutation identical")
                check(
                    np.allclose(d_new.com_measured[0], ref_r, rtol=0, atol=2e-5)
                    and np.allclose(d_new.com_measured[1], ref_c, rtol=0, atol=2e-5),
                    f"raster com oracle {shape} {vectorized}",
                )
                per_path[vectorized] = d_new.com_measured.copy()
                if fit == "none":
                    check(np.array_equal(d_new.com_fit, d_new.com_measured), "fit none")
                if fit == "constant":
                    check(
                        np.allclose(d_new.com_fit[0], ref_r.mean(), rtol=0, atol=2e-5)
                        and np.allclose(d_new.com_fit[1], ref_c.mean(), rtol=0, atol=2e-5),
                        "fit constant",
                    )
        check(np.allclose(per_path[True], per_path[False], rtol=0, atol=2e-5), "vec == loop")
        if mask is None:
            m = new_model(arr).calculate_origin(3)
            om = m.origin_measured.numpy().reshape(shape[0], shape[1], 2)
            check(
                np.allclose(om[..., 0], per_path[True][0], rtol=0, atol=2e-5)
                and np.allclose(om[..., 1], per_path[True][1], rtol=0, atol=2e-5),
                f"origin model == dataset model {shape}",
            )
    # wrong mask shape -> identical error
    bad = np.ones((Qr + 1, Qc), dtype=bool)
    a = outcome(new_raster(arr)._set_intensities_com, arr.copy(), bad)
    b = outcome(_set_intensities_com, new_raster(arr), arr.copy(), bad)
    check(a[0] == "err" and a == b, "mask shape error")

# preprocess() end-to-end on one dataset (vectorised and looped)
arr = make_data((4, 5, 6, 8), 999)
for vectorized in (True, False):
    d = new_raster(arr)
    d.preprocess(com_fit_function="plane", plot_rotation=False, plot_com=False, vectorized=vectorized)
    d2 = new_raster(arr)
    _set_intensities_com(d2, d2.intensities_4d, fit_function="plane", vectorized_calculation=vectorized)
    check(same_n(d.com_measured, d2.com_measured) and same_n(d.com_fit, d2.com_fit), "preprocess")

# --------------------------------------------------------------------------------------
# 3. ptycho_utils.fit_origin
# --------------------------------------------------------------------------------------

for si, shp in enumerate([(3, 4), (4, 3), (5, 7), (7, 5), (6, 6), (1, 9), (9, 1), (2, 2)]):
    rng = np.random.default_rng(300 + si)
    ii, jj = np.meshgrid(np.arange(shp[0]), np.arange(shp[1]), indexing="ij")
    plane_r = 0.5 * ii - 0.25 * jj + 3.0
    plane_c = 0.125 * ii + 0.75 * jj + 2.0
    noisy_r = plane_r + 0.05 * rng.standard_normal(shp)
    noisy_c = plane_c + 0.05 * rng.standard_normal(shp)
    full_mask = np.ones(shp, dtype=bool)
    for data_name, data in (
        ("plane", (plane_r, plane_c)),
        ("noisy", (noisy_r, noisy_c)),
        ("noisy32", (noisy_r.astype(np.float32), noisy_c.astype(np.float32))),
    ):
        for ff in ("plane", "parabola", "bezier_two", "constant", "bogus"):
            for mask in (None, full_mask):
                for robust in (False, True):
                    o_new = outcome(new_fit_origin, data, mask, ff, robust)
                    o_old = outcome(fit_origin, data, mask, ff, robust)
                    tag = f"fit_origin {shp} {data_name} {ff} {mask is not None} {robust}"
                    check(o_new[0] == o_old[0], tag + " outcome")
                    if o_new[0] == "err":
                        check(o_new[1] == o_old[1], tag + f" error {o_new[1]} vs {o_old[1]}")
                        continue
                    for x, y in zip(o_new[1], o_old[1]):
                        check(same_n(np.asarray(x), np.asarray(y)), tag)
                    if data_name == "plane" and ff in ("plane", "constant") and min(shp) > 1:
                        if ff == "plane":
                            check(
                                np.allclose(o_new[1][0], plane_r, rtol=0, atol=1e-6)
                                and np.allclose(o_new[1][1], plane_c, rtol=0, atol=1e-6),
                                tag + " exact surface",
                            )
    const = (np.full(shp, 2.5), np.full(shp, 3.25))
    res = new_fit_origin(const, fit_function="constant")
    check(np.array_equal(res[0], const[0]) and np.array_equal(res[1], const[1]), "constant exact")
    # non-2-D input is rejected identically
    a = outcome(new_fit_origin, (np.arange(5.0), np.arange(5.0)))
    b = outcome(fit_origin, (np.arange(5.0), np.arange(5.0)))
    check(a[0] == b[0] == "err" and a[1][0] is b[1][0], "1-D rejected")
    a = outcome(new_fit_origin, (np.ones((2, 3, 4)), np.ones((2, 3, 4))))
    b = outcome(fit_origin, (np.ones((2, 3, 4)), np.ones((2, 3, 4))))
    check(a[0] == b[0] == "err" and a[1][0] is b[1][0], "3-D rejected")

print(f"OK ({n_checks} checks)")
