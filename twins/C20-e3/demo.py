"""Demo for C20 / patch 3: the interval side of display normalisation
(ManualInterval.get_limits, CenteredInterval.get_limits and the affine map +
clip in BaseInterval.__call__).

Subclasses carrying verbatim copies of the ORIGINAL methods are compared with
the installed classes on a spread of arrays (odd shapes, int / uint / float16 /
float32 / bool / complex dtypes, NaN / inf entries, empty and all-NaN inputs,
lists, scalars, masked arrays): same limits (value AND scalar type), same
mapped arrays (dtype, shape, bits), same exceptions.  Then the property is
asserted through CustomNormalization on the installed tree.
"""

import itertools
import warnings

import numpy as np
from numpy.typing import NDArray

from quantem.core.visualization.custom_normalizations import (
    NORMALIZATION_PRESETS,
    CenteredInterval,
    CustomNormalization,
    ManualInterval,
    QuantileInterval,
)

warnings.filterwarnings("ignore")


# --------------------------------------------------------------------------
# verbatim copies of the ORIGINAL methods
# --------------------------------------------------------------------------
def original_call(self, values: NDArray) -> NDArray:
    vmin, vmax = self.get_limits(values)

    # integer data is converted first: unsigned subtraction would wrap around below vmin
    values = np.asarray(values)
    if np.issubdtype(values.dtype, np.integer):
        values = values.astype(np.float64)
    # subtract vmin
    values = np.subtract(values, vmin)
    # divide by interval
    if (vmax - vmin) != 0.0:
        np.true_divide(values, vmax - vmin, out=values)

    # clip to [0:1]
    np.clip(values, 0.0, 1.0, out=values)
    return values


class OriginalManualInterval(ManualInterval):
    __call__ = original_call

    def get_limits(self, values: NDArray) -> tuple[float, float]:
        # Avoid overhead of preparing array if both limits have been specified
        # manually, for performance.

        if self.vmin is not None and self.vmax is not None:
            return self.vmin, self.vmax

        # Make sure values is a Numpy array
        values = np.asarray(values).ravel()

        # Filter out invalid values (inf, nan)
        values = values[np.isfinite(values)]
        vmin = np.min(values) if self.vmin is None else self.vmin
        vmax = np.max(values) if self.vmax is None else self.vmax

        return vmin, vmax


class OriginalCenteredInterval(CenteredInterval):
    __call__ = original_call

    def get_limits(self, values: NDArray) -> tuple[float, float]:
        if self.half_range is not None:
            return self.vcenter - self.half_range, self.vcenter + self.half_range

        values = np.asarray(values).ravel()
        values = values[np.isfinite(values)]
        vmin = np.min(values)
        vmax = np.max(values)

        half_range = np.maximum(np.abs(vmin - self.vcenter), np.abs(vmax - self.vcenter))

        return self.vcenter - half_range, self.vcenter + half_range


class OriginalQuantileInterval(QuantileInterval):
    __call__ = original_call  # get_limits itself is not touched by the patch


# --------------------------------------------------------------------------
def inputs():
    rng = np.random.default_rng(33)
    d = {}
    d["f64_5x7"] = rng.normal(size=(5, 7)) * 13 + 2
    d["f64_1x9"] = rng.uniform(-4, -1, size=(1, 9))
    d["f32_3x11"] = (rng.normal(size=(3, 11)) * 5).astype(np.float32)
    d["f16_9"] = rng.uniform(-2, 2, size=9).astype(np.float16)
    x = rng.normal(size=(6, 5)) * 4
    x[0, 0], x[2, 3], x[5, 4], x[1, 1] = np.nan, np.inf, -np.inf, np.nan
    d["naninf_6x5"] = x
    d["naninf_f32"] = x.astype(np.float32)
    d["int64_4x3"] = rng.integers(-50, 50, size=(4, 3))
    d["int8"] = np.array([-128, 127, 0, 5], dtype=np.int8)
    d["uint8_7x2"] = rng.integers(0, 255, size=(7, 2), dtype=np.uint8)
    d["uint16_3x3x2"] = rng.integers(0, 60000, size=(3, 3, 2), dtype=np.uint16)
    d["uint64_big"] = np.array([0, 2**63, 2**64 - 1], dtype=np.uint64)
    d["bool_3x5"] = rng.integers(0, 2, size=(3, 5)).astype(bool)
    d["two_values"] = np.array([[3.0, 3.0, 8.0]])
    d["constant"] = np.full((4, 4), 2.5)
    d["single"] = np.array([7.0])
    d["zerod"] = np.array(4.0)
    d["zerod_int"] = np.array(4)
    d["pyfloat"] = 2.5
    d["pyint"] = 3
    d["list"] = [1.0, 5.0, -2.0, float("nan")]
    d["nested_int_list"] = [[1, 2, 3], [4, 5, 60]]
    d["tuple"] = (0.5, 1.5)
    d["tiny_range"] = 1.0 + np.arange(5) * 1e-13
    d["huge"] = np.array([-1e300, 0.0, 1e300, 1e-300])
    d["strided"] = np.linspace(-3.0, 9.0, 60).reshape(6, 10)[::2, 1::3]
    d["fortran"] = np.asfortranarray(rng.normal(size=(4, 6)))
    d["masked"] = np.ma.masked_invalid(np.array([1.0, np.nan, 5.0, 9.0]))
    d["masked_vals"] = np.ma.masked_greater(np.array([1.0, 2.0, 50.0, 9.0]), 10.0)
    d["complex"] = np.array([1 + 2j, 3 - 1j, 0.5j])
    d["datetime"] = np.array(["2020-01-01", "NaT", "2021-06-01"], dtype="datetime64[D]")
    d["timedelta"] = np.array([1, 5, 9], dtype="timedelta64[s]")
    # nothing finite to take the limits from / unusable input
    d["empty"] = np.zeros((0,), dtype=np.float64)
    d["empty_2d_int"] = np.zeros((3, 0), dtype=np.int32)
    d["allnan"] = np.full((2, 3), np.nan)
    d["allinf"] = np.array([np.inf, -np.inf])
    d["object"] = np.array([1.0, None, 3.0], dtype=object)
    d["strings"] = np.array(["a", "b"])
    d["none"] = None
    d["ragged"] = [[1.0, 2.0], [3.0]]
    return d


INTERVALS = []  # (label, installed interval, original interval)
for kw in [
    dict(),
    dict(vmin=-1.0),
    dict(vmax=3),
    dict(vmin=np.float32(0.5)),
    dict(vmax=np.int64(40)),
    dict(vmin=-2.0, vmax=6.5),
    dict(vmin=5.0, vmax=-5.0),
    dict(vmin=2.0, vmax=2.0),
    dict(vmin=np.float32(1.0), vmax=np.float32(9.0)),
    dict(vmin=0, vmax=255),
    dict(vmin=np.array([1.0]), vmax=np.array([4.0])),
    dict(vmin="low"),
    dict(vmin=float("nan")),
    dict(vmax=float("inf")),
]:
    INTERVALS.append((f"manual{kw}", ManualInterval(**kw), OriginalManualInterval(**kw)))
for kw in [
    dict(),
    dict(vcenter=1.5),
    dict(vcenter=-300),
    dict(vcenter=np.float32(2.0)),
    dict(vcenter=5.0, half_range=3.0),
    dict(vcenter=-3, half_range=4),
    dict(vcenter=1.0, half_range=0.0),
    dict(vcenter=1.0, half_range=-2.0),
    dict(half_range=np.float32(7.0)),
    dict(vcenter=float("nan")),
    dict(vcenter="mid"),
    dict(vcenter=None),
]:
    INTERVALS.append((f"centered{kw}", CenteredInterval(**kw), OriginalCenteredInterval(**kw)))
for kw in [dict(), dict(lower_quantile=0.25, upper_quantile=0.5), dict(lower_quantile=0.0, upper_quantile=1.0)]:
    INTERVALS.append((f"quantile{kw}", QuantileInterval(**kw), OriginalQuantileInterval(**kw)))


def attempt(fn):
    try:
        return ("ok", fn())
    except Exception as exc:  # noqa: BLE001
        return ("err", type(exc).__name__, str(exc))


def same_value(a, b):
    """Same python / numpy type, dtype, shape and bits (NaN == NaN)."""
    if type(a) is not type(b):
        return False
    if isinstance(a, tuple):
        return len(a) == len(b) and all(same_value(x, y) for x, y in zip(a, b))
    if isinstance(a, (np.ndarray, np.generic)):
        if a.dtype != b.dtype or np.shape(a) != np.shape(b):
            return False
        if a.dtype.kind in "fc":
            return bool(np.array_equal(a, b, equal_nan=True))
        if a.dtype.kind in "mM":
            return bool(np.array_equal(a.astype("i8"), b.astype("i8")))
        return bool(np.array_equal(a, b))
    if isinstance(a, float):
        return a == b or (a != a and b != b)
    return a == b


def snapshot(x):
    if isinstance(x, np.ndarray):
        return np.array(x, copy=True, subok=True)
    return x


DATA = inputs()
n_cases = n_err = 0
for (label, new, old), (dname, data) in itertools.product(INTERVALS, DATA.items()):
    where = (label, dname)
    before = snapshot(data)

    # limits
    l_new = attempt(lambda: new.get_limits(data))
    l_old = attempt(lambda: old.get_limits(data))
    assert l_new[0] == l_old[0], (where, l_new, l_old)
    if l_new[0] == "err":
        assert l_new[1:] == l_old[1:], (where, l_new, l_old)
    else:
        assert same_value(l_new[1], l_old[1]), (where, l_new, l_old)

    # affine map + clip
    c_new = attempt(lambda: new(data))
    c_old = attempt(lambda: old(data))
    assert c_new[0] == c_old[0], (where, c_new, c_old)
    if c_new[0] == "err":
        assert c_new[1:] == c_old[1:], (where, c_new, c_old)
        n_err += 1
    else:
        assert same_value(c_new[1], c_old[1]), (where, c_new, c_old)
        if isinstance(data, np.ndarray):
            assert not np.shares_memory(c_new[1], data), where

    # the pseudo-inverse used for colour bars goes through get_limits as well
    ticks = np.linspace(0.0, 1.0, 5)
    i_new = attempt(lambda: new.inverse(ticks))
    i_old = attempt(lambda: old.inverse(ticks))
    assert i_new[0] == i_old[0], (where, i_new, i_old)
    if i_new[0] == "ok":
        assert same_value(i_new[1], i_old[1]), (where, i_new, i_old)

    # the caller's data is never modified
    if isinstance(data, np.ndarray) and data.dtype.kind in "fciub":
        assert same_value(np.asarray(data), np.asarray(before)), ("input modified", where)
    # dataclass state is untouched (get_limits must stay a pure query)
    assert (new.__dict__.keys() == old.__dict__.keys()) and all(
        same_value(new.__dict__[k], old.__dict__[k]) for k in new.__dict__
    ), where
    n_cases += 1

# --------------------------------------------------------------------------
# the property, through CustomNormalization on the installed tree
# --------------------------------------------------------------------------
CONFIGS = [(f"preset:{name}", dict(vars(NORMALIZATION_PRESETS[name]()))) for name in NORMALIZATION_PRESETS]
# (python-int limits next to int8 data overflow in numpy's scalar arithmetic, old and new alike:
# that is covered by the comparison above, the property runs use float limits)
CONFIGS += [
    ("manual vmin only/power", dict(interval_type="manual", vmin=-1.0, power=0.5)),
    ("manual vmax only/log", dict(interval_type="manual", vmax=300.0, stretch_type="logarithmic", logarithmic_index=30.0)),
    ("manual both/asinh", dict(interval_type="manual", vmin=-2.0, vmax=6.5, stretch_type="asinh", asinh_linear_range=0.3)),
    ("centered 1.5/asinh", dict(interval_type="centered", vcenter=1.5, stretch_type="asinh")),
    ("centered -300/power3", dict(interval_type="centered", vcenter=-300.0, power=3.0)),
    ("centered half/log", dict(interval_type="centered", vcenter=-3.0, half_range=40.0, stretch_type="logarithmic")),
    ("quantile 5-60/power2", dict(interval_type="quantile", lower_quantile=0.05, upper_quantile=0.6, power=2.0)),
]
PROPERTY_DATA = [
    "f64_5x7", "f64_1x9", "f32_3x11", "naninf_6x5", "naninf_f32", "int64_4x3", "int8",
    "uint8_7x2", "uint16_3x3x2", "two_values", "strided", "fortran", "huge",
]  # fmt: skip
n_prop = 0
for (cname, kw), dname in itertools.product(CONFIGS, PROPERTY_DATA):
    data = DATA[dname]
    for frozen in (True, False):  # limits frozen by _set_limits, or taken on the fly per call
        norm = CustomNormalization(data=data if frozen else None, **kw)
        if frozen:
            vmin, vmax = norm.vmin, norm.vmax
            assert isinstance(norm.interval, ManualInterval)
        else:
            vmin, vmax = norm.interval.get_limits(data)
        with np.errstate(all="ignore"):
            width = float(vmax) - float(vmin)
        if not (np.isfinite(vmin) and np.isfinite(vmax) and np.isfinite(width) and width > 0):
            continue
        single = np.asarray(data).dtype == np.float32
        eps = 1e-5 if single else 1e-9
        keep = np.array(data, copy=True)
        out = norm(data)
        assert np.array_equal(data, keep, equal_nan=True), "input modified"
        assert isinstance(out, np.ma.MaskedArray) and out.shape == data.shape, (cname, dname)
        as_float = np.asarray(data, dtype=np.float64)
        nan = np.isnan(as_float)
        assert np.array_equal(np.ma.getmaskarray(out), nan), (cname, dname)
        assert np.all(np.isnan(np.asarray(out.data)[nan])), (cname, dname)
        vals = np.asarray(out.data, dtype=np.float64)[~nan]
        assert vals.min() >= -eps and vals.max() <= 1 + eps, (cname, dname, vals.min(), vals.max())
        order = np.argsort(as_float[~nan], kind="stable")
        assert np.all(np.diff(vals[order]) >= -eps), (cname, dname)
        if frozen:
            lim = norm(np.array([vmin, vmax], dtype=np.float64))
            assert abs(lim[0]) <= eps and abs(lim[1] - 1.0) <= eps, (cname, dname, lim)
            below_above = norm(np.array([vmin - 10 * width, vmax + 10 * width, -np.inf, np.inf]))
            assert np.allclose(below_above, [0.0, 1.0, 0.0, 1.0], atol=eps), (cname, dname)
        n_prop += 1

print(f"{n_cases} (interval, input) cases identical to the original ({n_err} of them raising identically)")
print(f"property asserted for {n_prop} (configuration, data, frozen / on-the-fly) cases")
print("PASS")
