"""C16 / patch 1: phase-ramp translation (fourier_translation_operator / fourier_shift_expand).

Checks (a) the current implementation is bit-identical to a verbatim copy of the original
functions and (b) the translation identities: intensity preservation, additive composition,
integer shifts == circular rolls, ramp is unit modulus.
"""

import warnings

import numpy as np
import torch

from quantem.core.utils import array_funcs as af
from quantem.diffractive_imaging import ptycho_utils as pu


# ---------------------------------------------------------------- verbatim originals
def orig_fourier_shift_expand(array, positions, expand_dim=True):
    """Fourier-shift array by flat array of positions."""
    # the ramp must stay complex: casting it to a real array dtype would keep only its cosine part
    phase = orig_fourier_translation_operator(
        positions, array.shape, expand_dim, dtype=array.dtype if af.is_complex(array) else None
    )
    fourier_array = af.fft2(array)
    shifted_fourier_array = fourier_array * phase
    shifted_array = af.ifft2(shifted_fourier_array)
    if af.is_complex(array):
        return shifted_array
    else:
        return shifted_array.real


def orig_fourier_translation_operator(positions, shape, expand_dim=True, dtype=None):
    """Returns phase ramp for fourier-shifting array of shape `shape`."""
    nr, nc = shape[-2:]
    r = positions[..., 0][:, None, None]
    c = positions[..., 1][:, None, None]
    kr = af.match_device(np.fft.fftfreq(nr, d=1.0).astype(np.float32), positions)
    kc = af.match_device(np.fft.fftfreq(nc, d=1.0).astype(np.float32), positions)
    ramp_r = af.exp(-2.0j * np.pi * kr[None, :, None] * r)
    ramp_c = af.exp(-2.0j * np.pi * kc[None, None, :] * c)
    ramp = ramp_r * ramp_c
    if expand_dim:
        for _ in range(len(shape) - 2):
            ramp = ramp[:, None, ...]
    if dtype is not None:
        ramp = af.as_type(ramp, dtype)
    return ramp


# ---------------------------------------------------------------- helpers
def same(a, b, what):
    assert type(a) is type(b), (what, type(a), type(b))
    assert a.dtype == b.dtype, (what, a.dtype, b.dtype)
    assert tuple(a.shape) == tuple(b.shape), (what, a.shape, b.shape)
    an = a.detach().numpy() if isinstance(a, torch.Tensor) else a
    bn = b.detach().numpy() if isinstance(b, torch.Tensor) else b
    assert np.array_equal(an, bn, equal_nan=True), what


def same_exception(f_old, f_new, what):
    e_old = e_new = None
    try:
        f_old()
    except Exception as e:  # noqa: BLE001
        e_old = e
    try:
        f_new()
    except Exception as e:  # noqa: BLE001
        e_new = e
    assert e_old is not None, what + ": original did not raise"
    assert type(e_old) is type(e_new), (what, repr(e_old), repr(e_new))


warnings.filterwarnings("ignore", message="Casting complex values to real")
rng = np.random.default_rng(16)
SHAPES = [(7, 9), (8, 8), (1, 5), (6, 1), (5, 12), (3, 7, 9), (2, 8, 5), (2, 3, 6, 7), (1, 1, 1)]
POSITIONS = [
    np.array([[0.0, 0.0]]),
    np.array([[1.0, -2.0], [3.0, 4.0], [-7.0, 9.0]]),
    rng.uniform(-3, 3, size=(4, 2)),
    rng.uniform(-0.5, 0.5, size=(1, 2)),
    np.zeros((0, 2)),
]

n_cmp = 0
# ---------------------------------------------------------------- old == new, operator
for shape in SHAPES:
    for pos64 in POSITIONS:
        for pos_dt in (np.float32, np.float64):
            pos_np = pos64.astype(pos_dt)
            for backend in ("numpy", "torch"):
                pos = pos_np if backend == "numpy" else torch.tensor(pos_np)
                for expand in (True, False):
                    if backend == "numpy":
                        dtypes = (None, np.complex64, np.complex128, "complex64", np.float32)
                    else:
                        dtypes = (None, torch.complex64, torch.complex128, "complex64", torch.float32)
                    for dt in dtypes:
                        old = orig_fourier_translation_operator(pos, shape, expand, dtype=dt)
                        new = pu.fourier_translation_operator(pos, shape, expand, dtype=dt)
                        same(old, new, ("operator", shape, pos_dt, backend, expand, dt))
                        n_cmp += 1
                        if dt is None and pos_np.shape[0] > 0:
                            mod = np.abs(new.numpy() if isinstance(new, torch.Tensor) else new)
                            assert np.allclose(mod, 1.0, atol=1e-5), "ramp must be unit modulus"
                            want = (
                                (pos_np.shape[0],) + (1,) * (len(shape) - 2) + tuple(shape[-2:])
                                if expand
                                else (pos_np.shape[0],) + tuple(shape[-2:])
                            )
                            assert tuple(new.shape) == want, (new.shape, want)

# integer-typed positions and positions requiring grad
ipos = np.array([[1, -2], [0, 5]])
for backend_pos in (ipos, torch.tensor(ipos)):
    same(
        orig_fourier_translation_operator(backend_pos, (3, 6, 7)),
        pu.fourier_translation_operator(backend_pos, (3, 6, 7)),
        "integer positions",
    )
gpos_a = torch.tensor(rng.uniform(-2, 2, (3, 2)), requires_grad=True)
gpos_b = gpos_a.detach().clone().requires_grad_(True)
w = torch.tensor(rng.normal(size=(3, 1, 1, 6, 5)))
(orig_fourier_translation_operator(gpos_a, (2, 4, 6, 5)).real * w).sum().backward()
(pu.fourier_translation_operator(gpos_b, (2, 4, 6, 5)).real * w).sum().backward()
assert torch.equal(gpos_a.grad, gpos_b.grad), "gradients w.r.t. positions differ"

# ---------------------------------------------------------------- old == new, shift
for shape in SHAPES:
    for cplx in (False, True):
        for real_dt in (np.float32, np.float64):
            arr = rng.normal(size=shape).astype(real_dt)
            if cplx:
                arr = arr + 1j * rng.normal(size=shape).astype(real_dt)
            for pos64 in POSITIONS:
                pos_np = pos64.astype(real_dt)
                for expand in (True, False):
                    if not expand and len(shape) > 3:
                        continue
                    if not expand and len(shape) == 3 and pos_np.shape[0] not in (1, shape[0]):
                        continue
                    for backend in ("numpy", "torch"):
                        a = arr if backend == "numpy" else torch.tensor(arr)
                        p = pos_np if backend == "numpy" else torch.tensor(pos_np)
                        try:
                            old = orig_fourier_shift_expand(a, p, expand)
                        except RuntimeError:  # torch/MKL rejects zero-sized batches
                            assert pos_np.shape[0] == 0
                            same_exception(
                                lambda: orig_fourier_shift_expand(a, p, expand),
                                lambda: pu.fourier_shift_expand(a, p, expand),
                                "empty batch",
                            )
                            continue
                        new = pu.fourier_shift_expand(a, p, expand)
                        same(old, new, ("shift", shape, cplx, real_dt, backend, expand))
                        n_cmp += 1

# same failures for bad inputs
same_exception(
    lambda: orig_fourier_shift_expand([[1.0, 2.0]], np.zeros((1, 2))),
    lambda: pu.fourier_shift_expand([[1.0, 2.0]], np.zeros((1, 2))),
    "list input",
)
same_exception(
    lambda: orig_fourier_translation_operator(np.zeros((2, 1)), (4, 4)),
    lambda: pu.fourier_translation_operator(np.zeros((2, 1)), (4, 4)),
    "positions without a column coordinate",
)
same_exception(
    lambda: orig_fourier_translation_operator(np.zeros((2, 2)), (4,)),
    lambda: pu.fourier_translation_operator(np.zeros((2, 2)), (4,)),
    "1D shape",
)
same_exception(
    lambda: orig_fourier_translation_operator(np.zeros((2, 2)), (4, 0)),
    lambda: pu.fourier_translation_operator(np.zeros((2, 2)), (4, 0)),
    "empty column axis",
)
same_exception(
    lambda: orig_fourier_translation_operator(np.zeros((2, 2)), (4, 4), dtype=3.5),
    lambda: pu.fourier_translation_operator(np.zeros((2, 2)), (4, 4), dtype=3.5),
    "bad dtype",
)

# ---------------------------------------------------------------- the identities themselves
for shape in [(7, 9), (8, 8), (5, 12), (1, 6), (3, 7, 10)]:
    for backend in ("numpy", "torch"):
        probe = rng.normal(size=shape) + 1j * rng.normal(size=shape)
        x = probe if backend == "numpy" else torch.tensor(probe)

        def mk(v):
            v = np.asarray(v, dtype=np.float64)
            return v if backend == "numpy" else torch.tensor(v)

        def to_np(v):
            return v.numpy() if isinstance(v, torch.Tensor) else v

        s1 = rng.uniform(-4, 4, size=(3, 2))
        s2 = rng.uniform(-4, 4, size=(3, 2))
        y1 = to_np(pu.fourier_shift_expand(x, mk(s1)))  # (3, [P,] nr, nc)
        # intensity preserved for each shift (odd sizes: exactly; even sizes: the Nyquist row/col
        # of a complex array is a single bin, still unit modulus)
        tot = (np.abs(probe) ** 2).sum()
        for k in range(3):
            assert np.isclose((np.abs(y1[k]) ** 2).sum(), tot, rtol=1e-5), "energy"
        # additive composition: shift by s1 then s2 == shift by s1+s2
        y12 = to_np(pu.fourier_shift_expand(x, mk(s1 + s2)))
        for k in range(3):
            xk = y1[k] if backend == "numpy" else torch.tensor(y1[k])
            step = to_np(pu.fourier_shift_expand(xk, mk(s2[k : k + 1])))[0]
            assert np.allclose(step, y12[k], atol=2e-4), "composition"
        # integer shifts are circular rolls (complex and real inputs)
        ints = np.array([[1, 0], [0, -2], [3, 5], [-7, 11]], dtype=np.float64)
        yi = to_np(pu.fourier_shift_expand(x, mk(ints)))
        xr = probe.real.copy()
        yr = to_np(pu.fourier_shift_expand(xr if backend == "numpy" else torch.tensor(xr), mk(ints)))
        assert not np.iscomplexobj(yr)
        for k, (dr, dc) in enumerate(ints.astype(int)):
            assert np.allclose(yi[k], np.roll(probe, (dr, dc), axis=(-2, -1)), atol=2e-4), "roll"
            assert np.allclose(yr[k], np.roll(xr, (dr, dc), axis=(-2, -1)), atol=2e-4), "roll real"
        # zero shift is the identity
        y0 = to_np(pu.fourier_shift_expand(x, mk([[0.0, 0.0]])))[0]
        assert np.allclose(y0, probe, atol=1e-10)

print(f"PASS ({n_cmp} old/new comparisons bit-identical; translation identities hold)")
