"""C14 demo: serializer skip lists remove exactly the named attributes, at save or load time.

Exercises AutoSerialize.save / load / _recursive_save / _recursive_load /
_deserialize_container on nested object graphs with many skip configurations and

 * asserts the property against an independent model of the expected attribute tree;
 * compares the installed `load` with a verbatim copy of the ORIGINAL `load`;
 * compares the installed `AutoSerialize.save` with a verbatim copy of the ORIGINAL `save`
   (file trees byte-for-byte, and behaviour on failing saves);
 * compares the container length chosen by `_deserialize_container` with the ORIGINAL
   max(...)-based expression.

Runs on CPU, writes only inside a tempfile.TemporaryDirectory.
"""

import itertools
import os
import random
import shutil
import tempfile
from pathlib import Path
from typing import Any, Literal, Sequence, Union, cast
from zipfile import ZipFile

import numpy as np
import torch
import zarr
from zarr.storage import LocalStore

from quantem.core.io.serialize import AutoSerialize, load


# --------------------------------------------------------------------------------------
# verbatim copy of the ORIGINAL quantem.core.io.serialize.load (docstring dropped)
# --------------------------------------------------------------------------------------
def load_orig(
    path: str | Path,
    skip: Union[str, type, Sequence[Union[str, type]]] = (),
) -> Any:
    # Normalize skip argument to sets/tuples for merging
    if isinstance(skip, (str, type)):
        skip = [skip]
    user_skip_names = {s for s in skip if isinstance(s, str)}
    user_skip_types = tuple(s for s in skip if isinstance(s, type))

    # Load Zarr store from directory or extracted zip
    if os.path.isdir(path):
        store = LocalStore(path)
    else:
        tempdir = tempfile.TemporaryDirectory()
        with ZipFile(path, "r") as zf:
            zf.extractall(tempdir.name)
        store = LocalStore(tempdir.name)

    root = zarr.group(store=store)
    if "_autoserialize" not in root.attrs:
        raise KeyError("Missing '_autoserialize' metadata in Zarr root attrs.")
    meta = cast(dict[str, Any], root.attrs["_autoserialize"])
    version = int(meta.get("version", 1))
    if version != 1:
        raise ValueError(f"Unsupported AutoSerialize version: {version}")

    # Read skip metadata (names/types) stored with the file, if present
    file_skip_names = set(cast(Sequence[str], root.attrs.get("_autoserialize_skip_names", [])))
    file_skip_types_raw = cast(
        Sequence[str] | None, root.attrs.get("_autoserialize_skip_types", [])
    )
    file_skip_types = (
        tuple(
            # Import each type by fully-qualified name from string
            __import__(t.rpartition(".")[0], fromlist=[t.rpartition(".")[2]]).__dict__[  # type: ignore[index]
                t.rpartition(".")[2]
            ]
            for t in file_skip_types_raw
        )
        if file_skip_types_raw
        else tuple()
    )

    # Merge user-specified and file-stored skip lists/types (avoid duplicates)
    skip_names = user_skip_names | file_skip_names
    skip_types = user_skip_types + tuple(t for t in file_skip_types if t not in user_skip_types)

    # Dynamically import target class, then reconstruct from Zarr
    mod = __import__(cast(str, meta["class_module"]), fromlist=[cast(str, meta["class_name"])])
    cls = getattr(mod, cast(str, meta["class_name"]))
    return cls._recursive_load(root, skip_names=skip_names, skip_types=skip_types)


# --------------------------------------------------------------------------------------
# verbatim copy of the ORIGINAL AutoSerialize.save (docstring dropped)
# --------------------------------------------------------------------------------------
def save_orig(
    self,
    path: str | Path,
    mode: Literal["w", "o"] = "w",
    store: Literal["auto", "zip", "dir"] = "auto",
    skip: Union[str, type, Sequence[Union[str, type]]] = (),
    compression_level: int | None = 4,
) -> None:
    # Validate compression level
    if compression_level is not None:
        if not (0 <= compression_level <= 9):
            raise ValueError(
                f"compression_level must be between 0 and 9, got {compression_level}"
            )
        compressors = [
            {
                "name": "blosc",
                "configuration": {
                    "cname": "zstd",
                    "clevel": int(compression_level),
                    "shuffle": "bitshuffle",
                },
            }
        ]
    else:
        compressors = None

    path = str(path)
    # Auto-infer storage format if needed
    if store == "auto":
        store = "zip" if path.endswith(".zip") else "dir"

    # Ensure .zip extension if requested
    if store == "zip" and not path.endswith(".zip"):
        print(f"Warning: appending .zip to path '{path}'")
        path += ".zip"

    # Handle overwrite vs. write protection
    if os.path.exists(path):
        if mode == "o":
            if os.path.isdir(path):
                shutil.rmtree(path)
            else:
                os.remove(path)
        else:
            raise FileExistsError(f"File '{path}' already exists. Use mode='o' to overwrite.")

    # Normalize skip argument (split to names and types)
    if isinstance(skip, (str, type)):
        skip = [skip]
    skip_names = {s for s in skip if isinstance(s, str)}
    skip_types = tuple(s for s in skip if isinstance(s, type))

    def write_skip_metadata(root):
        # Store skip info as attributes for correct deserialization
        root.attrs["_autoserialize_skip_names"] = list(skip_names)
        root.attrs["_autoserialize_skip_types"] = [
            f"{t.__module__}.{t.__qualname__}" for t in skip_types
        ]

    # Main branch: choose between zip and directory storage
    if store == "zip":
        # Always use tempdir for safe atomic write
        with tempfile.TemporaryDirectory() as tmpdir:
            store_obj = LocalStore(tmpdir)
            root = zarr.group(store=store_obj, overwrite=True)
            self._recursive_save(self, root, skip_names, skip_types, compressors)
            write_skip_metadata(root)
            # Zip up all files in tempdir
            try:
                with ZipFile(path, mode="w") as zf:
                    for dirpath, _, filenames in os.walk(tmpdir):
                        for filename in filenames:
                            full_path = os.path.join(dirpath, filename)
                            rel_path = os.path.relpath(full_path, tmpdir)
                            zf.write(full_path, arcname=rel_path)
            except BaseException:
                # Never leave a partial (but readable) archive behind
                if os.path.exists(path):
                    os.remove(path)
                raise
    elif store == "dir":
        # Directory mode requires no extension
        if os.path.splitext(path)[1]:
            raise ValueError(
                f"Expected a directory path for store='dir', but got file-like path '{path}'"
            )
        try:
            os.makedirs(path, exist_ok=True)
            store_obj = LocalStore(path)
            root = zarr.group(store=store_obj, overwrite=True)
            self._recursive_save(self, root, skip_names, skip_types, compressors)
            write_skip_metadata(root)
        except BaseException:
            # The target did not exist (or was removed above): never leave a partial,
            # but loadable, object behind when serialisation fails part-way
            shutil.rmtree(path, ignore_errors=True)
            raise
    else:
        raise ValueError(f"Unknown store type: {store}")


def container_length_orig(group: zarr.Group) -> int:
    """The ORIGINAL length expression of _deserialize_container (list/tuple branch)."""
    length = (
        max(
            (
                int(k)
                for k in list(group.attrs)
                + list(group.array_keys())
                + list(group.group_keys())
                if k.isdigit()
            ),
            default=-1,
        )
        + 1
    )
    return length


# --------------------------------------------------------------------------------------
# object graph
# --------------------------------------------------------------------------------------
class Leaf(AutoSerialize):
    def __init__(self, seed: int):
        rng = np.random.default_rng(seed)
        self.a = int(seed)
        self.b = rng.normal(size=(3, 2)).astype(np.float32)
        self.name = f"leaf{seed}"
        self.t = torch.arange(seed + 2, dtype=torch.float64) * 0.5
        self.flag = bool(seed % 2)
        self.words = [f"w{i}" for i in range(seed)]  # 0, or more than 10 items


class Mid(AutoSerialize):
    def __init__(self, seed: int):
        rng = np.random.default_rng(100 + seed)
        self.a = 2.5 * seed
        self.data = rng.integers(0, 255, size=(4, 5)).astype(np.uint8)
        self.leaf = Leaf(seed + 11)
        self.items = [f"s{i}" if i % 4 else rng.normal(size=(2,)) for i in range(13)]
        self.cfg = {"a": 1, "name": "inner", "nested": {"a": [1, 2, 3]}}
        self.empty = []
        self.pair = ("x", 1.5)


class Root(AutoSerialize):
    def __init__(self):
        self.a = 7
        self.b = np.linspace(0.0, 1.0, 11)
        self.name = "root"
        self.mid = Mid(1)
        self.leaf = Leaf(0)
        self.vals = (1, 2, 3, 4)
        self.tags = {"p", "q", "r"}
        self.path = Path("/some/where/file.h5")
        self.long = [f"item{i}" for i in range(25)]
        self.none = None
        self.npf = np.float32(1.25)


ALL_NAMES = [
    "a", "b", "name", "t", "flag", "words", "data", "leaf", "items", "cfg", "empty", "pair",
    "mid", "vals", "tags", "path", "long", "none", "npf", "absent", "_autoserialize",
]  # fmt: skip


# --------------------------------------------------------------------------------------
# independent model + comparison
# --------------------------------------------------------------------------------------
def model(obj, names: set, types: tuple):
    """Expected attribute tree after skipping `names` (any time) and `types` (at save time)."""
    out = {}
    for k, v in obj.__dict__.items():
        if k in names or isinstance(v, types):
            continue
        out[k] = model(v, names, types) if isinstance(v, AutoSerialize) else v
    return ("obj", type(obj), out)


def snapshot(obj):
    out = {}
    for k, v in obj.__dict__.items():
        out[k] = snapshot(v) if isinstance(v, AutoSerialize) else v
    return ("obj", type(obj), out)


def same(x, y, where="root"):
    if isinstance(x, tuple) and len(x) == 3 and x[0] == "obj":
        assert isinstance(y, tuple) and len(y) == 3 and y[0] == "obj", where
        assert x[1] is y[1], (where, x[1], y[1])
        assert set(x[2]) == set(y[2]), (where, sorted(set(x[2]) ^ set(y[2])))
        for k in x[2]:
            same(x[2][k], y[2][k], f"{where}.{k}")
        return
    assert type(x) is type(y), (where, type(x), type(y))
    if isinstance(x, np.ndarray):
        assert x.dtype == y.dtype and x.shape == y.shape and x.tobytes() == y.tobytes(), where
    elif isinstance(x, torch.Tensor):
        assert x.dtype == y.dtype and x.shape == y.shape and torch.equal(x, y), where
    elif isinstance(x, (list, tuple)):
        assert len(x) == len(y), (where, len(x), len(y))
        for i, (p, q) in enumerate(zip(x, y)):
            same(p, q, f"{where}[{i}]")
    elif isinstance(x, dict):
        assert list(x.keys()) == list(y.keys()) or set(x) == set(y), where
        for k in x:
            same(x[k], y[k], f"{where}[{k!r}]")
    elif isinstance(x, np.generic):
        assert x.dtype == y.dtype and x.tobytes() == y.tobytes(), where
    else:
        assert x == y, (where, x, y)


def loaded_model(expected):
    """Account for the documented storage conversions (numpy scalars -> Python scalars,
    numeric sequences round-trip as lists/tuples of Python numbers): none here depends on skip."""
    tag, cls, d = expected
    out = {}
    for k, v in d.items():
        if isinstance(v, tuple) and len(v) == 3 and v[0] == "obj":
            out[k] = loaded_model(v)
        elif isinstance(v, np.generic):
            out[k] = v.item()
        else:
            out[k] = v
    return (tag, cls, out)


def tree_bytes(path):
    out = {}
    if os.path.isdir(path):
        for dp, _, fns in os.walk(path):
            for fn in fns:
                full = os.path.join(dp, fn)
                with open(full, "rb") as fh:
                    out[os.path.relpath(full, path)] = fh.read()
    else:
        with ZipFile(path, "r") as zf:
            for n in zf.namelist():
                out[n] = zf.read(n)
    return out


def walk_groups(group):
    yield group
    for k in group.group_keys():
        yield from walk_groups(cast(zarr.Group, group[k]))


class Exploding:
    """Falls through to the dill fallback, where pickling raises `exc`."""

    def __init__(self, exc):
        self.exc = exc

    def __reduce__(self):
        raise self.exc


class Fragile(AutoSerialize):
    def __init__(self, exc):
        self.first = np.arange(5)
        self.name = "fragile"
        self.boom = Exploding(exc)
        self.last = 3


# --------------------------------------------------------------------------------------
def main():
    rnd = random.Random(1234)
    root = Root()
    type_choices = [(), (np.ndarray,), (torch.Tensor,), (Leaf,), (str, float), (Mid, list), (int,)]

    configs = [
        # (names skipped at save, names skipped at load, types skipped at save)
        ({"a"}, set(), ()),  # a name occurring at every depth
        (set(), {"a"}, ()),
        ({"leaf"}, {"b", "absent"}, ()),  # nested objects at two depths
        (set(), {"leaf", "words", "cfg"}, ()),
        (set(), set(), (np.ndarray,)),
        ({"name"}, {"t"}, (Leaf, float)),
        (set(), {"long"}, (Mid, list)),
        (set(ALL_NAMES), set(), ()),
    ]
    for _ in range(3):
        sv = set(rnd.sample(ALL_NAMES, rnd.randint(0, 6)))
        ld = set(rnd.sample(ALL_NAMES, rnd.randint(1, 4)))
        configs.append((sv, ld, rnd.choice(type_choices)))

    with tempfile.TemporaryDirectory() as tmp:
        tmp = Path(tmp)
        n_checked = 0
        for i, (save_names, load_names, save_types) in enumerate(configs):
            store = "zip" if i % 2 else "dir"
            path = tmp / (f"obj{i}.zip" if store == "zip" else f"obj{i}")
            save_skip = sorted(save_names) + list(save_types)
            root.save(path, skip=save_skip, compression_level=(None if i % 3 == 0 else 4))

            # metadata persisted in the file
            with tempfile.TemporaryDirectory() as ex:
                if store == "zip":
                    with ZipFile(path, "r") as zf:
                        zf.extractall(ex)
                    g = zarr.open_group(LocalStore(ex), mode="r")
                else:
                    g = zarr.open_group(LocalStore(str(path)), mode="r")
                assert set(g.attrs["_autoserialize_skip_names"]) == save_names
                assert list(g.attrs["_autoserialize_skip_types"]) == [
                    f"{t.__module__}.{t.__qualname__}" for t in save_types
                ]
                # container lengths: installed code vs. the original expression
                for sub in walk_groups(g):
                    ct = sub.attrs.get("_container_type")
                    if ct in ("list", "tuple") and sub.attrs.get("_sequence_encoding") != "ndarray":
                        got = AutoSerialize._deserialize_container(sub)
                        assert len(got) == container_length_orig(sub), sub.path

            # property: names skipped at save and/or load are absent at every level, rest equal
            for user_skip in ([], sorted(load_names)):
                names = save_names | set(user_skip)
                expected = loaded_model(model(root, names, save_types))
                new = load(path, skip=user_skip)
                old = load_orig(path, skip=user_skip)
                same(expected, snapshot(new), f"cfg{i}")
                same(snapshot(old), snapshot(new), f"cfg{i}-oldnew")
                n_checked += 1
            # a single name / a single type given bare (not in a list), and types at load time
            for user_skip in (("a", [torch.Tensor, "name", list]) if i % 2 else (Leaf, ["leaf", np.ndarray])):
                same(
                    snapshot(load_orig(path, skip=user_skip)),
                    snapshot(load(path, skip=user_skip)),
                    f"cfg{i}-bare",
                )

            # skipping at load time == skipping the same names at save time
            if not save_types and load_names and i < 4:
                p2 = tmp / f"twin{i}"
                root.save(p2, skip=sorted(save_names | load_names))
                same(
                    snapshot(load(p2)),
                    snapshot(load(path, skip=sorted(load_names))),
                    f"cfg{i}-twin",
                )
                shutil.rmtree(p2)

            # installed save vs. the original save: identical file trees
            twin = tmp / (f"orig{i}.zip" if store == "zip" else f"orig{i}")
            save_orig(root, twin, skip=save_skip, compression_level=(None if i % 3 == 0 else 4))
            a, b = tree_bytes(path), tree_bytes(twin)
            assert a.keys() == b.keys(), (i, sorted(set(a) ^ set(b)))
            for k in a:
                assert a[k] == b[k], (i, k)

        # files written without skip metadata, or with null / empty metadata, load alike
        base = tmp / "legacy"
        root.save(base, skip=["b"])
        for variant, edit in enumerate(
            [
                lambda at: (at.pop("_autoserialize_skip_names"), at.pop("_autoserialize_skip_types")),
                lambda at: at.update(_autoserialize_skip_types=None),
                lambda at: at.update(_autoserialize_skip_types=[]),
                lambda at: at.update(_autoserialize_skip_types=""),
                lambda at: at.update(_autoserialize_skip_types=0),
                lambda at: at.update(_autoserialize_skip_names=[], _autoserialize_skip_types=["numpy.ndarray"]),
            ]
        ):
            p = tmp / f"legacy{variant}"
            shutil.copytree(base, p)
            g = zarr.open_group(LocalStore(str(p)), mode="r+")
            at = dict(g.attrs)
            edit(at)
            g.attrs.put(at)
            reread = dict(zarr.open_group(LocalStore(str(p)), mode="r").attrs)
            assert reread.get("_autoserialize_skip_types", "MISSING") == at.get(
                "_autoserialize_skip_types", "MISSING"
            ), (variant, reread)
            for user_skip in ([], ["mid", torch.Tensor])[variant % 2 :][:1]:
                same(
                    snapshot(load_orig(p, skip=user_skip)),
                    snapshot(load(p, skip=user_skip)),
                    f"legacy{variant}",
                )
        # root metadata problems raise alike
        p = tmp / "broken"
        shutil.copytree(base, p)
        g = zarr.open_group(LocalStore(str(p)), mode="r+")
        at = dict(g.attrs)
        at["_autoserialize_skip_types"] = ["nosuchmodule_xyz.Thing"]
        g.attrs.put(at)
        outcomes = []
        for fn in (load_orig, load):
            try:
                fn(p)
                outcomes.append(None)
            except BaseException as e:  # noqa: BLE001
                outcomes.append((type(e), str(e)))
        assert outcomes[0] == outcomes[1] and outcomes[0] is not None, outcomes

        # failing saves: the exception propagates unchanged and nothing is left behind
        for exc in (RuntimeError("boom"), KeyboardInterrupt(), ValueError("bad"), SystemExit(3)):
            for store, fname in (("dir", "fail_dir"), ("zip", "fail.zip")):
                for saver in (Fragile.save, save_orig):
                    target = tmp / "deep" / "er" / fname
                    if store == "zip":
                        os.makedirs(target.parent, exist_ok=True)
                    obj = Fragile(exc)
                    try:
                        saver(obj, target, store=store)
                    except BaseException as e:  # noqa: BLE001
                        assert e is exc, (type(e), exc)
                    else:
                        raise AssertionError("save of an unpicklable attribute did not raise")
                    assert not os.path.exists(target), target
                    assert os.path.isdir(target.parent)
                    shutil.rmtree(tmp / "deep")
        # mode handling is unchanged around the guarded block
        ok = tmp / "okdir"
        Leaf(3).save(ok)
        try:
            Leaf(3).save(ok)
        except FileExistsError:
            pass
        else:
            raise AssertionError("expected FileExistsError")
        Leaf(4).save(ok, mode="o", skip="b")
        got = load(ok)
        assert not hasattr(got, "b") and got.a == 4 and got.words == ["w0", "w1", "w2", "w3"]

    print(f"C14 demo OK ({len(configs)} configurations, {n_checked} property checks)")


if __name__ == "__main__":
    main()
