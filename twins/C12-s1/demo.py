"""Shared demo for the four C12 behaviour-preserving edits.

Embeds verbatim copies of the ORIGINAL functions

    complex_probe.standardize_aberration_coefs
    complex_probe.aberration_surface_cartesian_gradients
    direct_ptycho_utils.fit_aberrations_from_shifts

and asserts that the functions currently importable from the tree return
bit-for-bit identical results (values, dtypes, key order, exceptions) on a spread
of inputs; it also asserts the property itself (defocus alias, analytic gradient
== autograd gradient of the surface, fit round-trip of C10/C12/phi12/rotation).

Run:  PYTHONPATH=<root>/src /venv/bin/python demo.py
"""

import itertools
import math
import warnings

import torch

from quantem.diffractive_imaging import complex_probe as cp
from quantem.diffractive_imaging import direct_ptycho_utils as dpu
from quantem.diffractive_imaging.complex_probe import (
    POLAR_ALIASES,
    POLAR_SYMBOLS,
    aberration_surface,
    aberration_surface_polar_gradients,
    polar_coordinates,
    spatial_frequencies,
)
from quantem.diffractive_imaging.direct_ptycho_utils import _torch_polar

warnings.filterwarnings("ignore")


# --------------------------------------------------------------------------
# verbatim copies of the ORIGINAL functions (worktree HEAD cb777aa)
# --------------------------------------------------------------------------
def orig_standardize_aberration_coefs(aberration_coefs):
    out = {}

    for key, val in aberration_coefs.items():
        canonical = POLAR_ALIASES.get(key, key)

        if key == "defocus":
            out["C10"] = -float(val)

        elif canonical in POLAR_SYMBOLS:
            out[canonical] = float(val)

        else:
            raise KeyError(
                f"Unknown aberration key '{key}'. "
                f"Expected one of: {', '.join(POLAR_SYMBOLS + tuple(POLAR_ALIASES))}"
            )

    return {k: torch.tensor(v, dtype=torch.float32) for k, v in out.items()}


def orig_aberration_surface_cartesian_gradients(alpha, phi, aberration_coefs):
    dchi_dk, dchi_dphi = aberration_surface_polar_gradients(alpha, phi, aberration_coefs)
    cos_phi = torch.cos(phi)
    sin_phi = torch.sin(phi)

    dchi_dx = cos_phi * dchi_dk - sin_phi * dchi_dphi
    dchi_dy = sin_phi * dchi_dk + cos_phi * dchi_dphi

    return dchi_dx, dchi_dy


def orig_fit_aberrations_from_shifts(shifts_ang, bf_mask, wavelength, gpts, sampling):
    device = shifts_ang.device

    # Get spatial frequencies at BF positions
    kxa, kya = spatial_frequencies(gpts, sampling, device=device)
    kvec = torch.dstack((kxa[bf_mask], kya[bf_mask])).view((-1, 2))
    basis = kvec * wavelength

    # Least-squares fit: shifts = basis @ M
    M = torch.linalg.lstsq(basis.cpu(), shifts_ang.cpu(), rcond=None)[0]
    # Decompose M = R @ A (rotation × aberration)
    M_rotation, M_aberration = _torch_polar(M)

    # Extract rotation angle
    rotation_rad = -torch.arctan2(M_rotation[1, 0], M_rotation[0, 0])

    # Handle angle wrapping and sign conventions
    if 2 * torch.abs(torch.remainder(rotation_rad + math.pi, 2 * math.pi) - math.pi) > math.pi:
        rotation_rad = torch.remainder(rotation_rad, 2 * math.pi) - math.pi
        M_aberration = -M_aberration

    # Extract aberration coefficients from symmetric matrix
    a = M_aberration[0, 0]
    b = (M_aberration[1, 0] + M_aberration[0, 1]) / 2  # Symmetrize
    c = M_aberration[1, 1]

    # Defocus (isotropic component)
    C10 = (a + c) / 2

    # 2-fold astigmatism (anisotropic component)
    C12a = (a - c) / 2
    C12b = b
    C12 = torch.sqrt(C12a**2 + C12b**2)
    phi12 = torch.arctan2(C12b, C12a) / 2

    return {
        "C10": C10.item(),
        "C12": C12.item(),
        "phi12": phi12.item(),
        "rotation_angle": rotation_rad.item(),
    }


# --------------------------------------------------------------------------
# helpers
# --------------------------------------------------------------------------
def same_tensor(a, b):
    assert type(a) is type(b), (type(a), type(b))
    assert a.dtype == b.dtype, (a.dtype, b.dtype)
    assert a.shape == b.shape, (a.shape, b.shape)
    assert a.stride() == b.stride(), (a.stride(), b.stride())
    assert a.requires_grad == b.requires_grad
    # bit-for-bit (nan-safe): compare the raw bytes
    if a.numel():
        av = a.detach().contiguous().reshape(-1).view(torch.uint8)
        bv = b.detach().contiguous().reshape(-1).view(torch.uint8)
        assert torch.equal(av, bv), (a, b)


def same_float(x, y):
    assert type(x) is float and type(y) is float, (type(x), type(y))
    assert (x == y and math.copysign(1.0, x) == math.copysign(1.0, y)) or (
        math.isnan(x) and math.isnan(y)
    ), (x, y)


def outcome(fn, *args):
    try:
        return ("ok", fn(*args))
    except BaseException as e:  # noqa: BLE001 - we compare the exception itself
        return ("exc", type(e), str(e))


# --------------------------------------------------------------------------
# 1. standardize_aberration_coefs : old == new, and the defocus alias
# --------------------------------------------------------------------------
class IntLike:
    def __float__(self):
        return 3.5


def check_standardize():
    cases = [
        {},
        {"defocus": 100.0},
        {"defocus": 0},
        {"defocus": -0.0},
        {"C10": 5, "defocus": 7},
        {"defocus": 7, "C10": 5},
        {"astigmatism": 3.0, "astigmatism_angle": 0.25, "coma": 1, "coma_angle": -2},
        {"Cs": 1e7, "C5": -3e9, "C30": 2.0},
        {"C30": 2.0, "Cs": 1e7},
        {k: float(i) - 7.0 for i, k in enumerate(POLAR_SYMBOLS)},
        {k: i for i, k in enumerate(POLAR_ALIASES)},
        {"defocus": torch.tensor(12.5)},
        {"C12": "4.5"},
        {"phi12": IntLike()},
        {"C10": float("nan"), "C12": float("inf")},
        # rejected inputs: the exception (type and message) must be the same
        {"C11": 1.0},
        {"": 1.0},
        {"Defocus": 1.0},
        {None: 1.0},
        {0: 1.0},
        {("C10",): 1.0},
        {"C10": None},
        {"C10": "abc"},
        {"C10": 1.0, "bogus": 2.0},
        {"defocus": [1.0]},
    ]
    for case in cases:
        o = outcome(orig_standardize_aberration_coefs, case)
        n = outcome(cp.standardize_aberration_coefs, case)
        assert o[0] == n[0], (case, o, n)
        if o[0] == "exc":
            assert o[1:] == n[1:], (case, o, n)
            continue
        assert list(o[1]) == list(n[1]), (case, o, n)  # same keys, same order
        for k in o[1]:
            same_tensor(o[1][k], n[1][k])
        assert all(k in POLAR_SYMBOLS for k in n[1])

    # unhashable key -> TypeError from the alias lookup in both
    class Weird(dict):
        def items(self):
            return [([1], 2.0)]

    o = outcome(orig_standardize_aberration_coefs, Weird())
    n = outcome(cp.standardize_aberration_coefs, Weird())
    assert o == n and o[1] is TypeError, (o, n)

    # property: 'defocus' always means C10 = -defocus
    for d in (-250.0, -1.0, 0.0, 3.0, 1234.5):
        out = cp.standardize_aberration_coefs({"defocus": d})
        assert list(out) == ["C10"]
        assert out["C10"].item() == torch.tensor(-d, dtype=torch.float32).item()
    # every alias maps onto its canonical symbol
    for alias, canonical in POLAR_ALIASES.items():
        out = cp.standardize_aberration_coefs({alias: 2.0})
        assert list(out) == [canonical]
        assert out[canonical].item() == (-2.0 if alias == "defocus" else 2.0)


# --------------------------------------------------------------------------
# 2. aberration_surface_cartesian_gradients : old == new, gradient == autograd
# --------------------------------------------------------------------------
def coefficient_sets():
    g = torch.Generator().manual_seed(7)
    full = {}
    for s in POLAR_SYMBOLS:
        v = torch.rand((), generator=g).item()
        full[s] = (v - 0.5) * (2 * math.pi if s.startswith("phi") else 10.0 ** int(s[1]))
    sets = [
        {},
        {"C10": 150.0},
        {"C10": -80.0, "C12": 25.0, "phi12": 0.4},
        {"C12": 10.0},
        {"phi12": 0.3},
        {"C21": 300.0, "phi21": -1.0, "C23": 120.0, "phi23": 0.7},
        {"C30": 1e5, "C32": 3e4, "phi32": 0.2, "C34": -2e4, "phi34": 1.1},
        {"C41": 1e6, "phi41": 0.3, "C45": 2e6, "phi45": -0.6},
        {"C50": 1e8, "C56": 4e7, "phi56": 0.1},
        full,
        {k: torch.tensor(v, dtype=torch.float64) for k, v in full.items()},
        {"C10": torch.tensor(50.0, requires_grad=True), "C12": 5, "phi12": 1},
    ]
    return sets


def grids():
    out = []
    for gpts, sampling, rot in [
        ((8, 8), (0.5, 0.5), None),
        ((12, 9), (0.4, 0.7), 0.3),
        ((1, 5), (1.0, 1.0), -1.2),
        ((16, 16), (0.25, 0.25), math.pi),
    ]:
        kx, ky = spatial_frequencies(gpts, sampling, rotation_angle=rot)
        k, phi = polar_coordinates(kx, ky)
        out.append((k * 0.0197, phi))
        out.append(((k * 0.0197).double(), phi.double()))
    g = torch.Generator().manual_seed(3)
    out.append((torch.rand(37, generator=g) * 0.03, (torch.rand(37, generator=g) - 0.5) * 7))
    out.append((torch.tensor(0.01), torch.tensor(-2.0)))  # 0-d
    out.append((torch.zeros(0), torch.zeros(0)))  # empty
    out.append((torch.tensor([0.0, float("nan"), float("inf")]), torch.tensor([0.0, 1.0, 2.0])))
    out.append((torch.rand(4, 1, generator=g) * 0.02, torch.rand(1, 5, generator=g)))  # broadcast
    return out


def check_cartesian_gradients():
    for (alpha, phi), coefs in itertools.product(grids(), coefficient_sets()):
        o = outcome(orig_aberration_surface_cartesian_gradients, alpha, phi, coefs)
        n = outcome(cp.aberration_surface_cartesian_gradients, alpha, phi, coefs)
        assert o[0] == n[0], (o, n)
        if o[0] == "exc":
            assert o[1:] == n[1:], (o, n)
            continue
        assert isinstance(n[1], tuple) and len(n[1]) == 2
        same_tensor(o[1][0], n[1][0])
        same_tensor(o[1][1], n[1][1])

    # rejected inputs raise identically
    for bad in [
        (torch.rand(3), torch.rand(4), {"C10": 1.0}),
        (torch.rand(3), None, {"C10": 1.0}),
        (None, torch.rand(3), {}),
        (torch.rand(3), torch.rand(3), None),
    ]:
        o = outcome(orig_aberration_surface_cartesian_gradients, *bad)
        n = outcome(cp.aberration_surface_cartesian_gradients, *bad)
        assert o[0] == "exc" and o == n, (o, n)

    # property: analytic gradient == wavelength * true gradient of the surface
    wavelength = 0.0197
    g = torch.Generator().manual_seed(11)
    for coefs in coefficient_sets()[1:10]:
        coefs = {k: float(v) for k, v in coefs.items()}
        ax = ((torch.rand(64, generator=g, dtype=torch.float64) - 0.5) * 0.04).requires_grad_()
        ay = ((torch.rand(64, generator=g, dtype=torch.float64) - 0.5) * 0.04).requires_grad_()
        alpha = torch.sqrt(ax.square() + ay.square())
        phi = torch.arctan2(ay, ax)
        chi = aberration_surface(alpha, phi, wavelength, coefs)
        gx, gy = torch.autograd.grad(chi.sum(), (ax, ay))
        dx, dy = cp.aberration_surface_cartesian_gradients(alpha.detach(), phi.detach(), coefs)
        scale = max(gx.abs().max().item(), gy.abs().max().item(), 1e-30)
        assert (dx - wavelength * gx).abs().max().item() <= 1e-9 * scale * wavelength + 1e-12
        assert (dy - wavelength * gy).abs().max().item() <= 1e-9 * scale * wavelength + 1e-12


# --------------------------------------------------------------------------
# 3./4. fit_aberrations_from_shifts : old == new, and the fit round-trip
# --------------------------------------------------------------------------
def model_shifts(gpts, sampling, wavelength, rotation, coefs, bf_mask, dtype=torch.float32):
    kxa, kya = spatial_frequencies(gpts, sampling, rotation_angle=rotation)
    k, phi = polar_coordinates(kxa, kya)
    dx, dy = cp.aberration_surface_cartesian_gradients(k * wavelength, phi, coefs)
    return (torch.stack((dx[bf_mask], dy[bf_mask]), -1) / 2 / math.pi).to(dtype)


def bf_disk(gpts, sampling, wavelength, semiangle_mrad):
    kxa, kya = spatial_frequencies(gpts, sampling)
    k, _ = polar_coordinates(kxa, kya)
    return k * wavelength <= semiangle_mrad * 1e-3


def angdiff(a, b, period):
    return abs((a - b + period / 2) % period - period / 2)


def check_fit():
    wavelength = 0.0197
    configs = [((48, 48), (0.2, 0.2), 25.0), ((40, 56), (0.25, 0.2), 20.0)]
    rotations = [0.0, 0.2, -0.9, 1.4, -1.5, 2.0, -2.6, 3.1, math.pi / 2, -math.pi / 2, math.pi]
    coef_sets = [
        {"C10": 200.0, "C12": 30.0, "phi12": 0.5},
        {"C10": -350.0, "C12": 60.0, "phi12": -1.1},
        {"C10": 120.0},
        {"C10": 80.0, "C12": 79.0, "phi12": 1.5},
        {"C10": 500.0, "C12": 40.0, "phi12": 0.3, "C21": 400.0, "phi21": 0.2, "C30": 5e4},
        {"C12": 50.0, "phi12": 0.7},  # traceless
        {},  # all-zero shifts
    ]
    n_checked = 0
    for (gpts, sampling, semi), rot, coefs in itertools.product(configs, rotations, coef_sets):
        mask = bf_disk(gpts, sampling, wavelength, semi)
        for dtype in (torch.float32, torch.float64):
            shifts = model_shifts(gpts, sampling, wavelength, rot, coefs, mask, dtype)
            args = (shifts, mask, wavelength, gpts, sampling)
            o = outcome(orig_fit_aberrations_from_shifts, *args)
            n = outcome(dpu.fit_aberrations_from_shifts, *args)
            assert o[0] == n[0], (o, n)
            if o[0] == "exc":
                assert o[1:] == n[1:], (o, n)
                continue
            assert list(o[1]) == list(n[1]) == ["C10", "C12", "phi12", "rotation_angle"]
            for key in o[1]:
                same_float(o[1][key], n[1][key])
            n_checked += 1

        # property: round-trip inside the identifiable domain
        # (pure first-order model, C10 > C12 >= 0, |rotation| < pi/2)
        first_order = set(coefs) <= {"C10", "C12", "phi12"}
        c10, c12 = coefs.get("C10", 0.0), coefs.get("C12", 0.0)
        if first_order and c10 > c12 and abs(rot) < math.pi / 2 - 1e-3:
            shifts = model_shifts(gpts, sampling, wavelength, rot, coefs, mask, torch.float32)
            fit = dpu.fit_aberrations_from_shifts(shifts, mask, wavelength, gpts, sampling)
            assert abs(fit["C10"] - c10) <= 1e-3 * abs(c10), (fit, coefs, rot)
            assert abs(fit["C12"] - c12) <= 1e-3 * abs(c10), (fit, coefs, rot)
            assert angdiff(fit["rotation_angle"], rot, 2 * math.pi) <= 1e-4, (fit, coefs, rot)
            if c12 > 0:
                assert angdiff(fit["phi12"], coefs["phi12"], math.pi) <= 1e-3, (fit, coefs, rot)
    assert n_checked >= 150, n_checked  # float64 shifts are rejected (dtype mismatch) by old and new alike

    # arbitrary (non-model) shifts, random masks, noisy / non-symmetric / improper M
    g = torch.Generator().manual_seed(5)
    gpts, sampling = (24, 20), (0.3, 0.35)
    for trial in range(60):
        mask = torch.rand(gpts, generator=g) < 0.3
        mask[0, 1] = mask[1, 0] = mask[2, 3] = True
        K = int(mask.sum())
        dtype = torch.float64 if trial % 2 else torch.float32
        shifts = (torch.rand(K, 2, generator=g, dtype=dtype) - 0.5) * 10 ** (trial % 5 - 2)
        args = (shifts, mask, wavelength, gpts, sampling)
        o = outcome(orig_fit_aberrations_from_shifts, *args)
        n = outcome(dpu.fit_aberrations_from_shifts, *args)
        assert o[0] == n[0], (o, n)
        if o[0] == "exc":  # float64 shifts: lstsq dtype mismatch, same in both
            assert dtype is torch.float64 and o[1:] == n[1:], (o, n)
            continue
        for key in o[1]:
            same_float(o[1][key], n[1][key])

    # exact linear maps M (rotation x symmetric, reflections, singular, ill-conditioned)
    kxa, kya = spatial_frequencies(gpts, sampling)
    mask = bf_disk(gpts, sampling, wavelength, 30.0)
    basis = torch.stack((kxa[mask], kya[mask]), -1) * wavelength
    mats = [
        [[1.0, 0.0], [0.0, 1.0]],
        [[-1.0, 0.0], [0.0, -1.0]],
        [[0.0, 1.0], [-1.0, 0.0]],
        [[0.0, -1.0], [1.0, 0.0]],
        [[1.0, 0.0], [0.0, -1.0]],
        [[2.0, 1.0], [0.5, -3.0]],
        [[1.0, 2.0], [2.0, 4.0]],
        [[0.0, 0.0], [0.0, 0.0]],
        [[1e-30, 0.0], [0.0, 1e30]],
    ]
    for mat, dtype in itertools.product(mats, (torch.float32, torch.float64)):
        shifts = (basis.to(dtype) @ torch.tensor(mat, dtype=dtype)) * 100.0
        args = (shifts, mask, wavelength, gpts, sampling)
        o = outcome(orig_fit_aberrations_from_shifts, *args)
        n = outcome(dpu.fit_aberrations_from_shifts, *args)
        assert o[0] == n[0], (mat, o, n)
        if o[0] == "exc":
            assert o[1:] == n[1:], (mat, o, n)
        else:
            for key in o[1]:
                same_float(o[1][key], n[1][key])

    # rejected inputs raise identically
    K = int(mask.sum())
    bads = [
        (torch.zeros(K, 3), mask, wavelength, gpts, sampling),
        (torch.zeros(K), mask, wavelength, gpts, sampling),
        (torch.zeros(K + 1, 2), mask, wavelength, gpts, sampling),
        (torch.zeros(1, K, 2), mask, wavelength, gpts, sampling),
        (torch.zeros(2, K, 2), mask, wavelength, gpts, sampling),
        (torch.zeros(K, 2), mask, wavelength, (24,), sampling),
        (torch.zeros(K, 2), mask[:, :5], wavelength, gpts, sampling),
        (torch.zeros(K, 2, dtype=torch.complex64), mask, wavelength, gpts, sampling),
    ]
    for bad in bads:
        o = outcome(orig_fit_aberrations_from_shifts, *bad)
        n = outcome(dpu.fit_aberrations_from_shifts, *bad)
        assert o[0] == n[0], (o, n)
        if o[0] == "exc":
            assert o[1:] == n[1:], (o, n)
        else:
            for key in o[1]:
                same_float(o[1][key], n[1][key])


if __name__ == "__main__":
    torch.set_num_threads(1)
    torch.manual_seed(0)
    check_standardize()
    check_cartesian_gradients()
    check_fit()
    print("C12 demo OK")
