"""Demo for property C17 (phase unwrapping recovers any smooth phase up to a constant).

Embeds a verbatim copy of the ORIGINAL reliability-sorting unwrapping code and checks that
the library's current code gives bit-identical results (helpers and end-to-end), and that
the property itself holds, on a spread of grids / fields / masks / wrap_around settings.
"""

import math

import numpy as np
import torch

from quantem.core.utils import imaging_utils as iu

# --------------------------------------------------------------------------------------
# verbatim copy of the original code
# --------------------------------------------------------------------------------------


def _wrap_to_pi(x):
    return (x + math.pi) % (2 * math.pi) - math.pi


def _find_wrap(a, b):
    d = a - b
    return torch.where(d > math.pi, -1, torch.where(d < -math.pi, 1, 0))


def _pixel_reliability(phi, mask=None):
    """
    phi: (H, W) wrapped phase (CPU tensor)
    mask: optional boolean mask
    """
    c = phi
    left = torch.roll(c, 1, 1)
    right = torch.roll(c, -1, 1)
    up = torch.roll(c, 1, 0)
    down = torch.roll(c, -1, 0)

    ul = torch.roll(left, 1, 0)
    dr = torch.roll(right, -1, 0)
    ur = torch.roll(right, 1, 0)
    dl = torch.roll(left, -1, 0)

    Hterm = _wrap_to_pi(left - c) - _wrap_to_pi(c - right)
    Vterm = _wrap_to_pi(up - c) - _wrap_to_pi(c - down)
    D1term = _wrap_to_pi(ul - c) - _wrap_to_pi(c - dr)
    D2term = _wrap_to_pi(ur - c) - _wrap_to_pi(c - dl)

    R = Hterm**2 + Vterm**2 + D1term**2 + D2term**2

    if mask is not None:
        R = torch.where(mask, R, torch.full_like(R, float("inf")))

    return R


def _build_edges(phi, reliability, mask=None, wrap_around=True):
    """
    Returns edges as CPU tensors:
        i1, i2, inc sorted by reliability
    """
    H, W = phi.shape
    N = H * W

    idx = torch.arange(N).reshape(H, W)
    edges = []

    phi_f = phi.flatten()
    rel_f = reliability.flatten()
    mask_f = mask.flatten() if mask is not None else None

    def add_edges(i1, i2):
        if mask_f is not None:
            valid = mask_f[i1] & mask_f[i2]
            i1, i2 = i1[valid], i2[valid]

        inc = _find_wrap(phi_f[i1], phi_f[i2])
        rel = rel_f[i1] + rel_f[i2]

        edges.append(  # ty:ignore[possibly-missing-attribute]
            torch.stack([i1, i2, rel, inc], dim=1)
        )

    if wrap_around:
        add_edges(idx.flatten(), torch.roll(idx, -1, 1).flatten())
        add_edges(idx.flatten(), torch.roll(idx, -1, 0).flatten())
    else:
        add_edges(idx[:, :-1].flatten(), idx[:, 1:].flatten())
        add_edges(idx[:-1, :].flatten(), idx[1:, :].flatten())

    edges = torch.cat(edges, dim=0)
    edges = edges[edges[:, 2].argsort()]

    # return integer tensors only (CPU)
    return (
        edges[:, 0].long(),
        edges[:, 1].long(),
        edges[:, 3].long(),
    )


class UnionFindPhase:
    def __init__(self, n):
        self.parent = torch.arange(n)
        self.rank = torch.zeros(n, dtype=torch.int32)
        self.offset = torch.zeros(n)

    def find_root_and_offset(self, x):
        root = x
        total = 0.0
        while self.parent[root] != root:
            total += self.offset[root]
            root = self.parent[root]
        return root, total

    def union(self, x, y, inc_xy):
        rx, ox = self.find_root_and_offset(x)
        ry, oy = self.find_root_and_offset(y)

        if rx == ry:
            return

        # phase(y) + oy + inc = phase(x) + ox
        delta = ox - oy - inc_xy

        if self.rank[rx] < self.rank[ry]:
            self.parent[rx] = ry
            self.offset[rx] = -delta
        else:
            self.parent[ry] = rx
            self.offset[ry] = delta
            if self.rank[rx] == self.rank[ry]:
                self.rank[rx] += 1


def _final_offsets(uf):
    """
    Single-pass offset computation (no path compression).
    """
    N = uf.parent.numel()
    incs = torch.zeros(N)

    for i in range(N):
        root = i
        total = 0.0
        while uf.parent[root] != root:
            total += uf.offset[root]
            root = uf.parent[root]
        incs[i] = total

    return incs


def _unwrap_phase_2d_torch_reliability_sorting(
    phi,
    mask=None,
    wrap_around=True,
):
    """
    Herráez 2D phase unwrapping.
    Runs on CPU by design.
    """
    with torch.no_grad():
        orig_device = phi.device
        phi = phi.detach().cpu()
        if mask is not None:
            mask = mask.detach().cpu().to(torch.bool)

        H, W = phi.shape
        N = H * W

        reliability = _pixel_reliability(phi, mask)

        i1, i2, inc = _build_edges(
            phi,
            reliability,
            mask,
            wrap_around=wrap_around,
        )

        uf = UnionFindPhase(N)

        for k in range(i1.numel()):
            uf.union(i1[k].item(), i2[k].item(), inc[k].item())

        incs = _final_offsets(uf)

        out = (phi.flatten() + 2 * math.pi * incs).reshape(H, W)
        out -= out.mean()
        return out.to(orig_device)


# --------------------------------------------------------------------------------------
# helpers
# --------------------------------------------------------------------------------------


def same(a, b):
    """bit-for-bit equality of two tensors (dtype, shape, raw bytes; NaN-safe)."""
    if a.dtype != b.dtype or a.shape != b.shape:
        return False
    return a.contiguous().numpy().tobytes() == b.contiguous().numpy().tobytes()


def components(mask, periodic):
    """4-connected component labels (0 = outside mask) with optional periodic wrap."""
    H, W = mask.shape
    lab = np.zeros((H, W), dtype=int)
    n = 0
    for sy in range(H):
        for sx in range(W):
            if not mask[sy, sx] or lab[sy, sx]:
                continue
            n += 1
            stack = [(sy, sx)]
            lab[sy, sx] = n
            while stack:
                y, x = stack.pop()
                for dy, dx in ((1, 0), (-1, 0), (0, 1), (0, -1)):
                    yy, xx = y + dy, x + dx
                    if periodic:
                        yy %= H
                        xx %= W
                    elif not (0 <= yy < H and 0 <= xx < W):
                        continue
                    if mask[yy, xx] and not lab[yy, xx]:
                        lab[yy, xx] = n
                        stack.append((yy, xx))
    return lab, n


def max_neighbour_diff(f, periodic):
    if periodic:
        d = max(np.abs(np.roll(f, -1, 0) - f).max(), np.abs(np.roll(f, -1, 1) - f).max())
    else:
        d = max(np.abs(np.diff(f, axis=0)).max(), np.abs(np.diff(f, axis=1)).max())
    return d


def fields(H, W, rng):
    """(name, field, periodic?) with neighbour differences < pi."""
    y, x = np.meshgrid(np.arange(H), np.arange(W), indexing="ij")
    out = []
    out.append(("ramp", 0.9 * x + 0.6 * y, False))
    out.append(("neg-ramp", -1.3 * x + 0.4 * y - 2.0, False))
    cy, cx = (H - 1) / 2, (W - 1) / 2
    q = 0.08 * ((x - cx) ** 2 + 0.7 * (y - cy) ** 2)
    out.append(("quadratic", q, False))
    out.append(
        ("gauss", 14.0 * np.exp(-((x - cx) ** 2 + (y - cy) ** 2) / (2 * (0.3 * min(H, W)) ** 2)), False)
    )
    # random band-limited, periodic by construction
    f = np.zeros((H, W))
    for ky in range(-2, 3):
        for kx in range(-2, 3):
            a, p = rng.normal(), rng.uniform(0, 2 * np.pi)
            f += a * np.cos(2 * np.pi * (ky * y / H + kx * x / W) + p)
    f *= 2.5 / max_neighbour_diff(f, True)
    out.append(("bandlimited-periodic", f, True))
    out.append(
        ("periodic-cos", 6.0 * np.cos(2 * np.pi * x / W) + 4.0 * np.sin(2 * np.pi * y / H), True)
    )
    out.append(("small-no-wrap", 0.2 * np.cos(2 * np.pi * x / W) * np.cos(2 * np.pi * y / H), True))
    # keep every field inside the Itoh condition (neighbour differences < pi)
    scaled = []
    for name, fld, per in out:
        d = max_neighbour_diff(fld, per)
        if d > 2.6:
            fld = fld * (2.6 / d)
        scaled.append((name, fld, per))
    return scaled


def masks(H, W, rng):
    y, x = np.meshgrid(np.arange(H), np.arange(W), indexing="ij")
    cy, cx = (H - 1) / 2, (W - 1) / 2
    r = np.hypot(y - cy, x - cx)
    out = [("none", None)]
    out.append(("disk", r <= 0.42 * min(H, W)))
    out.append(("annulus", (r <= 0.45 * min(H, W)) & (r >= 0.18 * min(H, W))))
    two = np.zeros((H, W), bool)
    two[1 : H // 2 - 1, 1 : W - 1] = True
    two[H // 2 + 1 : H - 1, 2 : W // 2] = True
    two[2, 3] = False  # hole
    out.append(("two-blocks-hole", two))
    rnd = rng.uniform(size=(H, W)) > 0.25
    out.append(("random", rnd))
    return out


def check_property(out, wrapped, field, mask, periodic_edges, tag):
    H, W = field.shape
    m = np.ones((H, W), bool) if mask is None else mask
    lab, n = components(m, periodic_edges)
    out = out.numpy().astype(np.float64)
    wrapped = wrapped.numpy().astype(np.float64)
    # single constant + integer multiples of 2*pi relative to wrapped input (on the mask)
    d = out - wrapped
    d0 = d[m][0]
    kk = (d[m] - d0) / (2 * np.pi)
    assert np.abs(kk - np.round(kk)).max() < 1e-4, (tag, "not 2*pi multiples + one constant")
    # outside the mask: no 2*pi increments at all are applied (same constant, k = 0 reference)
    # recovery up to one constant per connected region
    for c in range(1, n + 1):
        sel = lab == c
        e = out[sel] - field[sel]
        assert np.ptp(e) < 2e-3, (tag, "component", c, "not recovered up to a constant", np.ptp(e))


def main():
    torch.manual_seed(0)
    rng = np.random.default_rng(17)
    n_cases = 0

    # ---- helper-level bit-for-bit checks --------------------------------------------
    for shape in [(1, 1), (1, 7), (5, 1), (6, 9), (16, 16), (33, 20)]:
        for dt in (torch.float32, torch.float64):
            x = (torch.randn(shape, dtype=dt) * 7.0)
            assert same(iu._wrap_to_pi(x), _wrap_to_pi(x))
            xs = torch.tensor(
                [0.0, -0.0, math.pi, -math.pi, 2 * math.pi, -3 * math.pi, 1e6, -1e6, float("inf"), float("nan")],
                dtype=dt,
            )
            assert same(iu._wrap_to_pi(xs), _wrap_to_pi(xs))
            assert same(iu._find_wrap(x, x.flip(-1)), _find_wrap(x, x.flip(-1)))
            w = _wrap_to_pi(x)
            mk = torch.rand(shape) > 0.3
            for m in (None, mk):
                r_new = iu._pixel_reliability(w, m)
                r_old = _pixel_reliability(w, m)
                assert same(r_new, r_old)
                for wa in (True, False):
                    e_new = iu._build_edges(w, r_new, m, wrap_around=wa)
                    e_old = _build_edges(w, r_old, m, wrap_around=wa)
                    assert len(e_new) == len(e_old) == 3
                    for a, b in zip(e_new, e_old):
                        assert same(a, b)
                    n_cases += 1

    # ---- union-find bookkeeping: identical state for identical merge sequences ------
    for n in (1, 2, 9, 40):
        g = torch.Generator().manual_seed(n)
        a = iu.UnionFindPhase(n)
        b = UnionFindPhase(n)
        for name in ("parent", "rank", "offset"):
            assert same(getattr(a, name), getattr(b, name)), name
        for _ in range(3 * n):
            i, j = torch.randint(0, n, (2,), generator=g).tolist()
            inc = int(torch.randint(-1, 2, (1,), generator=g))
            a.union(i, j, inc)
            b.union(i, j, inc)
        for name in ("parent", "rank", "offset"):
            assert same(getattr(a, name), getattr(b, name)), name
        assert same(iu._final_offsets(a), _final_offsets(b))
        for i in range(n):
            ra, ta = a.find_root_and_offset(i)
            rb, tb = b.find_root_and_offset(i)
            assert int(ra) == int(rb) and float(ta) == float(tb)

    # ---- end-to-end: old == new bit-for-bit, and the property ------------------------
    for H, W in [(8, 8), (12, 17), (20, 14)]:
        for fname, f, periodic in fields(H, W, rng):
            for mname, m in masks(H, W, rng):
                for wa in (True, False):
                    tag = (H, W, fname, mname, wa)
                    ft = torch.tensor(f, dtype=torch.float32)
                    wrapped = _wrap_to_pi(ft)
                    mt = None if m is None else torch.tensor(m)
                    new = iu.unwrap_phase_2d_torch(
                        wrapped, method="reliability-sorting", mask=mt, wrap_around=wa
                    )
                    new2 = iu._unwrap_phase_2d_torch_reliability_sorting(wrapped, mt, wa)
                    old = _unwrap_phase_2d_torch_reliability_sorting(wrapped, mt, wrap_around=wa)
                    assert same(new, old), tag
                    assert same(new2, old), tag
                    n_cases += 1
                    # the property applies when the edges used satisfy the Itoh condition
                    if wa and not periodic:
                        continue
                    assert max_neighbour_diff(f, wa) < math.pi, tag
                    check_property(old, wrapped, ft.numpy().astype(np.float64), m, wa, tag)
                    # already-unwrapped smooth input is returned unchanged up to a constant
                    if fname == "small-no-wrap":
                        again = iu.unwrap_phase_2d_torch(ft, mask=mt, wrap_around=wa)
                        assert same(again, _unwrap_phase_2d_torch_reliability_sorting(ft, mt, wa))
                        e = (again - ft).numpy()
                        assert np.ptp(e) < 1e-5, tag

    # integer / float64 / non-contiguous inputs: old == new
    base = torch.randn(10, 13, dtype=torch.float64) * 4
    for phi in (base, base.t(), base[::2, ::3], _wrap_to_pi(base).float()):
        for wa in (True, False):
            assert same(
                iu._unwrap_phase_2d_torch_reliability_sorting(phi, None, wa),
                _unwrap_phase_2d_torch_reliability_sorting(phi, None, wa),
            )
            n_cases += 1

    print(f"OK ({n_cases} cases)")


if __name__ == "__main__":
    main()
