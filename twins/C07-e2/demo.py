"""C07 / patch 2: radon_torch - integer centre / crop bookkeeping, loop invariants hoisted out of the angle loop.

Checks, on the tree it is run against:
  * bitwise identity with a verbatim copy of the ORIGINAL radon_torch (square odd/even, non-square with
    odd/even excess on either axis, 2-D and batched input, default / int / float / empty angle sets,
    same exceptions for unsupported input, caller's tensor not modified);
  * agreement with skimage.transform.radon(circle=True);
  * batched == per-image, linearity, projection at 0 degrees == column sums of the disc-masked image.
"""

import numpy as np
import torch
import torch.nn.functional as F
from skimage.transform import radon

from quantem.tomography.radon.radon import radon_torch

torch.set_num_threads(1)


# ----------------------------------------------------------------------------- original (verbatim)
def orig_radon_torch(images, theta=None, device=None):
    """
    Batched Radon transform implemented in PyTorch.
    images: torch.Tensor of shape [B, H, W]
    Returns: torch.Tensor of shape [B, N_angles, N_pixels]
    """
    if images.ndim == 2:
        images = images.unsqueeze(0)  # [1, H, W]
    B, H, W = images.shape

    if device is None:
        device = images.device

    if theta is None:
        theta = torch.arange(180, device=device)

    N_angles = len(theta)
    shape_min = min(H, W)
    radius = shape_min // 2
    center = torch.tensor([H // 2, W // 2], device=device)

    Y, X = torch.meshgrid(
        torch.arange(H, device=device),
        torch.arange(W, device=device),
        indexing="ij",
    )
    dist2 = (X - center[1]) ** 2 + (Y - center[0]) ** 2
    mask = dist2 <= radius**2
    images = images.clone()
    images *= mask  # broadcasting over batch

    # Crop to square
    excess = torch.tensor([H, W], device=device) - shape_min
    slices = tuple(
        slice(int((e.item() + 1) // 2), int((e.item() + 1) // 2 + shape_min))
        if e > 0
        else slice(None)
        for e in excess
    )
    images = images[:, slices[0], slices[1]]  # [B, N, N]
    N = images.shape[-1]
    center = N // 2

    radon_images = torch.zeros((B, N_angles, N), dtype=images.dtype, device=device)

    grid_y, grid_x = torch.meshgrid(
        torch.arange(N, dtype=torch.float32, device=device),
        torch.arange(N, dtype=torch.float32, device=device),
        indexing="ij",
    )
    coords = torch.stack((grid_x - center, grid_y - center), dim=-1)  # (N, N, 2)
    coords = coords.view(1, N, N, 2).expand(B, -1, -1, -1)  # [B, N, N, 2]

    for i, angle in enumerate(theta):
        angle_rad = torch.deg2rad(angle)
        rot = torch.tensor(
            [
                [torch.cos(angle_rad), torch.sin(angle_rad)],
                [-torch.sin(angle_rad), torch.cos(angle_rad)],
            ],
            device=device,
            dtype=torch.float32,
        )

        rot = rot.unsqueeze(0).expand(B, -1, -1)  # [B, 2, 2]
        coords_rot = torch.matmul(coords.view(B, -1, 2), rot.transpose(1, 2)).view(B, N, N, 2)
        coords_rot += center

        # Normalize to [-1, 1]
        grid = 2 * coords_rot / (N - 1) - 1  # [B, N, N, 2]

        # grid = grid.unsqueeze(1)  # [B, 1, N, N, 2]
        imgs = images.unsqueeze(1)  # [B, 1, N, N]

        sampled = F.grid_sample(
            imgs, grid, mode="bilinear", padding_mode="zeros", align_corners=True
        )
        projection = sampled.squeeze(1).sum(dim=1)  # [B, N]
        radon_images[:, i, :] = projection

    return radon_images.squeeze(0) if radon_images.shape[0] == 1 else radon_images


# ----------------------------------------------------------------------------------------- helpers
def outcome(fn, *a, **k):
    try:
        return ("ok", fn(*a, **k))
    except Exception as e:  # noqa: BLE001
        return ("err", type(e), str(e))


def same_outcome(args, kwargs, tag):
    o_new, o_old = outcome(radon_torch, *args, **kwargs), outcome(orig_radon_torch, *args, **kwargs)
    assert o_new[0] == o_old[0], (tag, o_new, o_old)
    if o_new[0] == "err":
        assert o_new[1] is o_old[1], (tag, o_new, o_old)
        return None
    new, old = o_new[1], o_old[1]
    assert new.shape == old.shape and new.dtype == old.dtype, (tag, new.shape, old.shape, new.dtype, old.dtype)
    assert torch.equal(torch.nan_to_num(new, nan=-12345.0), torch.nan_to_num(old, nan=-12345.0)), (
        tag, (new - old).abs().max())
    return new


def disc(N):
    yy, xx = np.mgrid[:N, :N]
    return ((xx - N // 2) ** 2 + (yy - N // 2) ** 2) <= (N // 2) ** 2


ANGLE_SETS = (
    torch.tensor([0.0]),
    torch.tensor([0.0, 90.0, 180.0]),
    torch.tensor([0.0, 12.5, 45.0, 90.0, 91.0, 135.7, 179.9, 180.0]),
    torch.arange(0, 180, 20),  # integer dtype, as the default theta
    torch.linspace(0, 180, 7, dtype=torch.float64),
    torch.tensor([33.0, 33.0, 2.0]),  # repeated, unsorted
)


def check_identical_to_original():
    g = torch.Generator().manual_seed(11)
    n = 0
    shapes = [(1, 1), (2, 2), (3, 3), (8, 8), (9, 9), (16, 16), (17, 17), (31, 32), (32, 31), (12, 17), (17, 12),
              (10, 14), (14, 10), (9, 15), (15, 9), (5, 40), (40, 5), (1, 6), (6, 1)]
    for H, W in shapes:
        for B in (None, 1, 2, 3):
            img = torch.rand((H, W) if B is None else (B, H, W), generator=g) - 0.3
            keep = img.clone()
            for th in ANGLE_SETS:
                same_outcome((img,), {"theta": th}, (H, W, B, th.tolist()))
                n += 1
            assert torch.equal(img, keep), "input tensor was modified"
    # default angle set (180 integer degrees), explicit device, empty angle set, non-float images
    img = torch.rand((2, 13, 13), generator=g)
    out = same_outcome((img,), {}, "default theta")
    assert out.shape == (2, 180, 13)
    same_outcome((img,), {"device": torch.device("cpu")}, "device cpu")
    same_outcome((img,), {"device": "cpu", "theta": torch.tensor([10.0, 20.0])}, "device str")
    out = same_outcome((img,), {"theta": torch.zeros(0)}, "empty theta")
    assert out is not None and out.shape == (2, 0, 13)
    same_outcome((img[0],), {"theta": torch.zeros(0)}, "empty theta 2-D")
    same_outcome((img.double(),), {"theta": torch.tensor([0.0, 30.0])}, "float64 image")
    same_outcome((img.double(),), {"theta": torch.zeros(0)}, "float64 image, no angles")
    same_outcome(((img * 10).long(),), {"theta": torch.tensor([0.0, 30.0])}, "int image")
    same_outcome(((img * 10).long(),), {"theta": torch.zeros(0)}, "int image, no angles")
    same_outcome((torch.rand(2, 3, 8, 8),), {"theta": torch.tensor([0.0])}, "4-D input")
    same_outcome((torch.rand(8),), {"theta": torch.tensor([0.0])}, "1-D input")
    same_outcome((img,), {"theta": [0.0, 30.0]}, "list theta")
    same_outcome((img,), {"theta": np.array([0.0, 30.0])}, "numpy theta")
    same_outcome((torch.rand(0, 8, 8),), {"theta": torch.zeros(0)}, "empty batch, no angles")
    same_outcome((torch.rand(0, 8, 8),), {"theta": torch.tensor([0.0, 30.0])}, "empty batch")
    same_outcome((torch.rand(2, 0, 0),), {"theta": torch.tensor([0.0])}, "empty image")
    same_outcome((torch.rand(2, 0, 5),), {"theta": torch.zeros(0)}, "empty rows")
    nan_img = img.clone()
    nan_img[0, 0, 0] = float("nan")  # outside the disc: 0 * nan stays nan, in both versions
    same_outcome((nan_img,), {"theta": torch.tensor([0.0, 45.0])}, "nan outside disc")
    return n


def check_property():
    rng = np.random.default_rng(5)
    worst = 0.0
    for N in (7, 8, 15, 16, 33, 40):
        smooth = np.exp(-(((np.mgrid[:N, :N][0] - N / 2.3) ** 2 + (np.mgrid[:N, :N][1] - N / 1.7) ** 2) / (N / 3) ** 2))
        rough = rng.random((N, N))
        binary = (rng.random((N, N)) > 0.6).astype(float)
        imgs = np.stack([smooth, rough, binary]).astype(np.float32)
        for theta in (np.array([0.0]), np.arange(0.0, 180.0, 10.0), np.array([0.0, 7.3, 45.0, 90.0, 123.4, 180.0])):
            th = torch.tensor(theta, dtype=torch.float32)
            batched = radon_torch(torch.from_numpy(imgs), theta=th)
            assert batched.shape == (3, len(theta), N)
            for b in range(3):
                ref = radon(imgs[b].astype(float) * disc(N), theta=theta, circle=True).T
                err = float(np.abs(batched[b].numpy() - ref).max())
                scale = max(1.0, float(np.abs(ref).max()))
                worst = max(worst, err / scale)
                assert err < 2e-4 * scale, (N, len(theta), b, err)
                single = radon_torch(torch.from_numpy(imgs[b]), theta=th)
                assert single.shape == (len(theta), N)
                assert torch.allclose(single, batched[b], rtol=0, atol=1e-4 * scale), (N, b)
            # linearity
            a, c = 1.75, -0.5
            lin = radon_torch(torch.from_numpy(a * imgs[0] + c * imgs[1]), theta=th)
            assert torch.allclose(lin, a * batched[0] + c * batched[1], rtol=0, atol=2e-4 * N), (N, len(theta))
            # theta[0] == 0: projection equals the column sums of the disc-masked image
            col = (imgs * disc(N)).sum(axis=1)
            assert np.allclose(batched[:, 0, :].numpy(), col, rtol=0, atol=2e-4 * N), N
    # non-square input is masked then cropped to the central square: equals the transform of that square
    g = torch.Generator().manual_seed(3)
    for H, W in ((12, 17), (17, 12), (10, 14), (15, 9)):
        img = torch.rand((H, W), generator=g)
        m = min(H, W)
        r0, c0 = ((H - m + 1) // 2 if H > m else 0), ((W - m + 1) // 2 if W > m else 0)
        Y, X = np.mgrid[:H, :W]
        masked = img.numpy() * (((X - W // 2) ** 2 + (Y - H // 2) ** 2) <= (m // 2) ** 2)
        square = masked[r0:r0 + m, c0:c0 + m]
        th = np.array([0.0, 30.0, 90.0, 150.0])
        got = radon_torch(img, theta=torch.tensor(th, dtype=torch.float32)).numpy()
        assert got.shape == (4, m)
        # the projection at 0 degrees is the column sum of that masked, cropped square
        assert np.allclose(got[0], square.sum(axis=0), rtol=0, atol=1e-4 * m), (H, W)
    return worst


if __name__ == "__main__":
    n = check_identical_to_original()
    w = check_property()
    print(f"PASS: {n} radon_torch calls bitwise identical to the original; max rel error vs skimage.radon = {w:.2e}")
