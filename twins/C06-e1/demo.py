"""Demo for C06 patch 1: Dataset.bin block reduction (fused slicing / reshape loops).

Checks, on a spread of shapes / dtypes / axis subsets / factors / reducers:
  * Dataset.bin agrees bit-for-bit with a verbatim copy of the ORIGINAL implementation
    (array values + dtype, sampling, origin, name, raised exceptions);
  * the conservation property against an independent float64 / python-loop block oracle:
    every output pixel is the sum (or mean) of exactly its block, only the trailing
    remainder is dropped, sampling *= factor, origin -> mean coordinate of the first block,
    physical coordinate of every block centre preserved, counts over covered region preserved.
"""

import itertools
import numbers

import numpy as np

from quantem.core.datastructures.dataset import Dataset


# --------------------------------------------------------------------------------------
# verbatim copy of the ORIGINAL Dataset.bin body (as a free function taking `self`)
# --------------------------------------------------------------------------------------
def bin_original(self, bin_factors, axes=None, modify_in_place=False, reducer="sum"):
    reducer_norm = str(reducer).lower()
    if reducer_norm not in ("sum", "mean"):
        raise ValueError("reducer must be 'sum' or 'mean'")

    if axes is None:
        axes = tuple(range(self.ndim))
    elif isinstance(axes, int | float):
        axes = (int(axes),)
    else:
        axes = tuple(int(ax) for ax in axes)

    if isinstance(bin_factors, numbers.Integral):
        bin_factors = (int(bin_factors),) * len(axes)
    elif isinstance(bin_factors, (list, tuple)):
        if len(bin_factors) != len(axes):
            raise ValueError("bin_factors and axes must have the same length.")
        for fac in bin_factors:
            if not isinstance(fac, numbers.Integral):
                raise TypeError(f"Each bin factor must be an integer, got {fac!r}")
        bin_factors = tuple(int(fac) for fac in bin_factors)
    else:
        raise TypeError("bin_factors must be an int or tuple of ints.")

    if any(fac <= 0 for fac in bin_factors):
        raise ValueError("All bin factors must be positive integers.")

    axis_to_factor = dict(zip(axes, bin_factors))

    slices = []
    effective_lengths = []
    for a0 in range(self.ndim):
        if a0 in axis_to_factor:
            fac = axis_to_factor[a0]
            length_eff = (self.shape[a0] // fac) * fac
            slices.append(slice(0, length_eff))
            effective_lengths.append(length_eff)
        else:
            slices.append(slice(None))
            effective_lengths.append(self.shape[a0])

    reshape_dims = []
    reduce_axes = []
    running_axis = 0
    for a1 in range(self.ndim):
        if a1 in axis_to_factor:
            fac = axis_to_factor[a1]
            nblocks = effective_lengths[a1] // fac
            reshape_dims.extend([nblocks, fac])
            reduce_axes.append(running_axis + 1)
            running_axis += 2
        else:
            reshape_dims.append(effective_lengths[a1])
            running_axis += 1

    array_view = self.array[tuple(slices)].reshape(tuple(reshape_dims))
    array_binned = np.sum(array_view, axis=tuple(reduce_axes))
    if reducer_norm == "mean":
        block_volume = 1
        for fac_b in axis_to_factor.values():
            block_volume *= fac_b
        array_binned = array_binned / block_volume

    new_sampling = self.sampling.astype(float).copy()
    new_origin = self.origin.astype(float).copy()
    for ax_binned, fac_binned in axis_to_factor.items():
        old_sampling = new_sampling[ax_binned]
        new_sampling[ax_binned] = old_sampling * fac_binned
        new_origin[ax_binned] = new_origin[ax_binned] + 0.5 * (fac_binned - 1) * old_sampling

    if modify_in_place:
        self._array = array_binned
        self._sampling = new_sampling
        self._origin = new_origin
        return None

    dataset = self.copy()
    dataset.array = array_binned
    dataset.sampling = new_sampling
    dataset.origin = new_origin

    factors_str = " ".join(
        f"{axis_to_factor[a2]:.3g}" if a2 in axis_to_factor else "1" for a2 in range(self.ndim)
    )
    suffix = f"(binned factors {factors_str}" + (", mean)" if reducer_norm == "mean" else ")")
    dataset.name = f"{self.name} {suffix}"
    return dataset


# --------------------------------------------------------------------------------------
rng = np.random.default_rng(1234)


def make_array(shape, dtype):
    dtype = np.dtype(dtype)
    if dtype.kind in "iu":
        return rng.integers(0, 50, size=shape).astype(dtype)
    if dtype.kind == "b":
        return rng.integers(0, 2, size=shape).astype(bool)
    if dtype.kind == "c":
        return (rng.normal(size=shape) + 1j * rng.normal(size=shape)).astype(dtype)
    return rng.normal(size=shape).astype(dtype)


def make_ds(shape, dtype):
    nd = len(shape)
    return Dataset.from_array(
        make_array(shape, dtype),
        name="demo",
        origin=rng.normal(size=nd) * 3.0,
        sampling=rng.uniform(0.1, 2.5, size=nd),
        units=["nm"] * nd,
    )


def same_dataset(a, b):
    assert type(a) is type(b)
    assert a.array.dtype == b.array.dtype, (a.array.dtype, b.array.dtype)
    assert a.array.shape == b.array.shape, (a.array.shape, b.array.shape)
    assert np.array_equal(a.array, b.array)
    assert a.sampling.dtype == b.sampling.dtype and np.array_equal(a.sampling, b.sampling)
    assert a.origin.dtype == b.origin.dtype and np.array_equal(a.origin, b.origin)
    assert a.name == b.name, (a.name, b.name)
    assert a.units == b.units


def run(fn, *args, **kwargs):
    try:
        return ("ok", fn(*args, **kwargs))
    except Exception as exc:  # noqa: BLE001 - we compare exceptions
        return ("err", (type(exc), str(exc)))


def compare_old_new(ds, bin_factors, axes, reducer):
    """new (library) vs original (embedded) - both out-of-place and in-place."""
    kind_new, res_new = run(ds.bin, bin_factors, axes=axes, reducer=reducer)
    kind_old, res_old = run(bin_original, ds, bin_factors, axes=axes, reducer=reducer)
    assert kind_new == kind_old, (kind_new, res_new, kind_old, res_old)
    if kind_new == "err":
        assert res_new == res_old, (res_new, res_old)
    else:
        same_dataset(res_new, res_old)

    d1, d2 = ds.copy(), ds.copy()
    k1, r1 = run(d1.bin, bin_factors, axes=axes, reducer=reducer, modify_in_place=True)
    k2, r2 = run(bin_original, d2, bin_factors, axes=axes, reducer=reducer, modify_in_place=True)
    assert k1 == k2
    if k1 == "err":
        assert r1 == r2
    else:
        assert r1 is None and r2 is None
    same_dataset(d1, d2)  # identical state after success AND after failure
    if kind_new == "ok":
        # in-place result equals the out-of-place result (except for the name)
        assert np.array_equal(d1.array, res_new.array) and d1.array.dtype == res_new.array.dtype
        assert np.array_equal(d1.sampling, res_new.sampling)
        assert np.array_equal(d1.origin, res_new.origin)
    return kind_new, res_new


def oracle_check(ds, out, axes, factors, reducer):
    """Independent block oracle (python loops, wide accumulators)."""
    nd = ds.ndim
    fac = [1] * nd
    for ax, f in zip(axes, factors):
        fac[ax] = f
    exp_shape = tuple(n // f for n, f in zip(ds.shape, fac))
    assert out.shape == exp_shape, (out.shape, exp_shape)

    src = ds.array
    wide = src.astype(np.complex128) if np.iscomplexobj(src) else src.astype(np.float64)
    vol = int(np.prod(fac))
    for idx in itertools.product(*[range(n) for n in exp_shape]):
        block = wide[tuple(slice(i * f, (i + 1) * f) for i, f in zip(idx, fac))]
        assert block.size == vol
        expect = block.sum()
        if reducer == "mean":
            expect = expect / vol
        assert np.allclose(out.array[idx], expect, rtol=1e-5, atol=1e-5), (idx, out.array[idx], expect)

    # integer sum is exact
    if src.dtype.kind in "iu" and reducer == "sum":
        covered = src[tuple(slice(0, n * f) for n, f in zip(exp_shape, fac))]
        assert out.array.sum() == covered.sum()
        assert out.array.dtype.kind in "iu"

    # counts over the covered region are preserved
    covered = wide[tuple(slice(0, n * f) for n, f in zip(exp_shape, fac))]
    total = out.array.sum() * (vol if reducer == "mean" else 1)
    assert np.allclose(total, covered.sum(), rtol=1e-4, atol=1e-4)

    # metadata: sampling *= f, origin = mean coordinate of first block, block centres preserved
    for ax in range(nd):
        f = fac[ax]
        s_old, o_old = float(ds.sampling[ax]), float(ds.origin[ax])
        assert np.isclose(out.sampling[ax], s_old * f, rtol=1e-12, atol=0)
        first_block_mean = np.mean(o_old + s_old * np.arange(f))
        assert np.isclose(out.origin[ax], first_block_mean, rtol=1e-12, atol=1e-12)
        for k in range(exp_shape[ax]):
            centre_old = np.mean(o_old + s_old * np.arange(k * f, (k + 1) * f))
            centre_new = out.origin[ax] + k * out.sampling[ax]
            assert np.isclose(centre_new, centre_old, rtol=1e-10, atol=1e-10)


def all_axis_subsets(nd):
    for r in range(1, nd + 1):
        yield from itertools.combinations(range(nd), r)


n_cases = 0
shapes = [(1,), (7,), (10,), (5, 9), (6, 4), (1, 8), (3, 5, 7), (4, 6, 5), (2, 3, 5, 4), (3, 4, 2, 7)]
dtypes = [np.int32, np.uint8, np.int64, np.float32, np.float64, np.complex64, np.complex128, bool]
for shape in shapes:
    nd = len(shape)
    for dtype in dtypes:
        ds = make_ds(shape, dtype)
        for axes in all_axis_subsets(nd):
            for trial in range(2):
                factors = tuple(int(rng.integers(1, 5)) for _ in axes)
                if trial == 1:
                    # permute the axes order to check axis <-> factor pairing
                    perm = rng.permutation(len(axes))
                    axes_p = tuple(axes[i] for i in perm)
                    factors_p = tuple(factors[i] for i in perm)
                else:
                    axes_p, factors_p = axes, factors
                for reducer in ("sum", "mean", "MEAN"):
                    kind, out = compare_old_new(ds, factors_p, axes_p, reducer)
                    assert kind == "ok"
                    oracle_check(ds, out, axes_p, factors_p, reducer.lower())
                    n_cases += 1
        # scalar factor on all axes, axes=None
        for f in (1, 2, 3):
            for reducer in ("sum", "mean"):
                kind, out = compare_old_new(ds, f, None, reducer)
                assert kind == "ok"
                oracle_check(ds, out, tuple(range(nd)), (f,) * nd, reducer)
                n_cases += 1

# odd argument forms / edge cases: old and new must agree in every detail (incl. exceptions)
ds3 = make_ds((5, 6, 7), np.float64)
dsi = make_ds((9, 4), np.int16)
edge_calls = [
    (ds3, 2, 1, "sum"),  # scalar axis
    (ds3, 2, 1.0, "sum"),  # float axis
    (ds3, np.int64(3), (2,), "mean"),  # numpy integer factor
    (ds3, [2, np.int32(3)], [0, 2], "sum"),  # list inputs
    (ds3, (9, 2), (0, 1), "sum"),  # factor larger than axis length -> empty axis
    (ds3, (9, 2), (0, 1), "mean"),
    (ds3, (), (), "sum"),  # no axes at all
    (ds3, (), (), "mean"),
    (ds3, (2, 3), (0, 0), "sum"),  # duplicate axis
    (ds3, (2, 3), (0, 0), "mean"),
    (ds3, (2,), (-1,), "sum"),  # negative axis
    (ds3, (2, 2), (-1, 0), "mean"),
    (ds3, (2,), (5,), "sum"),  # out-of-range axis
    (ds3, (2, 2), (0,), "sum"),  # length mismatch
    (ds3, 2.0, None, "sum"),  # non-integer factor
    (ds3, (2, 2.5, 1), None, "sum"),
    (ds3, (0, 1, 1), None, "sum"),  # non-positive
    (ds3, -2, None, "sum"),
    (ds3, 2, None, "median"),  # bad reducer
    (ds3, "2", None, "sum"),
    (dsi, (4, 3), None, "sum"),
    (dsi, (4, 3), None, "mean"),
    (dsi, (10, 5), None, "mean"),
    (dsi, True, None, "sum"),  # bool is Integral
]
for ds, f, ax, red in edge_calls:
    compare_old_new(ds, f, ax, red)
    n_cases += 1

# multi-step: bin twice == bin once by the product when both divide
ds = make_ds((12, 18), np.int64)
a = ds.bin((2, 3)).bin((3, 2))
b = ds.bin((6, 6))
assert np.array_equal(a.array, b.array)
assert np.allclose(a.sampling, b.sampling) and np.allclose(a.origin, b.origin)

print(f"C06/1 demo PASS ({n_cases} cases)")
