# ---------------------------------------------------------------------------------------------
# shared harness: small ptychography problem + checkpoint/resume comparison
# ---------------------------------------------------------------------------------------------
import contextlib
import io
import os
import tempfile
import warnings

import matplotlib

matplotlib.use("Agg")
import numpy as np
import torch

from quantem.core.datastructures.dataset4dstem import Dataset4dstem
from quantem.diffractive_imaging.dataset_models import PtychographyDatasetRaster
from quantem.diffractive_imaging.detector_models import DetectorPixelated
from quantem.diffractive_imaging.object_models import ObjectPixelated
from quantem.diffractive_imaging.probe_models import ProbePixelated
from quantem.diffractive_imaging.ptychography import Ptychography

warnings.filterwarnings("ignore")
ENERGY = 300e3


def make_dataset(sx=7, sy=6, n=(16, 16), seed=3):
    rng = np.random.default_rng(seed)
    arr = rng.random((sx, sy, n[0], n[1])).astype(np.float32) + 0.1
    yy, xx = np.meshgrid(np.arange(n[0]) - n[0] / 2, np.arange(n[1]) - n[1] / 2, indexing="ij")
    arr += 20 * ((yy**2 + xx**2) < (min(n) / 4) ** 2)
    d = Dataset4dstem.from_array(
        array=arr, sampling=(1.0, 1.0, 0.03, 0.03), units=("A", "A", "A^-1", "A^-1")
    )
    pd = PtychographyDatasetRaster.from_dataset4dstem(d, verbose=0)
    pd.preprocess(
        com_fit_function="constant",
        plot_rotation=False,
        plot_com=False,
        probe_energy=ENERGY,
        force_com_rotation=0,
        force_com_transpose=False,
    )
    return pd


def make_ptycho(sx=7, sy=6, n=(16, 16), num_probes=1, obj_type="complex", pad=(4, 4), seed=3):
    pd = make_dataset(sx, sy, n, seed)
    obj_model = ObjectPixelated.from_uniform(num_slices=1, obj_type=obj_type, slice_thicknesses=1)
    probe_model = ProbePixelated.from_params(
        num_probes=num_probes,
        probe_params={"energy": ENERGY, "defocus": 50, "semiangle_cutoff": 15},
    )
    pt = Ptychography.from_models(
        dset=pd,
        obj_model=obj_model,
        probe_model=probe_model,
        detector_model=DetectorPixelated(),
        rng=11,
        verbose=0,
    )
    pt.preprocess(obj_padding_px=pad, plot_rotation=False, plot_com=False)
    return pt


def quiet(fn, *a, **k):
    with contextlib.redirect_stdout(io.StringIO()):
        return fn(*a, **k)


def lrs_as_dict(pt):
    return {k: np.asarray(v, dtype=float) for k, v in pt.iter_lrs.items()}


def assert_same_report(a, b, what, rtol=0.0, atol=0.0):
    """a and b report the same iteration count, losses, LR history, constraints, obj, probe."""
    assert a.num_iters == b.num_iters, (what, a.num_iters, b.num_iters)
    np.testing.assert_allclose(a.iter_losses, b.iter_losses, rtol=rtol, atol=atol, err_msg=what)
    la, lb = lrs_as_dict(a), lrs_as_dict(b)
    assert set(la) == set(lb), (what, set(la), set(lb))
    for k in la:
        np.testing.assert_allclose(la[k], lb[k], rtol=rtol, atol=atol, err_msg=f"{what} lr[{k}]")
    np.testing.assert_allclose(a.obj, b.obj, rtol=rtol, atol=atol, err_msg=what + " obj")
    np.testing.assert_allclose(a.probe, b.probe, rtol=rtol, atol=atol, err_msg=what + " probe")
    ca, cb = a.constraints, b.constraints
    assert set(ca) == set(cb), what
    for cat in ("object", "probe", "dataset"):
        assert set(ca[cat]) == set(cb[cat]), (what, cat)
        for key in ca[cat]:
            va, vb = ca[cat][key], cb[cat][key]
            if isinstance(va, (np.ndarray, torch.Tensor)) or isinstance(vb, (np.ndarray, torch.Tensor)):
                np.testing.assert_allclose(np.asarray(va), np.asarray(vb), err_msg=f"{what} {cat}.{key}")
            elif isinstance(va, (list, tuple)):
                assert list(va) == list(vb), (what, cat, key, va, vb)
            else:
                assert va == vb or (va is None and vb is None), (what, cat, key, va, vb)


def optimizer_state_tensors(pt):
    out = {}
    for name, opt in pt.optimizers.items():
        for gi, g in enumerate(opt.param_groups):
            for pi, p in enumerate(g["params"]):
                for k, v in opt.state.get(p, {}).items():
                    out[(name, gi, pi, k)] = v.detach().cpu().numpy() if isinstance(v, torch.Tensor) else v
    return out


def assert_bound(pt, what):
    """every optimizer steps exactly the tensors the model optimises; state is keyed by them."""
    models = {"object": pt.obj_model, "probe": pt.probe_model, "dataset": pt.dset}
    for name, opt in pt.optimizers.items():
        cur = models[name].get_optimization_parameters()
        cur = [cur] if isinstance(cur, torch.Tensor) else list(cur)
        bound = [p for g in opt.param_groups for p in g["params"]]
        assert len(bound) == len(cur), (what, name)
        for a, b in zip(bound, cur):
            assert a is b, (what, name, "optimizer not bound to live parameter")
        for p in opt.state:
            assert any(p is b for b in bound), (what, name, "stale optimizer state key")
        sch = models[name].scheduler
        if sch is not None:
            assert sch.optimizer is opt, (what, name, "scheduler bound to another optimizer")


def checkpoint_resume_case(td, tag, n_total, k, opt_params, sched_params, store, *,
                           num_probes=1, obj_type="complex", shape=(7, 6, (16, 16)),
                           constraints=None, save_raw=True, tol=1e-4):
    """run n_total iterations straight vs k + (save|clone) + (n_total-k); compare everything."""
    constraints = constraints or {}
    import copy as _copy

    def fresh():
        pt = make_ptycho(shape[0], shape[1], shape[2], num_probes=num_probes, obj_type=obj_type)
        return pt

    def first(pt, n):
        pt.reconstruct(
            num_iters=n,
            reset=True,
            optimizer_params=_copy.deepcopy(opt_params),
            scheduler_params=_copy.deepcopy(sched_params),
            constraints=_copy.deepcopy(constraints),
            batch_size=pt.dset.num_gpts,
        )

    def more(pt, n):
        pt.reconstruct(num_iters=n, batch_size=pt.dset.num_gpts)

    ref = fresh()
    first(ref, k)
    path = os.path.join(td, f"{tag}.zip" if store == "zip" else f"{tag}_dir")
    quiet(ref.save, path, store=store, save_raw_data=save_raw)
    if save_raw:
        loaded = quiet(Ptychography.from_file, path)
    else:
        loaded = quiet(
            Ptychography.from_file,
            path,
            dset=make_dataset(shape[0], shape[1], shape[2]),
        )
    cloned = quiet(ref.clone)
    # the saved object itself is untouched by save()/clone()
    assert not hasattr(ref, "_dataset_metadata")
    for other, nm in ((loaded, "loaded"), (cloned, "cloned")):
        assert other is not ref
        assert_same_report(ref, other, f"{tag}:{nm}@{k}")
        assert_bound(other, f"{tag}:{nm}@{k}")
        sa, sb = optimizer_state_tensors(ref), optimizer_state_tensors(other)
        assert set(sa) == set(sb), (tag, nm, set(sa) ^ set(sb))
        for key in sa:
            np.testing.assert_allclose(np.asarray(sa[key]), np.asarray(sb[key]), err_msg=f"{tag}:{nm} state {key}")
    assert_bound(ref, f"{tag}:ref@{k}")
    rest = n_total - k
    if rest:
        for pt in (ref, loaded, cloned):
            more(pt, rest)
    for other, nm in ((loaded, "loaded"), (cloned, "cloned")):
        assert_same_report(ref, other, f"{tag}:{nm}@{n_total}", rtol=tol, atol=tol)
        assert_bound(other, f"{tag}:{nm}@{n_total}")
    assert ref.num_iters == n_total
    for key, v in ref.iter_lrs.items():
        assert len(v) == n_total, (tag, key, len(v))
    return ref


# ---------------------------------------------------------------------------------------------
# part A: verbatim copies of the ORIGINAL OptimizerMixin.set_optimizer and
# OptimizerMixin.reconnect_optimizer_to_parameters, compared with the installed ones
# ---------------------------------------------------------------------------------------------
from typing import Generator

from quantem.core.ml.optimizer_mixin import OptimizerMixin


def orig_set_optimizer(self, opt_params: dict | None = None) -> None:
    """
    Set the optimizer for this model.
    Currently supports single LR for all parameters, TODO allow for per parameter LRs by
    updating get_optimization_parameters to return a list of parameters and their LRs.
    """
    if opt_params is not None:
        self.optimizer_params = opt_params

    if not self._optimizer_params:
        self._optimizer = None
        return

    opt_params = self._optimizer_params.copy()
    opt_type = opt_params.pop("type", self.DEFAULT_OPTIMIZER_TYPE)

    if opt_type == "none":
        self.remove_optimizer()
        return

    params = self.get_optimization_parameters()
    if isinstance(params, torch.Tensor):
        params = [params]
    elif isinstance(params, Generator):
        params = list(params)

    # Ensure parameters require gradients
    for p in params:
        p.requires_grad_(True)

    if isinstance(opt_type, type):
        self._optimizer = opt_type(params, **opt_params)
    elif isinstance(opt_type, str):
        if opt_type.lower() == "adam":
            self._optimizer = torch.optim.Adam(params, **opt_params)
        elif opt_type.lower() == "adamw":
            self._optimizer = torch.optim.AdamW(params, **opt_params)
        elif opt_type.lower() == "sgd":
            self._optimizer = torch.optim.SGD(params, **opt_params)
        else:
            raise NotImplementedError(f"Unknown optimizer type: {opt_type}")
    else:
        raise TypeError(f"optimizer type must be string or type, got {type(opt_type)}")


def orig_reconnect_optimizer_to_parameters(self) -> None:
    """
    Reconnect optimizer to parameters after device changes.
    This is needed because AutoSerialize loads to CPU, but optimizers
    need to reference tensors on the current device.
    """
    if self._optimizer is None:
        return

    current_params = self.get_optimization_parameters()
    if isinstance(current_params, torch.Tensor):
        current_params = [current_params]
    elif isinstance(current_params, Generator):
        current_params = list(current_params)

    optimizable_params = [
        p for p in current_params if isinstance(p, torch.Tensor) and p.is_leaf
    ]

    if not optimizable_params:
        print(
            f"souldn't be getting here! No optimizable parameters found for {self.__class__.__name__}, removing optimizer"
        )
        self.remove_optimizer()
        return

    for p in optimizable_params:
        p.requires_grad_(True)

    # Preserve optimizer state and param_group settings
    old_state = self._optimizer.state.copy()
    current_param_group = self._optimizer.param_groups[0].copy()

    # Reconnect to new parameters
    self._optimizer.param_groups.clear()
    self._optimizer.add_param_group({"params": optimizable_params})

    # Update state mapping and move tensors to correct device
    new_state = {}
    device = optimizable_params[0].device
    for i, old_param in enumerate(old_state.keys()):
        if i < len(optimizable_params):
            new_param = optimizable_params[i]
            new_state[new_param] = {}
            for key, value in old_state[old_param].items():
                if isinstance(value, torch.Tensor):
                    new_state[new_param][key] = value.to(device)
                else:
                    new_state[new_param][key] = value

    self._optimizer.state.clear()
    self._optimizer.state.update(new_state)

    # Restore param_group settings (LR, betas, etc.) but keep new parameters
    self._optimizer.param_groups[0].update(
        {k: v for k, v in current_param_group.items() if k != "params"}
    )

    # Reconnect scheduler
    if self._scheduler is not None and self._optimizer is not None:
        self._scheduler.optimizer = self._optimizer
    return


class Toy(OptimizerMixin):
    """minimal model: `tensors` is what is optimised, `mode` how it is handed out."""

    def __init__(self, shapes, mode, seed=0):
        OptimizerMixin.__init__(self)
        g = torch.Generator().manual_seed(seed)
        self.tensors = [torch.randn(*s, generator=g, dtype=torch.float64) for s in shapes]
        self.mode = mode
        self.extra = []  # extra entries appended to what get_optimization_parameters yields

    def get_optimization_parameters(self):
        items = list(self.tensors) + list(self.extra)
        if self.mode == "tensor":
            assert len(items) == 1
            return items[0]
        if self.mode == "list":
            return items
        if self.mode == "tuple":
            return tuple(items)
        if self.mode == "generator":
            return (t for t in items)
        if self.mode == "iter":  # a non-generator iterator: passed through untouched by both
            return iter(items)
        raise AssertionError(self.mode)


class ToyOrig(Toy):
    set_optimizer = orig_set_optimizer
    reconnect_optimizer_to_parameters = orig_reconnect_optimizer_to_parameters


ToyOrig.__name__ = "Toy"  # the class name appears in a printed message that is compared


def feed_grads(toy, step):
    for i, t in enumerate(toy.tensors):
        g = torch.Generator().manual_seed(1000 * step + i)
        t.grad = torch.randn(t.shape, generator=g, dtype=t.dtype)


def describe(toy):
    """everything observable about the optimizer binding, keyed by position (not identity)."""
    opt = toy._optimizer
    if opt is None:
        return None
    pos = {id(t): i for i, t in enumerate(toy.tensors)}
    groups = []
    for g in opt.param_groups:
        d = {k: v for k, v in g.items() if k != "params"}
        d["params"] = [pos.get(id(p), "foreign") for p in g["params"]]
        groups.append(d)
    state = []
    for p, st in opt.state.items():
        entry = {}
        for k, v in st.items():
            entry[k] = ("T", str(v.dtype), tuple(v.shape), v.detach().numpy().tolist()) if isinstance(v, torch.Tensor) else ("V", v)
        state.append((pos.get(id(p), "foreign"), entry))
    return {
        "type": type(opt).__name__,
        "groups": groups,
        "state": state,
        "req": [t.requires_grad for t in toy.tensors],
        "vals": [t.detach().numpy().tolist() for t in toy.tensors],
        "sched_bound": None if toy._scheduler is None else (toy._scheduler.optimizer is opt),
        "opt_params": dict(toy._optimizer_params),
        "sched_params": dict(toy._scheduler_params),
    }


def outcome(fn):
    buf = io.StringIO()
    try:
        with contextlib.redirect_stdout(buf):
            fn()
        return ("ok", buf.getvalue())
    except Exception as e:  # noqa: BLE001
        return (type(e).__name__, str(e), buf.getvalue())


def rebind(toy, n_new):
    """simulate a reload/device move: the model now owns fresh copies of (some of) its tensors."""
    new = [t.detach().clone() for t in toy.tensors]
    if n_new < len(new):
        new = new[:n_new]
    else:
        g = torch.Generator().manual_seed(77)
        new += [torch.randn(2, 3, generator=g, dtype=torch.float64) for _ in range(n_new - len(new))]
    toy.tensors = new


def mixin_equivalence():
    n_cases = 0
    opt_specs = [
        {"type": "adam", "lr": 1e-2},
        {"type": "AdamW", "lr": 3e-3, "weight_decay": 0.1, "amsgrad": True},
        {"type": "sgd", "lr": 0.5, "momentum": 0.9, "nesterov": True},
        {"type": "sgd", "lr": 0.1},  # no per-parameter state tensors at all
        {"type": torch.optim.RMSprop, "lr": 1e-2, "momentum": 0.5},
        {"lr": 1e-3},  # default type
    ]
    layouts = [
        ("tensor", [(3, 5)]),
        ("list", [(3, 5), (7,), (1, 1, 2)]),
        ("tuple", [(4, 3), (2,)]),
        ("generator", [(3, 5), (2, 2), (5,)]),
    ]
    sched_specs = [None, {"type": "exp", "gamma": 0.5}, {"type": "plateau", "patience": 0, "cooldown": 0}]
    for spec in opt_specs:
        for mode, shapes in layouts:
            for sched in sched_specs:
                for n_new in sorted({len(shapes), max(len(shapes) - 1, 1), len(shapes) + 1}):
                    if mode == "tensor" and n_new != 1:
                        continue
                    a, b = Toy(shapes, mode), ToyOrig(shapes, mode)
                    log = []
                    for toy in (a, b):
                        rec = []
                        rec.append(outcome(lambda: toy.set_optimizer(dict(spec))))
                        rec.append(outcome(lambda: toy.set_scheduler(None if sched is None else dict(sched))))
                        rec.append(describe(toy))
                        for step in range(3):
                            feed_grads(toy, step)
                            toy.step_optimizer()
                            toy.step_scheduler(1.0 / (step + 1))
                        rec.append(describe(toy))
                        # reconnecting to the very same tensors is a no-op for the values
                        rec.append(outcome(toy.reconnect_optimizer_to_parameters))
                        rec.append(describe(toy))
                        rebind(toy, n_new)
                        rec.append(outcome(toy.reconnect_optimizer_to_parameters))
                        rec.append(describe(toy))
                        # second reconnect in a row, then keep optimising
                        rec.append(outcome(toy.reconnect_optimizer_to_parameters))
                        for step in range(3, 5):
                            feed_grads(toy, step)
                            toy.step_optimizer()
                            toy.step_scheduler(2.0)
                        rec.append(describe(toy))
                        log.append(rec)
                    assert log[0] == log[1], (spec, mode, sched, n_new)
                    # property-level: after the rebind the optimizer steps the live tensors only
                    d = log[0][-1]
                    assert d["groups"][0]["params"] == list(range(len(a.tensors)))
                    assert all(p != "foreign" for p, _ in d["state"])
                    n_cases += 1

    # filtered parameters: non-leaf tensors and non-tensors are dropped on reconnect
    for mode in ("list", "generator", "tuple"):
        a, b = Toy([(3,), (2, 2)], mode), ToyOrig([(3,), (2, 2)], mode)
        log = []
        for toy in (a, b):
            rec = [outcome(lambda: toy.set_optimizer({"type": "adam", "lr": 0.1}))]
            for step in range(2):
                feed_grads(toy, step)
                toy.step_optimizer()
            rebind(toy, 2)
            leaf = torch.ones(3, dtype=torch.float64, requires_grad=True)
            toy.extra = [leaf * 2.0, "not a tensor", None]
            rec.append(outcome(toy.reconnect_optimizer_to_parameters))
            rec.append(describe(toy))
            # set_optimizer with such a list fails identically (no requires_grad_ on a str)
            rec.append(outcome(lambda: toy.set_optimizer({"type": "adam", "lr": 0.1})))
            log.append(rec)
        assert log[0] == log[1], mode
        n_cases += 1

    # a one-shot iterator (not a Generator) is handed through untouched by both versions
    a, b = Toy([(3,), (2,)], "iter"), ToyOrig([(3,), (2,)], "iter")
    log = []
    for toy in (a, b):
        rec = [outcome(lambda: toy.set_optimizer({"type": "sgd", "lr": 0.1, "momentum": 0.1}))]
        rec.append(describe(toy))
        rec.append(outcome(toy.reconnect_optimizer_to_parameters))
        rec.append(describe(toy))
        log.append(rec)
    assert log[0] == log[1]
    n_cases += 1

    # nothing left to optimise -> optimizer removed (and the message printed), no optimizer -> no-op
    for mode in ("list", "generator"):
        a, b = Toy([(3,)], mode), ToyOrig([(3,)], mode)
        log = []
        for toy in (a, b):
            rec = [outcome(toy.reconnect_optimizer_to_parameters), describe(toy)]  # no optimizer yet
            rec.append(outcome(lambda: toy.set_optimizer({"type": "adam", "lr": 0.1})))
            rec.append(outcome(lambda: toy.set_scheduler({"type": "exp"})))
            toy.tensors = []
            rec.append(outcome(toy.reconnect_optimizer_to_parameters))
            rec.append((describe(toy), toy._scheduler, toy._optimizer_params, toy._scheduler_params))
            log.append(rec)
        assert log[0] == log[1]
        assert log[0][-1] == (None, None, {}, {})
        assert "No optimizable parameters" in log[0][-2][1]
        n_cases += 1

    # bad / special optimizer types
    for spec in ({"type": "lbfgs?"}, {"type": 3}, {"type": "none"}, {}, None, {"type": "adam", "bogus": 1}):
        a, b = Toy([(3,)], "generator"), ToyOrig([(3,)], "generator")
        res = []
        for toy in (a, b):
            toy.set_optimizer({"type": "sgd", "lr": 0.2})
            res.append((outcome(lambda: toy.set_optimizer(spec if spec is None else dict(spec))), describe(toy)))
        assert res[0] == res[1], spec
        n_cases += 1
    return n_cases


# ---------------------------------------------------------------------------------------------
# part B: the property itself, through save / from_file / clone of a real reconstruction
# ---------------------------------------------------------------------------------------------
def main():
    n = mixin_equivalence()
    print(f"mixin old-vs-new: {n} configurations identical")
    with tempfile.TemporaryDirectory() as td:
        checkpoint_resume_case(
            td, "adam_sgd_adamw", 4, 2,
            {
                "object": {"type": "adam", "lr": 1e-2},
                "probe": {"type": "sgd", "lr": 1e-3, "momentum": 0.9},
                "dataset": {"type": "adamw", "lr": 1e-3},
            },
            {"object": {"type": "exp", "gamma": 0.9}, "probe": {"type": "linear", "total_iters": 3}},
            "zip",
        )
        checkpoint_resume_case(
            td, "mixed_plateau", 3, 1,
            {"object": {"type": "adamw", "lr": 1e-2}, "probe": {"type": "adam", "lr": 1e-3}},
            {"object": {"type": "plateau", "patience": 0, "cooldown": 0, "threshold": 0.5}},
            "dir", num_probes=2, obj_type="pure_phase", shape=(5, 8, (12, 18)), save_raw=False, tol=1e-3,
        )
        checkpoint_resume_case(
            td, "split0_sgd", 3, 0, {"object": {"type": "sgd", "lr": 1e-2}}, {}, "zip",
            obj_type="potential", shape=(6, 5, (14, 12)),
        )
        checkpoint_resume_case(
            td, "split_end", 3, 3,
            {"object": {"type": "adam", "lr": 5e-3}, "probe": {"type": "adamw", "lr": 1e-3}},
            {"probe": {"type": "cyclic", "step_size_up": 2}}, "dir", shape=(4, 9, (10, 16)),
        )
    print("PASS")


if __name__ == "__main__":
    main()
