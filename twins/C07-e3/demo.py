"""C07 / patch 3: iradon_torch - circle-to-square embedding and FFT filtering extracted into helpers.

Checks, on the tree it is run against:
  * bitwise identity with a verbatim copy of the ORIGINAL iradon_torch (odd/even/tiny detector sizes, 2-D and
    batched sinograms, circle on/off, explicit output sizes, every filter, default angles, float64 input,
    same exceptions for bad input, caller's tensor not modified);
  * agreement with skimage.transform.iradon for every filter (circle=True and circle=False);
  * batched == per-sinogram, linearity, radon -> iradon round trip recovers a smooth phantom.
"""

import math

import numpy as np
import torch
import torch.nn.functional as F
from skimage.transform import iradon, radon

from quantem.tomography.radon.radon import get_fourier_filter_torch, iradon_torch, radon_torch

torch.set_num_threads(1)


# ----------------------------------------------------------------------------- original (verbatim)
def orig_iradon_torch(
    sinograms,
    theta=None,
    output_size=None,
    filter_name="ramp",
    circle=True,
    device=None,
):
    """
    Batched inverse Radon transform (filtered backprojection).
    sinograms: [B, N_angles, N_pixels] or [N_angles, N_pixels] (automatically batched)
    Returns: [B, output_size, output_size] or [output_size, output_size]
    """
    if sinograms.ndim == 2:
        sinograms = sinograms.unsqueeze(0)  # [1, A, P]
    B, A, N = sinograms.shape

    device = sinograms.device if device is None else device
    # default angles as in the reference: np.linspace(0, 180, A, endpoint=False)
    theta = theta if theta is not None else torch.linspace(0, 180, steps=A + 1, device=device)[:-1]

    if theta.shape[0] != A:
        raise ValueError("theta does not match number of projections")

    if output_size is None:
        output_size = N if circle else int(torch.floor(torch.sqrt(torch.tensor(N**2 / 2.0))))

    if circle:
        # as the reference (_sinogram_circle_to_square): embed the sinogram in the diagonal length,
        # keeping the rotation centre, before choosing the FFT size
        diagonal = int(math.ceil(math.sqrt(2) * N))
        pad = diagonal - N
        pad_before = diagonal // 2 - N // 2
        sinograms = F.pad(sinograms, (pad_before, pad - pad_before))
        N = diagonal

    # Padding for FFT
    padded_size = max(
        64, int(2 ** torch.ceil(torch.log2(torch.tensor(2 * N, dtype=torch.float32))))
    )
    pad_y = padded_size - N
    sinograms_padded = F.pad(sinograms, (0, pad_y))  # [B, A, padded]

    f_filter = get_fourier_filter_torch(padded_size, filter_name, device=device)  # [1, padded]
    spectrum = torch.fft.fft(sinograms_padded, dim=2)
    filtered = torch.real(torch.fft.ifft(spectrum * f_filter, dim=2))[:, :, :N]

    # Backprojection
    recon = torch.zeros((B, output_size, output_size), device=device)
    radius = output_size // 2

    y, x = torch.meshgrid(
        torch.arange(output_size, device=device) - radius,
        torch.arange(output_size, device=device) - radius,
        indexing="ij",
    )
    x = x.flatten()
    y = y.flatten()

    for i, angle in enumerate(torch.deg2rad(theta)):
        t = (x * torch.cos(angle) - y * torch.sin(angle)).reshape(1, output_size, output_size)
        t_idx = t + (N // 2)

        t0 = torch.floor(t_idx).long().clamp(0, N - 2)  # [1, H, W]
        t1 = t0 + 1
        w = t_idx - t0.float()

        t0 = t0.expand(B, -1, -1)  # [B, H, W]
        t1 = t1.expand(B, -1, -1)

        filtered_i = filtered[:, i, :]  # [B, N]
        val0 = torch.gather(filtered_i, 1, t0.view(B, -1)).view(B, output_size, output_size)
        val1 = torch.gather(filtered_i, 1, t1.view(B, -1)).view(B, output_size, output_size)

        # rays that leave the detector contribute nothing (np.interp(..., left=0, right=0))
        valid = (t_idx >= 0) & (t_idx <= N - 1)
        proj = ((1 - w) * val0 + w * val1) * valid
        recon += proj

    if circle:
        mask = (
            x.view(output_size, output_size) ** 2 + y.view(output_size, output_size) ** 2
            > radius**2
        )
        recon[:, mask] = 0.0

    recon *= torch.pi / (2 * A)
    return recon.squeeze(0) if recon.shape[0] == 1 else recon


# ----------------------------------------------------------------------------------------- helpers
FILTERS = ("ramp", "shepp-logan", "cosine", "hamming", "hann", None)


def outcome(fn, *a, **k):
    try:
        return ("ok", fn(*a, **k))
    except Exception as e:  # noqa: BLE001
        return ("err", type(e), str(e))


def same_outcome(args, kwargs, tag):
    o_new, o_old = outcome(iradon_torch, *args, **kwargs), outcome(orig_iradon_torch, *args, **kwargs)
    assert o_new[0] == o_old[0], (tag, o_new, o_old)
    if o_new[0] == "err":
        assert o_new[1:] == o_old[1:], (tag, o_new, o_old)
        return None
    new, old = o_new[1], o_old[1]
    assert new.shape == old.shape and new.dtype == old.dtype, (tag, new.shape, old.shape, new.dtype, old.dtype)
    assert torch.equal(torch.nan_to_num(new, nan=-12345.0), torch.nan_to_num(old, nan=-12345.0)), (
        tag, (new - old).abs().max())
    return new


def check_identical_to_original():
    g = torch.Generator().manual_seed(23)
    n = 0
    for N in (1, 2, 3, 4, 7, 16, 23, 46, 64):
        for A in (1, 5):
            theta = torch.rand(A, generator=g) * 180.0
            for B in (None, 3):
                sino = torch.randn((A, N) if B is None else (B, A, N), generator=g)
                keep = sino.clone()
                for circle in (True, False):
                    for name in FILTERS:
                        same_outcome((sino,), {"theta": theta, "filter_name": name, "circle": circle}, (N, A, B, circle, name))
                        n += 1
                    same_outcome((sino,), {"circle": circle}, (N, A, B, circle, "default theta"))
                    for out in (N // 2 + 1, N + 3):
                        same_outcome((sino,), {"theta": theta, "circle": circle, "output_size": out, "filter_name": "hann"},
                                     (N, A, B, circle, "output_size", out))
                        n += 1
                assert torch.equal(sino, keep), "input tensor was modified"
    sino = torch.randn((2, 5, 20), generator=g)
    th = torch.tensor([0.0, 30.0, 90.0, 140.0, 180.0])
    same_outcome((sino,), {"theta": th[:4]}, "theta mismatch")
    same_outcome((sino,), {"theta": th, "filter_name": "bogus"}, "unknown filter")
    same_outcome((sino,), {"theta": th, "filter_name": "bogus", "output_size": -1}, "unknown filter + bad output size")
    same_outcome((sino,), {"theta": th, "output_size": -1}, "bad output size")
    same_outcome((sino,), {"theta": th, "output_size": 0}, "zero output size")
    same_outcome((sino,), {"theta": th, "device": "cpu", "circle": 0}, "falsy circle")
    same_outcome((sino,), {"theta": th, "device": torch.device("cpu"), "circle": 1}, "truthy circle")
    same_outcome((sino.double(),), {"theta": th}, "float64 sinogram")
    same_outcome((sino.double(),), {"theta": th.double(), "circle": False}, "float64 sinogram + theta")
    same_outcome(((sino * 5).long(),), {"theta": th}, "integer sinogram")
    same_outcome(((sino * 5).long(),), {"theta": th, "circle": False}, "integer sinogram, no circle")
    same_outcome((torch.randn(2, 0, 20),), {}, "no projections")
    same_outcome((torch.randn(2, 0, 20),), {"theta": torch.zeros(0)}, "no projections, explicit theta")
    same_outcome((torch.randn(0, 5, 20),), {"theta": th}, "empty batch")
    same_outcome((torch.randn(2, 5, 0),), {"theta": th}, "empty detector")
    same_outcome((torch.randn(2, 5, 0),), {"theta": th, "circle": False}, "empty detector, no circle")
    same_outcome((torch.randn(20),), {"theta": th}, "1-D input")
    same_outcome((torch.randn(1, 2, 5, 20),), {"theta": th}, "4-D input")
    same_outcome((sino,), {"theta": [0.0, 1.0, 2.0, 3.0, 4.0]}, "list theta")
    nan_s = sino.clone()
    nan_s[0, 2, 7] = float("nan")
    same_outcome((nan_s,), {"theta": th}, "nan in sinogram")
    return n


def phantom(N):
    yy, xx = np.mgrid[:N, :N].astype(float)
    c = N // 2
    img = np.exp(-((xx - c - N / 9) ** 2 + (yy - c + N / 11) ** 2) / (N / 7) ** 2)
    img += 0.5 * np.exp(-((xx - c + N / 6) ** 2 + (yy - c - N / 8) ** 2) / (N / 10) ** 2)
    return img * (((xx - c) ** 2 + (yy - c) ** 2) <= (N // 2) ** 2)


def check_property():
    rng = np.random.default_rng(17)
    worst = 0.0
    for N in (9, 16, 31, 40):
        imgs = [phantom(N), rng.random((N, N)) * (phantom(N) > 0), (rng.random((N, N)) > 0.5).astype(float) * (phantom(N) > 0)]
        for theta in (np.arange(0.0, 180.0, 9.0), np.array([0.0, 17.5, 90.0, 133.0, 180.0]), np.array([60.0])):
            th = torch.tensor(theta, dtype=torch.float32)
            sinos = [radon(im, theta=theta, circle=True) for im in imgs]  # (N, A) each
            batch = torch.from_numpy(np.stack([s.T for s in sinos]).astype(np.float32))
            for name in FILTERS:
                got_b = iradon_torch(batch, theta=th, filter_name=name)
                assert got_b.shape == (3, N, N)
                for b in range(3):
                    ref = iradon(sinos[b], theta=theta, filter_name=name, circle=True)
                    scale = max(1.0, float(np.abs(ref).max()))
                    err = float(np.abs(got_b[b].numpy() - ref).max())
                    worst = max(worst, err / scale)
                    assert err < 2e-4 * scale, (N, len(theta), name, b, err)
                    single = iradon_torch(batch[b], theta=th, filter_name=name)
                    assert single.shape == (N, N)
                    assert torch.allclose(single, got_b[b], rtol=0, atol=1e-4 * scale), (N, name, b)
                # linearity
                a, c = 0.75, -2.0
                lin = iradon_torch(a * batch[0] + c * batch[1], theta=th, filter_name=name)
                expect = a * got_b[0] + c * got_b[1]
                assert torch.allclose(lin, expect, rtol=0, atol=2e-4 * max(1.0, float(expect.abs().max()))), (N, name)
            # circle=False (sinogram of the full square, skimage's own padding)
            full = radon(imgs[1], theta=theta, circle=False)
            for name in ("ramp", "hann", None):
                ref = iradon(full, theta=theta, filter_name=name, circle=False)
                got = iradon_torch(torch.from_numpy(full.T.astype(np.float32)), theta=th, filter_name=name, circle=False).numpy()
                assert got.shape == ref.shape, (got.shape, ref.shape)
                scale = max(1.0, float(np.abs(ref).max()))
                err = float(np.abs(got - ref).max())
                worst = max(worst, err / scale)
                assert err < 2e-4 * scale, (N, len(theta), name, "circle=False", err)
            # default angles == np.linspace(0, 180, A, endpoint=False)
            A = len(theta)
            ref = iradon(sinos[0], theta=None, circle=True)
            got = iradon_torch(batch[0]).numpy()
            assert np.abs(got - ref).max() < 2e-4 * max(1.0, float(np.abs(ref).max())), (N, A, "default theta")
    # round trip: torch radon -> torch iradon recovers a smooth phantom inside the disc
    N = 64
    img = torch.from_numpy(phantom(N).astype(np.float32))
    th = torch.arange(0, 180, 1.0)
    rec = iradon_torch(radon_torch(img, theta=th), theta=th)
    rms = float(((rec - img) ** 2).mean().sqrt())
    assert rms < 0.02, rms
    return worst


if __name__ == "__main__":
    n = check_identical_to_original()
    w = check_property()
    print(f"PASS: {n} iradon_torch calls bitwise identical to the original; max rel error vs skimage.iradon = {w:.2e}")
