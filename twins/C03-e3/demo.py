"""Demo for patch 3: Dataset.crop builds its slices with a helper + generator and uses a
single copy-or-self assignment.

Compares Dataset.crop with a verbatim copy of the original on 1..5-D datasets (length-1
axes, several dtypes, subclasses incl. Dataset4dstem with a virtual detector), for
axes=None / int / float / tuple / negative / duplicate / out-of-range axes, zero and
negative stops, numpy-int widths, malformed widths, in place and copying, then asserts
the copy/in-place part of the property (source bit-identical, identical results,
one calibration entry per axis) over multi-step sequences.
"""
import itertools
import warnings

import numpy as np

from quantem.core.datastructures.dataset import Dataset
from quantem.core.datastructures.dataset2d import Dataset2d
from quantem.core.datastructures.dataset3d import Dataset3d
from quantem.core.datastructures.dataset4d import Dataset4d
from quantem.core.datastructures.dataset4dstem import Dataset4dstem

warnings.simplefilter("ignore")


def old_crop(self, crop_widths, axes=None, modify_in_place=False):
    if axes is None:
        if len(crop_widths) != self.ndim:
            raise ValueError("crop_widths must match number of dimensions when axes is None.")
        axes = tuple(range(self.ndim))
    elif isinstance(axes, int | float):
        axes = (int(axes),)
        crop_widths = (crop_widths[0],)  # Take first crop_width for single axis
    else:
        axes = tuple(int(a) for a in axes)

    if len(crop_widths) != len(axes):
        raise ValueError("Length of crop_widths must match length of axes.")

    full_slices = []
    crop_dict = dict(zip(axes, crop_widths))
    for axis, _ in enumerate(self.shape):
        if axis in crop_dict:
            before, after = crop_dict[axis]
            start = before
            stop = after if after != 0 else None
            full_slices.append(slice(start, stop))
        else:
            full_slices.append(slice(None))

    if modify_in_place is False:
        dataset = self.copy()
        dataset.array = dataset.array[tuple(full_slices)]
        return dataset

    self.array = self.array[tuple(full_slices)]
    return None


def snapshot(ds):
    if ds is None:
        return None
    extra = ()
    if isinstance(ds, Dataset4dstem):
        extra = (
            tuple(sorted((k, str(v)) for k, v in ds._virtual_detectors.items())),
            tuple(sorted(ds._virtual_images)),
        )
    return (
        type(ds), ds.array.shape, ds.array.dtype, ds.array.tobytes(), ds.name,
        ds.origin.dtype, ds.origin.tobytes(), ds.sampling.dtype, ds.sampling.tobytes(),
        tuple(ds.units), ds.signal_units, tuple(sorted(ds.metadata.items(), key=str)), ds.file_path,
    ) + extra


def make(cls, shape, dtype):
    nd = len(shape)
    arr = (np.arange(int(np.prod(shape))).reshape(shape) % 251).astype(dtype)
    ds = cls.from_array(arr, name="d", origin=np.linspace(-1.5, 2.5, nd),
                        sampling=np.linspace(0.1, 0.7, nd),
                        units=[f"u{k}" for k in range(nd)], signal_units="e")
    if cls is Dataset4dstem:
        ds._virtual_detectors["bf"] = {"mask": None, "mode": "circle", "geometry": ((1, 1), 1)}
    return ds


def outcome(fn, cls, shape, dtype, args, kwargs):
    ds = make(cls, shape, dtype)
    before = snapshot(ds)
    try:
        res = fn(ds, *args, **kwargs)
    except Exception as e:  # noqa: BLE001
        return ("exc", type(e), str(e), snapshot(ds)), ds, None, before
    return ("ok", snapshot(res), snapshot(ds)), ds, res, before


configs = [
    (Dataset, (6,), np.float32), (Dataset, (1,), np.int16), (Dataset2d, (5, 4), np.float64),
    (Dataset2d, (1, 7), np.uint8), (Dataset, (3, 5), np.complex64), (Dataset3d, (4, 1, 3), np.float32),
    (Dataset3d, (2, 3, 5), np.int32), (Dataset4d, (2, 3, 4, 5), np.float32),
    (Dataset4dstem, (3, 2, 4, 5), np.float32), (Dataset4dstem, (1, 2, 1, 3), np.uint16),
    (Dataset, (2, 1, 3, 2, 2), np.float32),
]
widths = [(0, 0), (1, 0), (0, 1), (1, 3), (0, -1), (1, -1), (2, 2), (5, 1), (-2, 0), (None, None),
          (np.int64(1), np.int64(0)), [1, 2], (0, 100), (1,), (1, 2, 3), 3, "ab", (0.0, 0), (1, 2.0)]

n_cmp = n_ok = 0
for cls, shape, dtype in configs:
    nd = len(shape)
    calls = []
    # axes=None: every axis gets a width (sample a spread of width tuples)
    for k, w in enumerate(widths):
        cw = tuple(widths[(k + a) % len(widths)] for a in range(nd))
        calls.append(((cw,), {}))
        calls.append(((list(cw),), {}))
    calls.append(((((0, 0),) * (nd + 1),), {}))        # wrong length
    calls.append((((),), {}))
    # single axis given as int / float / numpy int / negative / out of range
    for ax in [0, nd - 1, -1, nd, 0.0, float(nd - 1), True]:
        for w in widths:
            calls.append((((w,),), {"axes": ax}))
            calls.append((((w, (1, 0)),), {"axes": ax}))
    calls.append((((),), {"axes": 0}))
    # tuples of axes incl. duplicates, unordered, negative, out of range, mismatched lengths
    axes_sets = [(0,), (nd - 1,), (nd - 1, 0), (0, 0), (-1,), (0, -1), (nd,), (0, nd), [0], (0.0,),
                 tuple(range(nd)), tuple(reversed(range(nd))), (), ("0",), ("a",), np.arange(min(nd, 2))]
    for axs in axes_sets:
        for k, w in enumerate(widths):
            cw = tuple(widths[(k + 3 * a) % len(widths)] for a in range(len(axs)))
            calls.append(((cw,), {"axes": axs}))
        calls.append(((((1, 0),) * (len(axs) + 1),), {"axes": axs}))
    for (args, kwargs), inplace in itertools.product(calls, (False, True, 0, 1, None)):
        kw = dict(kwargs, modify_in_place=inplace)
        a, _, _, _ = outcome(old_crop, cls, shape, dtype, args, kw)
        b, ds, res, before = outcome(lambda d, *aa, **kk: d.crop(*aa, **kk), cls, shape, dtype, args, kw)
        assert a == b, (cls, shape, args, kw, a, b)
        n_cmp += 1
        if b[0] == "ok":
            n_ok += 1
            if inplace is False:
                assert res is not ds and type(res) is type(ds)
                assert snapshot(ds) == before, "source modified by copying crop"
                assert not np.shares_memory(res.array, ds.array)
                out = res
            else:
                assert res is None
                out = ds
            assert len(out.origin) == len(out.sampling) == len(out.units) == out.ndim == nd

# in-place and copying variants agree, also inside longer histories
for cls, shape, dtype in configs:
    nd = len(shape)
    cw = tuple((1 if n > 2 else 0, -1 if n > 3 else 0) for n in shape)
    a = make(cls, shape, dtype)
    b = make(cls, shape, dtype)
    a1 = a.pad(1).crop(cw).bin(1)
    a2 = a1.crop(((0, 0),), axes=nd - 1)[...]
    b.pad(1, modify_in_place=True)
    b.crop(cw, modify_in_place=True)
    b.bin(1, modify_in_place=True)
    b.crop(((0, 0),), axes=nd - 1, modify_in_place=True)
    assert np.array_equal(a2.array, b.array) and a2.array.dtype == b.array.dtype
    assert np.array_equal(a2.origin, b.origin) and np.array_equal(a2.sampling, b.sampling)
    assert a2.units == b.units and type(a2) is type(b)
    assert np.array_equal(a2.array, np.pad(make(cls, shape, dtype).array, 1)[
        tuple(slice(s, e if e != 0 else None) for s, e in cw)])

assert n_ok > 1000
print(f"PASS ({n_cmp} old == new crop comparisons, {n_ok} succeeded / {n_cmp - n_ok} raised identically)")
