"""Demo for C10 patch 2: ProbeConstraints._probe_orthogonalization_constraint.

For mixed-state probe stacks with 1..5 linearly independent (and strongly correlated) modes, odd
and non-square shapes, wildly different mode intensities, both complex precisions:
 (a) the returned modes are mutually orthogonal, carry the same multiset of mode intensities as the
     input and are sorted by intensity in descending order;
 (b) values AND gradients are bit-identical to a verbatim copy of the ORIGINAL implementation.
CPU only, a few seconds, writes nothing.
"""

import warnings

import numpy as np
import torch

from quantem.diffractive_imaging.probe_models import ProbePixelated

warnings.filterwarnings("ignore")
torch.set_num_threads(1)  # tiny arrays: thread fan-out only costs time


# ---- verbatim copy of the original method -------------------------------------------------
def orig_probe_orthogonalization_constraint(self, start_probe):
    ### this is not very efficient with Adam, should find a better way
    n_probes = start_probe.shape[0]
    orthogonal_probes = []
    # Equivalent to torch.norm(..., dim=(-2,-1), keepdim=True)
    # original_norms = torch.norm(start_probe, dim=(-2, -1), keepdim=True)
    original_norms = torch.sqrt(
        torch.sum(
            start_probe.real.square() + start_probe.imag.square(), dim=(-2, -1), keepdim=True
        )
    )

    # Apply Gram-Schmidt process
    for i in range(n_probes):
        probe_i = start_probe[i]

        # Subtract projections onto previously computed orthogonal probes
        for j in range(len(orthogonal_probes)):
            projection = torch.sum(orthogonal_probes[j].conj() * probe_i) * orthogonal_probes[j]
            probe_i = probe_i - projection

        # norm = torch.norm(probe_i)
        norm = torch.sqrt(torch.sum(probe_i.real.square() + probe_i.imag.square())).clamp_min(
            1e-12
        )
        orthogonal_probes.append(probe_i / norm)

    orthogonal_probes = torch.stack(orthogonal_probes)
    orthogonal_probes = orthogonal_probes * original_norms.view(-1, 1, 1)

    # Sort probes by real-space intensity
    intensities = torch.sum(torch.abs(orthogonal_probes).square(), dim=(-2, -1))
    intensities_order = torch.argsort(intensities, descending=True)

    # MPS-safe fancy indexing
    real_sorted = orthogonal_probes.real[intensities_order]
    imag_sorted = orthogonal_probes.imag[intensities_order]
    orthogonal_probes_sorted = torch.complex(real_sorted, imag_sorted)

    return orthogonal_probes_sorted


# --------------------------------------------------------------------------------------------
def same(a, b):
    if a.shape != b.shape or a.dtype != b.dtype:
        return False
    if a.is_complex():
        a, b = torch.view_as_real(a), torch.view_as_real(b)
    return bool((torch.isnan(a) == torch.isnan(b)).all()) and torch.equal(
        torch.nan_to_num(a, nan=7.0), torch.nan_to_num(b, nan=7.0)
    )


def run(fn, stack):
    x = stack.clone().requires_grad_(True)
    try:
        out = fn(x)
    except Exception as e:  # noqa: BLE001
        return type(e), None
    w = torch.arange(1, out.numel() + 1, dtype=out.real.dtype).reshape(out.shape)
    loss = (out.abs() ** 2 * w).sum() + (out.real * w).sum() - (out.imag / w).sum()
    loss.backward()
    return out.detach(), x.grad


def make_stack(gen, n, shape, corr, dtype, scales):
    """n modes with pairwise correlation ~corr (shared component) and the given norms"""
    h, w = shape

    def crandn(*s):
        return torch.complex(
            torch.randn(*s, generator=gen, dtype=torch.float64),
            torch.randn(*s, generator=gen, dtype=torch.float64),
        )

    common = crandn(h, w)
    common = common / common.abs().square().sum().sqrt()
    modes = []
    for k in range(n):
        own = crandn(h, w)
        own = own - (common.conj() * own).sum() * common
        own = own / own.abs().square().sum().sqrt()
        m = np.sqrt(corr) * common + np.sqrt(1 - corr) * own
        modes.append(m * scales[k])
    return torch.stack(modes).to(dtype)


def check_property(out, stack, tag, tol):
    n = stack.shape[0]
    flat = out.reshape(n, -1).to(torch.complex128)
    gram = flat.conj() @ flat.T
    norms = gram.diagonal().real.sqrt()
    rel = gram.abs() / (norms[:, None] * norms[None, :]).clamp_min(1e-300)
    off = rel - torch.diag(rel.diagonal())
    assert float(off.max()) < tol, (tag, float(off.max()))
    inten_out = gram.diagonal().real
    inten_in = stack.reshape(n, -1).to(torch.complex128).abs().square().sum(1)
    # descending order (up to the working precision: equal-intensity modes may tie)
    assert bool((inten_out[:-1] >= inten_out[1:] * (1 - 10 * tol)).all()), (tag, inten_out)
    # same multiset of mode intensities
    assert torch.allclose(
        inten_out, torch.sort(inten_in, descending=True).values, rtol=50 * tol, atol=0
    ), (tag, inten_out, inten_in)


def main():
    gen = torch.Generator().manual_seed(2024)
    n_cmp = 0
    model = ProbePixelated.from_array(np.ones((2, 4, 4), dtype=np.complex64), rng=5)
    assert model.constraints["orthogonalize_probe"] is True

    def new(x):
        return model._probe_orthogonalization_constraint(x)

    def old(x):
        return orig_probe_orthogonalization_constraint(model, x)

    shapes = [(6, 8), (7, 5), (1, 9), (3, 3), (16, 11)]
    for dtype, tol in [(torch.complex64, 2e-4), (torch.complex128, 1e-10)]:
        for shape in shapes:
            for n in range(1, 6):
                for corr in [0.0, 0.5, 0.9, 0.99]:
                    for scales in (
                        [1.0] * n,
                        [0.02 * (k + 1) for k in range(n)],  # ascending -> must be re-sorted
                        [10.0 ** (2 - k) for k in range(n)],  # 5 decades
                        [3.0, 1e-3, 3.0, 7.0, 1e-3][:n],  # exact ties in the requested norms
                    ):
                        stack = make_stack(gen, n, shape, corr, dtype, scales)
                        tag = (dtype, shape, n, corr, scales)
                        v_new, g_new = run(new, stack)
                        v_old, g_old = run(old, stack)
                        assert not isinstance(v_old, type), tag
                        assert same(v_new, v_old), tag
                        assert same(g_new, g_old), tag
                        assert v_new.dtype == dtype and v_new.shape == stack.shape, tag
                        n_cmp += 1
                        check_property(v_new, stack, tag, tol)

    # repeated application (what an optimiser loop does: constrain, read, constrain again ...)
    stack = make_stack(gen, 4, (9, 7), 0.95, torch.complex64, [0.1, 2.0, 0.5, 1.0])
    a, b = stack, stack
    for _ in range(4):
        a, b = new(a), old(b)
        assert same(a, b)
        check_property(a, stack, "repeat", 2e-4)

    # through the public accessor / apply_hard_constraints switch
    arr = make_stack(gen, 3, (6, 10), 0.8, torch.complex64, [0.3, 1.0, 0.6])
    pm = ProbePixelated.from_array(arr.numpy(), rng=1)
    assert same(pm.probe.detach(), orig_probe_orthogonalization_constraint(pm, pm._probe).detach())
    check_property(pm.probe.detach(), arr, "accessor", 2e-4)
    pm.constraints = {"orthogonalize_probe": False}
    assert same(pm.probe.detach(), pm._probe.detach())

    # degenerate / bad inputs behave identically
    z = make_stack(gen, 3, (5, 4), 0.3, torch.complex64, [1.0, 1.0, 1.0])
    z[1] = 0  # a dead mode hits the clamp_min(1e-12) guard
    dup = z.clone()
    dup[1] = dup[0]  # linearly dependent pair (outside the property, but must not diverge)
    for bad in (z, dup):
        v_new, g_new = run(new, bad)
        v_old, g_old = run(old, bad)
        assert same(v_new, v_old) and same(g_new, g_old)
    for bad in (
        torch.randn(3, 4, 5, generator=gen),  # real dtype: .imag is not defined
        torch.zeros(0, 4, 5, dtype=torch.complex64),  # empty stack
        torch.zeros(5, dtype=torch.complex64),  # not a stack of 2D modes
    ):
        e_new, _ = run(new, bad)
        e_old, _ = run(old, bad)
        assert isinstance(e_old, type) and e_new is e_old, (e_new, e_old)

    assert n_cmp == 2 * len(shapes) * 5 * 4 * 4
    print(f"PASS  ({n_cmp} old/new value+gradient comparisons)")


if __name__ == "__main__":
    main()
