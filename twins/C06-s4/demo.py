"""C06 demo: pad / crop / bin / fourier_resample of quantem's Dataset.

Embeds VERBATIM copies of the original (worktree HEAD cb777aa) implementations of
Dataset.pad, Dataset.crop, Dataset.bin and Dataset.fourier_resample (as free functions
``orig_*`` taking ``self``) and asserts that the methods of the installed tree return
bit-for-bit the same result (array bytes, dtype, shape, strides, origin, sampling, name,
units; or the same exception type and message) on a spread of shapes, dtypes, axis
subsets, factors, output shapes and pad/crop widths.  It additionally asserts the
conservation laws of property C06 against float64 oracles.

Run as:  PYTHONPATH=<root>/src /venv/bin/python demo.py
"""

import itertools
import numbers
import warnings
from typing import Any, Optional, Self, Union

import numpy as np

from quantem.core.datastructures.dataset import Dataset

warnings.simplefilter("ignore")


# --------------------------------------------------------------------------------------
# verbatim copies of the ORIGINAL methods (only the def name is prefixed with orig_)
# --------------------------------------------------------------------------------------
def orig_pad(
    self,
    pad_width: int | tuple[int, int] | tuple[tuple[int, int], ...] | None = None,
    output_shape: tuple[int, ...] | None = None,
    modify_in_place: bool = False,
    **kwargs: Any,
) -> Self | None:
    """
    Pads Dataset data array using numpy.pad.
    Metadata (origin, sampling) is not modified.

    Parameters
    ----------
    pad_width: int, tuple
        Number of values padded to the edges of each axis. See numpy.pad documentation.
    output_shape: tuple of int, optional
        Convenience option to pad to a desired output shape by symmetric padding.
    modify_in_place: bool
        If True, modifies this dataset's array directly. If False, returns a new Dataset.
    kwargs: dict
        Additional keyword arguments passed to numpy.pad.

    Returns
    --------
    Dataset or None
        Padded Dataset if modify_in_place is False, otherwise None.
    """
    if pad_width is not None:
        if output_shape is not None:
            raise ValueError("pad_width and output_shape cannot both be specified.")
        padded_array = np.pad(self.array, pad_width=pad_width, **kwargs)
    elif output_shape is not None:
        if len(output_shape) != self.ndim:
            raise ValueError("output_shape must be a tuple of length ndim.")
        padded_array = np.pad(
            self.array,
            pad_width=[
                (
                    max(0, int(np.floor((output_shape[i] - self.shape[i]) / 2))),
                    max(0, int(np.ceil((output_shape[i] - self.shape[i]) / 2))),
                )
                for i in range(self.ndim)
            ],
            **kwargs,
        )
    else:
        raise ValueError("pad_width or output_shape must be specified.")

    if modify_in_place:
        self._array = padded_array
        return None

    new_dataset = self.copy()
    new_dataset.array = padded_array
    new_dataset.name = self.name + " (padded)"
    return new_dataset


def orig_crop(
    self,
    crop_widths: tuple[tuple[int, int], ...],
    axes: tuple | None = None,
    modify_in_place: bool = False,
) -> Self | None:
    """
    Crops Dataset

    Parameters
    ----------
    crop_widths:tuple
        Min and max for cropping each axis specified as a tuple
    axes:
        Axes over which to crop. If None specified, all are cropped.
    modify_in_place: bool
        If True, modifies dataset

    Returns
    --------
    Dataset (cropped) only if modify_in_place is False
    """
    if axes is None:
        if len(crop_widths) != self.ndim:
            raise ValueError("crop_widths must match number of dimensions when axes is None.")
        axes = tuple(range(self.ndim))
    elif isinstance(axes, int | float):
        axes = (int(axes),)
        crop_widths = (crop_widths[0],)  # Take first crop_width for single axis
    else:
        axes = tuple(int(a) for a in axes)

    if len(crop_widths) != len(axes):
        raise ValueError("Length of crop_widths must match length of axes.")

    full_slices = []
    crop_dict = dict(zip(axes, crop_widths))
    for axis, _ in enumerate(self.shape):
        if axis in crop_dict:
            before, after = crop_dict[axis]
            start = before
            stop = after if after != 0 else None
            full_slices.append(slice(start, stop))
        else:
            full_slices.append(slice(None))

    if modify_in_place is False:
        dataset = self.copy()
        dataset.array = dataset.array[tuple(full_slices)]
        return dataset

    self.array = self.array[tuple(full_slices)]
    return None


def orig_bin(
    self,
    bin_factors,
    axes=None,
    modify_in_place: bool = False,
    reducer: str = "sum",
) -> Self | None:
    """
    Bin the Dataset by integer factors along selected axes using block reduction.

    Parameters
    ----------
    bin_factors : int | tuple[int, ...]
        Bin factors per specified axis (positive integers).
    axes : int | tuple[int, ...] | None
        Axes to bin. If None, all axes are binned.
    modify_in_place : bool
        If True, modifies this dataset; otherwise returns a new Dataset.
    reducer : {"sum","mean"}
        Reduction applied within each block. "sum" (default) preserves counts;
        "mean" averages over each block (block volume = product of factors).

    Notes
    -----
    - Any remainder (shape % factor) is dropped on each binned axis.
    - Sampling is multiplied by the factor on each binned axis.
    - Origin is shifted to the center of the first block:
        origin_new = origin_old + 0.5 * (factor - 1) * sampling_old
    """
    reducer_norm = str(reducer).lower()
    if reducer_norm not in ("sum", "mean"):
        raise ValueError("reducer must be 'sum' or 'mean'")

    if axes is None:
        axes = tuple(range(self.ndim))
    elif isinstance(axes, int | float):
        axes = (int(axes),)
    else:
        axes = tuple(int(ax) for ax in axes)

    if isinstance(bin_factors, numbers.Integral):
        bin_factors = (int(bin_factors),) * len(axes)
    elif isinstance(bin_factors, (list, tuple)):
        if len(bin_factors) != len(axes):
            raise ValueError("bin_factors and axes must have the same length.")
        for fac in bin_factors:
            if not isinstance(fac, numbers.Integral):
                raise TypeError(f"Each bin factor must be an integer, got {fac!r}")
        bin_factors = tuple(int(fac) for fac in bin_factors)
    else:
        raise TypeError("bin_factors must be an int or tuple of ints.")

    if any(fac <= 0 for fac in bin_factors):
        raise ValueError("All bin factors must be positive integers.")

    axis_to_factor = dict(zip(axes, bin_factors))

    slices = []
    effective_lengths = []
    for a0 in range(self.ndim):
        if a0 in axis_to_factor:
            fac = axis_to_factor[a0]
            length_eff = (self.shape[a0] // fac) * fac
            slices.append(slice(0, length_eff))
            effective_lengths.append(length_eff)
        else:
            slices.append(slice(None))
            effective_lengths.append(self.shape[a0])

    reshape_dims = []
    reduce_axes = []
    running_axis = 0
    for a1 in range(self.ndim):
        if a1 in axis_to_factor:
            fac = axis_to_factor[a1]
            nblocks = effective_lengths[a1] // fac
            reshape_dims.extend([nblocks, fac])
            reduce_axes.append(running_axis + 1)
            running_axis += 2
        else:
            reshape_dims.append(effective_lengths[a1])
            running_axis += 1

    array_view = self.array[tuple(slices)].reshape(tuple(reshape_dims))
    array_binned = np.sum(array_view, axis=tuple(reduce_axes))
    if reducer_norm == "mean":
        block_volume = 1
        for fac_b in axis_to_factor.values():
            block_volume *= fac_b
        array_binned = array_binned / block_volume

    new_sampling = self.sampling.astype(float).copy()
    new_origin = self.origin.astype(float).copy()
    for ax_binned, fac_binned in axis_to_factor.items():
        old_sampling = new_sampling[ax_binned]
        new_sampling[ax_binned] = old_sampling * fac_binned
        new_origin[ax_binned] = new_origin[ax_binned] + 0.5 * (fac_binned - 1) * old_sampling

    if modify_in_place:
        self._array = array_binned
        self._sampling = new_sampling
        self._origin = new_origin
        return None

    dataset = self.copy()
    dataset.array = array_binned
    dataset.sampling = new_sampling
    dataset.origin = new_origin

    factors_str = " ".join(
        f"{axis_to_factor[a2]:.3g}" if a2 in axis_to_factor else "1" for a2 in range(self.ndim)
    )
    suffix = f"(binned factors {factors_str}" + (", mean)" if reducer_norm == "mean" else ")")
    dataset.name = f"{self.name} {suffix}"
    return dataset


def orig_fourier_resample(
    self,
    out_shape: Optional[tuple[int, ...]] = None,
    factors: Optional[Union[float, tuple[float, ...]]] = None,
    axes: Optional[tuple[int, ...]] = None,
    modify_in_place: bool = False,
) -> Optional["Dataset"]:
    """
    Fourier resample the dataset by centered cropping (downsample) or zero padding (upsample).
    The operation is performed in the Fourier domain using fftshift alignment and default FFT
    normalization. The physical center is preserved and the mean intensity is kept constant.

    Parameters
    ----------
    out_shape : tuple of int, optional
        Output lengths for the selected axes. Must have the same length as `axes`.
        Use this when specifying the exact output shape.
    factors : float or tuple of float, optional
        Multiplicative resampling factors for each axis. A scalar factor is applied
        to all axes. Use this when specifying scaling rather than absolute size.
        Exactly one of `out_shape` or `factors` must be provided.
    axes : tuple of int, optional
        Axes to resample. Defaults to all axes. A scalar is interpreted as a single axis.
    modify_in_place : bool
        If True, update the dataset in place and return None.
        If False, return a new Dataset with the resampled array and updated metadata.

    Returns
    -------
    Dataset or None
        A new resampled dataset if `modify_in_place` is False, otherwise None.
    """
    if axes is None:
        axes = tuple(range(self.ndim))
    elif isinstance(axes, int | float):
        axes = (int(axes),)
    else:
        axes = tuple(int(a0) for a0 in axes)

    if (out_shape is None) == (factors is None):
        raise ValueError("Specify exactly one of out_shape or factors.")

    # Resolve out_shape & factors
    if factors is not None:
        if isinstance(factors, int | float):
            factors = (float(factors),) * len(axes)
        else:
            factors = tuple(float(f) for f in factors)
            if len(factors) != len(axes):
                raise ValueError("factors length must match number of axes.")
        out_shape = tuple(
            max(1, int(round(self.shape[a1] * f))) for a1, f in zip(axes, factors)
        )
    else:
        assert out_shape is not None  # Guaranteed by check above
        if len(out_shape) != len(axes):
            raise ValueError("out_shape length must match number of axes.")
        out_shape = tuple(int(nl) for nl in out_shape)
        factors = tuple(out_len / self.shape[a2] for a2, out_len in zip(axes, out_shape))

    if any(nl < 1 for nl in out_shape):
        raise ValueError("All output lengths must be >= 1.")

    def _shift_center_index(n: int) -> int:
        # index of DC after fftshift: n//2 for even, (n-1)//2 for odd
        return n // 2 if (n % 2 == 0) else (n - 1) // 2

    # Forward FFT (default normalization: forward unscaled, inverse 1/N)
    F = np.fft.fftn(self.array, axes=axes)
    F = np.fft.fftshift(F, axes=axes)

    # Center-aligned crop/pad per axis (so DC stays centered)
    axis_to_outlen = dict(zip(axes, out_shape))
    slices: list[slice] = []
    pad_specs: list[tuple[int, int]] = []
    for a3 in range(self.ndim):
        if a3 in axis_to_outlen:
            old_len = self.shape[a3]
            new_len = axis_to_outlen[a3]
            oc = _shift_center_index(old_len)
            nc = _shift_center_index(new_len)

            if new_len < old_len:
                start = oc - nc
                end = start + new_len
                slices.append(slice(start, end))
                pad_specs.append((0, 0))
            elif new_len > old_len:
                slices.append(slice(None))
                before = nc - oc
                after = new_len - old_len - before
                pad_specs.append((before, after))
            else:
                slices.append(slice(None))
                pad_specs.append((0, 0))
        else:
            slices.append(slice(None))
            pad_specs.append((0, 0))

    F_rs = F[tuple(slices)]
    if any(pw != (0, 0) for pw in pad_specs):
        F_rs = np.pad(F_rs, pad_specs, mode="constant")

    # Inverse FFT
    F_rs = np.fft.ifftshift(F_rs, axes=axes)
    array_resampled = np.fft.ifftn(F_rs, axes=axes)

    if np.isrealobj(self.array):
        array_resampled = array_resampled.real

    # Mean preservation with default FFTs:
    # ones -> F(0)=N_in, IFFT size N_out -> constant N_in/N_out; multiply by N_out/N_in.
    N_in = int(np.prod([self.shape[a4] for a4 in axes]))
    N_out = int(np.prod([axis_to_outlen[a5] for a5 in axes]))
    if N_in > 0 and N_out > 0:
        array_resampled *= N_out / N_in

    # Metadata (ensure float arrays to avoid truncation)
    new_sampling = self.sampling.astype(float).copy()
    for a6, out_len in zip(axes, out_shape):
        fac_actual = out_len / self.shape[a6]
        new_sampling[a6] = new_sampling[a6] / fac_actual

    new_origin = self.origin.astype(float).copy()
    for a7, out_len in zip(axes, out_shape):
        old_len = self.shape[a7]
        old_center_idx = (old_len - 1) / 2.0
        new_center_idx = (out_len - 1) / 2.0
        old_sampling = self.sampling[a7]
        new_origin[a7] = (
            self.origin[a7] + old_center_idx * old_sampling - new_center_idx * new_sampling[a7]
        )

    if modify_in_place:
        self._array = array_resampled
        self._sampling = new_sampling
        self._origin = new_origin
        return None

    ds = self.copy()
    ds.array = array_resampled
    ds.sampling = new_sampling
    ds.origin = new_origin
    return ds


# --------------------------------------------------------------------------------------
# harness
# --------------------------------------------------------------------------------------
RNG = np.random.default_rng(20240606)
N_CASES = {"pad": 0, "crop": 0, "bin": 0, "fourier_resample": 0}
N_RAISED = {"pad": 0, "crop": 0, "bin": 0, "fourier_resample": 0}
ORIG = {
    "pad": orig_pad,
    "crop": orig_crop,
    "bin": orig_bin,
    "fourier_resample": orig_fourier_resample,
}


def make_array(shape, dtype):
    dtype = np.dtype(dtype)
    if dtype.kind in "iu":
        info = np.iinfo(dtype)
        lo = max(info.min, -100)
        hi = min(info.max, 100)
        return RNG.integers(lo, hi, size=shape, endpoint=True).astype(dtype)
    if dtype.kind == "c":
        return (RNG.standard_normal(shape) + 1j * RNG.standard_normal(shape)).astype(dtype)
    return (RNG.standard_normal(shape) * 10.0).astype(dtype)


def make_ds(arr, seed=0):
    nd = arr.ndim
    origin = [0.25 * (k + 1) - 1.0 + 0.1 * seed for k in range(nd)]
    sampling = [0.5 + 0.3 * k + 0.07 * seed for k in range(nd)]
    units = ["nm", "A", "mrad", "px"][:nd]
    return Dataset.from_array(
        arr.copy(), name="demo", origin=origin, sampling=sampling, units=units, signal_units="e"
    )


def snap(ds):
    a = ds.array
    return (
        type(ds).__name__,
        a.dtype.str,
        a.shape,
        a.strides,
        a.tobytes(),
        np.asarray(ds.origin).dtype.str,
        np.asarray(ds.origin).tobytes(),
        np.asarray(ds.sampling).dtype.str,
        np.asarray(ds.sampling).tobytes(),
        ds.name,
        tuple(ds.units),
        ds.signal_units,
    )


def outcome(fn, ds, args, kwargs):
    try:
        res = fn(ds, *args, **kwargs)
    except Exception as exc:  # compare type + message
        return ("raised", type(exc).__name__, str(exc), snap(ds))
    if res is None:
        return ("none", snap(ds))
    assert res is not ds
    # the result must not alias the input's buffer
    assert not np.shares_memory(res.array, ds.array)
    return ("ds", snap(res), snap(ds))


def check(name, arr, *args, **kwargs):
    """new (installed method) vs embedded original, bit for bit; returns the new result."""
    new_fn = getattr(Dataset, name)
    o_new = outcome(new_fn, make_ds(arr), args, kwargs)
    o_old = outcome(ORIG[name], make_ds(arr), args, kwargs)
    assert o_new == o_old, (name, arr.shape, arr.dtype, args, kwargs, o_new[:3], o_old[:3])
    N_CASES[name] += 1
    if o_new[0] == "raised":
        N_RAISED[name] += 1
        return None
    ds = make_ds(arr)
    res = new_fn(ds, *args, **kwargs)
    return ds if res is None else res


SHAPES = [(1,), (7,), (8,), (5, 6), (7, 7), (1, 9), (4, 5, 6), (3, 1, 8), (2, 3, 4, 5), (3, 4, 5, 7)]
DTYPES = ["int8", "uint16", "int32", "int64", "float32", "float64", "complex64", "complex128"]


# ---------------------------------------------------------------- pad / crop ----------
def wrap_elems(shape_tuple, how):
    if how == "int":
        return tuple(int(v) for v in shape_tuple)
    if how == "list":
        return [int(v) for v in shape_tuple]
    if how == "float":
        return tuple(float(v) for v in shape_tuple)
    if how == "half":  # non-integer floats
        return tuple(float(v) + 0.5 for v in shape_tuple)
    if how == "ndarray":
        return np.asarray(shape_tuple)
    return tuple(np.dtype(how).type(v) for v in shape_tuple)


def test_pad_crop():
    for shape in SHAPES:
        for dtype in ("int16", "float64", "complex64"):
            arr = make_array(shape, dtype)
            nd = arr.ndim
            deltas = [
                (0,) * nd,
                (1,) * nd,
                (2,) * nd,
                tuple(range(1, nd + 1)),
                tuple(3 * (k % 2) + 1 for k in range(nd)),
                tuple(5 - 3 * k for k in range(nd)),  # includes shrinking requests
                (-1,) * nd,
                (-2,) * nd,
                (7,) * nd,
            ]
            for delta in deltas:
                out = tuple(max(0, s + d) for s, d in zip(shape, delta))
                for how in ("int", "list", "float", "half", "ndarray", "int64", "int32",
                            "uint8", "uint64", "float32", "float16"):
                    if how.startswith("uint") and nd > 1 and any(o < s for o, s in zip(out, shape)):
                        continue  # unsigned wrap-around asks for a gigantic pad; 1-D only
                    for inplace in (False, True):
                        res = check("pad", arr, output_shape=wrap_elems(out, how),
                                    modify_in_place=inplace)
                        if how != "int" or res is None:
                            continue
                        # property: symmetric floor/ceil padding, then crop returns the data
                        widths = []
                        for s, o in zip(shape, out):
                            d = o - s
                            widths.append((max(0, int(np.floor(d / 2))), max(0, int(np.ceil(d / 2)))))
                        exp_shape = tuple(s + a + b for s, (a, b) in zip(shape, widths))
                        assert res.array.shape == exp_shape, (shape, out, res.array.shape)
                        assert all(a <= b <= a + 1 for a, b in widths)
                        cw = tuple((a, -b) for a, b in widths)
                        for inplace2 in (False, True):
                            back = check("crop", res.array, cw, modify_in_place=inplace2)
                            assert back.array.dtype == arr.dtype
                            assert np.array_equal(back.array, arr), (shape, out, cw)
            # other np.pad modes and the pad_width path
            out = tuple(s + 3 for s in shape)
            for kw in ({"mode": "edge"}, {"mode": "constant", "constant_values": 3},
                       {"mode": "wrap"}, {"mode": "reflect"}):
                check("pad", arr, output_shape=out, **kw)
            for pw in (0, 1, (1, 2), (0, 3), tuple((k, k + 1) for k in range(nd)),
                       tuple((k % 2, 0) for k in range(nd)), tuple((0, 0) for _ in range(nd))):
                for inplace in (False, True):
                    res = check("pad", arr, pad_width=pw, modify_in_place=inplace)
                    if res is None:
                        continue
                    full = np.broadcast_to(np.asarray(pw), (nd, 2))
                    cw = tuple((int(a), -int(b)) for a, b in full)
                    back = check("crop", res.array, cw)
                    assert np.array_equal(back.array, arr)
                    # crop along an axis subset, untouched axes keep the padding
                    for r in range(1, nd + 1):
                        for axes in itertools.combinations(range(nd), r):
                            sub = tuple(cw[a] for a in axes)
                            part = check("crop", res.array, sub, axes=axes)
                            for a in range(nd):
                                exp = arr.shape[a] if a in axes else res.array.shape[a]
                                assert part.array.shape[a] == exp
            # error paths
            check("pad", arr)
            check("pad", arr, pad_width=1, output_shape=out)
            check("pad", arr, output_shape=out + (3,))
            check("pad", arr, output_shape=out[:-1])
            check("pad", arr, output_shape=tuple(float("nan") for _ in out))
            check("pad", arr, output_shape=tuple(float("inf") for _ in out))
            check("pad", arr, output_shape=tuple(-np.inf for _ in out))
            check("pad", arr, output_shape=tuple(np.float32("inf") for _ in out))
            check("pad", arr, output_shape=tuple(2**70 for _ in out))
            check("pad", arr, output_shape=tuple(None for _ in out))
            check("pad", arr, output_shape=tuple("8" for _ in out))
            check("pad", arr, output_shape=tuple(1j for _ in out))


def test_crop_direct():
    stops = [0, -1, -2, 1, 3, None, np.int64(0), np.int64(-1), np.int32(2), np.uint8(0),
             np.uint8(3), False, True, 0.0, -0.0, 2.0, float("nan"), 100, -100]
    starts = [0, 1, 2, -1, None, np.int64(1), np.uint8(0), 50]
    for shape in [(7,), (5, 6), (4, 5, 6), (2, 3, 4, 5)]:
        arr = make_array(shape, "float32")
        nd = arr.ndim
        for st in starts:
            for sp in stops:
                for inplace in (False, True):
                    cw = tuple((st, sp) for _ in range(nd))
                    check("crop", arr, cw, modify_in_place=inplace)
                    check("crop", arr, [list(c) for c in cw], modify_in_place=inplace)
                    check("crop", arr, cw, axes=0, modify_in_place=inplace)
                    check("crop", arr, cw[:1], axes=(nd - 1,), modify_in_place=inplace)
                    check("crop", arr, cw[:1], axes=(-1,), modify_in_place=inplace)
                    check("crop", arr, cw[:1], axes=1.0, modify_in_place=inplace)
        # modify_in_place spellings that are not the bool singletons
        for flag in (0, 1, None, np.False_, np.True_, "no"):
            check("crop", arr, tuple((1, -1) for _ in range(nd)), modify_in_place=flag)
        # error paths
        check("crop", arr, ((1, -1),) * (nd + 1))
        check("crop", arr, ((1, -1),), axes=(0, 1)[: max(2, nd)])
        check("crop", arr, ((1, -1, 3),) * nd)
        check("crop", arr, ((1,),) * nd)
        check("crop", arr, (((1, 2), (0, 0)),) * nd)
        check("crop", arr, (("", ""),) * nd)


# ---------------------------------------------------------------- bin -----------------
def bin_oracle(arr, axis_to_factor, reducer):
    a = arr.astype(np.complex128 if arr.dtype.kind == "c" else np.float64)
    for ax, f in axis_to_factor.items():
        n = a.shape[ax] // f
        a = np.moveaxis(a, ax, 0)[: n * f]
        a = a.reshape((n, f) + a.shape[1:]).sum(axis=1)
        a = np.moveaxis(a, 0, ax)
    if reducer == "mean":
        a = a / float(np.prod(list(axis_to_factor.values()) or [1]))
    return a


def test_bin():
    for shape in SHAPES:
        nd = len(shape)
        axes_sets = [None] + [c for r in range(1, nd + 1) for c in itertools.combinations(range(nd), r)]
        for dtype in DTYPES:
            arr = make_array(shape, dtype)
            for axes in axes_sets:
                n_ax = nd if axes is None else len(axes)
                fac_sets = [1, 2, 3, 4, tuple(1 + (k % 3) for k in range(n_ax)),
                            tuple(3 - (k % 3) for k in range(n_ax)), [2] * n_ax,
                            tuple(np.int64(2) for _ in range(n_ax))]
                for fac in fac_sets:
                    for reducer in ("sum", "mean"):
                        for inplace in (False, True):
                            res = check("bin", arr, fac, axes=axes, modify_in_place=inplace,
                                        reducer=reducer)
                            if res is None:
                                continue
                            ax_t = tuple(range(nd)) if axes is None else axes
                            fs = (int(fac),) * n_ax if isinstance(fac, numbers.Integral) else tuple(int(f) for f in fac)
                            a2f = dict(zip(ax_t, fs))
                            ref = bin_oracle(arr, a2f, reducer.lower())
                            assert res.array.shape == ref.shape, (shape, fac, axes)
                            tol = 1e-4 if arr.dtype.itemsize <= 8 and arr.dtype.kind in "fc" else 1e-9
                            if arr.dtype.kind in "iu" and reducer == "sum":
                                assert np.array_equal(res.array, ref)
                            else:
                                assert np.allclose(res.array, ref, rtol=tol, atol=tol * 100)
                            src = make_ds(arr)
                            for a in range(nd):
                                f = a2f.get(a, 1)
                                assert np.isclose(res.sampling[a], src.sampling[a] * f)
                                # block centres keep their physical coordinate
                                first = src.origin[a] + src.sampling[a] * np.arange(f)
                                if shape[a] >= f:
                                    assert np.isclose(res.origin[a], first.mean())
            # odd spellings and error paths (identical exceptions required)
            check("bin", arr, 2, axes=0)
            check("bin", arr, 2, axes=0.0)
            check("bin", arr, 2, axes=(-1,))
            check("bin", arr, (2, 3), axes=(-1, nd - 1))
            check("bin", arr, (3, 2), axes=(nd - 1, -1))
            check("bin", arr, (2, 3), axes=(0, 0))
            check("bin", arr, 2, axes=(nd,))
            check("bin", arr, 2, axes=(-nd - 1,))
            check("bin", arr, 0)
            check("bin", arr, -2)
            check("bin", arr, 2.0)
            check("bin", arr, (2,) * (nd + 1))
            check("bin", arr, (2.5,) * nd)
            check("bin", arr, 2, reducer="median")
            check("bin", arr, 2, reducer="MEAN")
            check("bin", arr, 3, reducer="Sum", modify_in_place=True)
            check("bin", arr, 100)
            check("bin", arr, (), axes=())


# ---------------------------------------------------------------- fourier -------------
def test_fourier():
    shapes = [(1,), (7,), (8,), (5, 6), (7, 7), (1, 9), (4, 5, 6), (2, 3, 4, 5)]
    for shape in shapes:
        nd = len(shape)
        axes_sets = [None] + [c for r in range(1, nd + 1) for c in itertools.combinations(range(nd), r)]
        for dtype in ("int16", "int64", "float32", "float64", "complex64", "complex128"):
            arr = make_array(shape, dtype)
            for axes in axes_sets:
                ax_t = tuple(range(nd)) if axes is None else axes
                n_ax = len(ax_t)
                outs = [
                    tuple(shape[a] for a in ax_t),
                    tuple(shape[a] + 1 for a in ax_t),
                    tuple(max(1, shape[a] - 1) for a in ax_t),
                    tuple(2 * shape[a] for a in ax_t),
                    tuple(2 * shape[a] + 1 for a in ax_t),
                    tuple(max(1, shape[a] // 2) for a in ax_t),
                    tuple(shape[a] + (3 if k % 2 else -2) if shape[a] > 2 else 4 for k, a in enumerate(ax_t)),
                    tuple(1 for _ in ax_t),
                ]
                for out in outs:
                    for inplace in (False, True):
                        res = check("fourier_resample", arr, out_shape=out, axes=axes,
                                    modify_in_place=inplace)
                        assert res is not None
                        src = make_ds(arr)
                        exp_shape = list(shape)
                        for a, o in zip(ax_t, out):
                            exp_shape[a] = o
                        assert res.array.shape == tuple(exp_shape)
                        # mean, extent and centre are preserved
                        assert np.allclose(res.array.mean(), arr.mean(), rtol=1e-4, atol=1e-3)
                        for a in range(nd):
                            assert np.isclose(res.sampling[a] * res.shape[a], src.sampling[a] * shape[a])
                            c_old = src.origin[a] + 0.5 * (shape[a] - 1) * src.sampling[a]
                            c_new = res.origin[a] + 0.5 * (res.shape[a] - 1) * res.sampling[a]
                            assert np.isclose(c_old, c_new)
                        if tuple(exp_shape) == shape:
                            assert np.allclose(res.array, arr, rtol=1e-4, atol=1e-3)
                facs = [1.0, 2, 0.5, 1.5, 0.3, tuple(1.0 + 0.5 * (k % 3) for k in range(n_ax)),
                        [0.75] * n_ax, 1e-9]
                for fac in facs:
                    for inplace in (False, True):
                        check("fourier_resample", arr, factors=fac, axes=axes, modify_in_place=inplace)
            # up-sampling then down-sampling returns the data (odd lengths: no Nyquist bin)
            if all(s % 2 == 1 for s in shape) and np.dtype(dtype).kind in "fc":
                up = check("fourier_resample", arr, out_shape=tuple(2 * s + 1 for s in shape))
                down = check("fourier_resample", up.array, out_shape=shape)
                assert np.allclose(down.array, arr, rtol=1e-3, atol=1e-3)
            # odd spellings and error paths
            check("fourier_resample", arr, out_shape=(4,), axes=0)
            check("fourier_resample", arr, out_shape=(4,), axes=0.0)
            check("fourier_resample", arr, out_shape=(4,), axes=(-1,))
            check("fourier_resample", arr, out_shape=(4, 5), axes=(0, 0))
            check("fourier_resample", arr, out_shape=(4.0,), axes=(0,))
            check("fourier_resample", arr, out_shape=(np.int64(4),), axes=(0,))
            check("fourier_resample", arr, out_shape=(4,), axes=(nd,))
            check("fourier_resample", arr, out_shape=(0,), axes=(0,))
            check("fourier_resample", arr, out_shape=(-3,), axes=(0,))
            check("fourier_resample", arr, out_shape=(4,) * (nd + 1))
            check("fourier_resample", arr, factors=(2.0,) * (nd + 1))
            check("fourier_resample", arr)
            check("fourier_resample", arr, out_shape=shape, factors=1.0)
            check("fourier_resample", arr, out_shape=(), axes=())
            check("fourier_resample", arr, factors=0.0)
            check("fourier_resample", arr, factors=-1.0)
    # empty arrays are rejected identically
    for shape in [(0,), (0, 4), (3, 0)]:
        arr = np.zeros(shape)
        check("fourier_resample", arr, out_shape=tuple(4 for _ in shape))
        check("fourier_resample", arr, factors=2.0)
        check("bin", arr, 2)
        check("pad", arr, output_shape=tuple(4 for _ in shape))
        check("crop", arr, tuple((0, 0) for _ in shape))


if __name__ == "__main__":
    test_pad_crop()
    test_crop_direct()
    test_bin()
    test_fourier()
    for k in N_CASES:
        assert N_CASES[k] > 100, (k, N_CASES)
        assert N_RAISED[k] < N_CASES[k] // 2, (k, N_CASES, N_RAISED)
    print("cases:", N_CASES)
    print("of which raised identically:", N_RAISED)
    print("OK")
