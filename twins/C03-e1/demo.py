"""Demo for patch 1: validate_ndinfo branch merge (validators.py).

Compares the installed validate_ndinfo against a verbatim copy of the original on a
spread of inputs (scalars, sequences, arrays, bad types, wrong lengths, non-numeric
values, explicit dtypes) and then checks the Dataset calibration setters keep exactly
one entry per axis for 1..5-D arrays.
"""
import itertools
import warnings

import numpy as np

from quantem.core.datastructures.dataset import Dataset
from quantem.core.datastructures import dataset2d, dataset3d, dataset4d  # noqa: F401 (registry)
from quantem.core.utils.validators import validate_ndinfo as new_validate_ndinfo


def old_validate_ndinfo(value, ndim, name, dtype=None):
    if np.isscalar(value):
        arr = np.full(ndim, value, dtype=dtype)
        if not np.issubdtype(arr.dtype, np.number):
            raise ValueError(f"{name} must contain numeric values")
        return arr
    elif not isinstance(value, (np.ndarray, tuple, list)):
        raise TypeError(f"{name} must be a numpy array, tuple, list, or scalar, got {type(value)}")

    try:
        arr = np.array(value, dtype=dtype).flatten()
    except (ValueError, TypeError) as e:
        raise TypeError(f"Could not convert {name} to a 1D numeric NumPy array: {e}")

    if len(arr) != ndim:
        raise ValueError(f"Length of {name} ({len(arr)}) must match data ndim ({ndim})")

    if not np.issubdtype(arr.dtype, np.number):
        raise ValueError(f"{name} must contain numeric values")

    return arr


warnings.simplefilter("ignore")


def outcome(fn, *args, **kwargs):
    try:
        res = fn(*args, **kwargs)
    except Exception as e:  # noqa: BLE001
        return ("exc", type(e), str(e))
    return ("ok", type(res), res.dtype, res.shape, res.tobytes())


values = [
    0, 1, -3, 2.5, np.float32(1.5), np.int16(7), np.uint8(3), True, np.bool_(False), 1 + 2j,
    "a", "1.0", b"x", None, {"a": 1}, {1, 2}, range(3), object(),
    [], (), [1], (1,), [1, 2], (1.0, 2.0), [1, 2, 3], (1, 2, 3, 4), [1, 2, 3, 4, 5],
    [1.0, 2], [True, False], ["a", "b"], [1, "a"], [None, 1], [[1, 2], [3, 4]], [[1, 2], [3]],
    [[1, 2, 3]], [1 + 1j, 2], [np.nan, np.inf],
    np.zeros(0), np.zeros(1), np.ones(2), np.arange(3), np.arange(4, dtype=np.uint8),
    np.arange(6).reshape(2, 3), np.arange(6).reshape(2, 3)[:, ::2], np.array(3.0), np.array("s"),
    np.array(["a", "b"]), np.array([1, 2], dtype=object), np.array([True, False]),
    np.array([1.0, 2.0], dtype=np.float32), np.array([1, 2], dtype=np.complex64),
    np.float64(2.0), np.array([5])[0], np.str_("q"), np.datetime64("2020-01-01"),
]
dtypes = [None, float, int, np.float32, np.uint8, complex, str, bool]
n_cases = 0
for value, ndim, dtype in itertools.product(values, [0, 1, 2, 3, 4, 5, 6], dtypes):
    a = outcome(old_validate_ndinfo, value, ndim, "origin", dtype)
    b = outcome(new_validate_ndinfo, value, ndim, "origin", dtype)
    assert a == b, (value, ndim, dtype, a, b)
    n_cases += 1

# returned array must never alias the input (setter stores it)
src = np.array([1.0, 2.0, 3.0])
out = new_validate_ndinfo(src, 3, "sampling")
assert out is not src and not np.shares_memory(out, src)

# property-level check through the Dataset setters
rng = np.random.default_rng(0)
shapes = [(5,), (1,), (3, 4), (1, 7), (2, 3, 4), (3, 1, 2), (2, 3, 2, 5), (1, 2, 3, 1, 2)]
for shape in shapes:
    nd = len(shape)
    ds = Dataset.from_array(rng.random(shape).astype(np.float32))
    assert len(ds.origin) == len(ds.sampling) == len(ds.units) == nd
    for val in (2, 0.5, np.float32(3), list(range(1, nd + 1)), tuple(np.linspace(0, 1, nd)),
                np.arange(nd, dtype=np.int32)):
        ds.origin = val
        ds.sampling = val
        assert ds.origin.shape == (nd,) and ds.sampling.shape == (nd,)
        assert np.array_equal(ds.origin, old_validate_ndinfo(val, nd, "origin"))
        assert ds.origin.dtype == old_validate_ndinfo(val, nd, "origin").dtype
    before_o, before_s = ds.origin.copy(), ds.sampling.copy()
    for bad in (list(range(nd + 1)), np.zeros(nd + 2), "x", None, ["a"] * nd, {"k": 1}):
        for attr in ("origin", "sampling"):
            try:
                setattr(ds, attr, bad)
            except (ValueError, TypeError):
                pass
            else:
                raise AssertionError((shape, attr, bad))
    # failed assignments leave calibration untouched
    assert np.array_equal(ds.origin, before_o) and np.array_equal(ds.sampling, before_s)
    # a sequence of operations keeps one entry per axis
    ds.sampling = 0.25
    b = ds.bin(1)
    p = b.pad(1)
    for d in (b, p, p[...]):
        assert len(d.origin) == len(d.sampling) == len(d.units) == d.ndim == nd

print(f"PASS ({n_cases} validate_ndinfo cases old == new)")
