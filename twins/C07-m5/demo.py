"""
Demo for property C07 (torch Radon / FBP agree with the scikit-image reference).

Embeds a verbatim copy of the ORIGINAL radon_torch / iradon_torch / get_fourier_filter_torch and
asserts that the functions imported from quantem give bit-identical results on a spread of image
sizes, batch sizes, angle sets and filters.  It additionally asserts the property itself
(agreement with scikit-image, batched == per-image, linearity, 0-degree projection == column sums).

Invoke as:  PYTHONPATH=<root>/src /venv/bin/python demo.py
"""

import math

import numpy as np
import torch
import torch.nn.functional as F

from quantem.tomography.radon import radon as new

torch.manual_seed(0)
torch.set_num_threads(1)  # small tensors: threading only adds overhead


# --------------------------------------------------------------------------------------------
# verbatim copies of the original functions
# --------------------------------------------------------------------------------------------
def radon_torch(images, theta=None, device=None):
    """
    Batched Radon transform implemented in PyTorch.
    images: torch.Tensor of shape [B, H, W]
    Returns: torch.Tensor of shape [B, N_angles, N_pixels]
    """
    if images.ndim == 2:
        images = images.unsqueeze(0)  # [1, H, W]
    B, H, W = images.shape

    if device is None:
        device = images.device

    if theta is None:
        theta = torch.arange(180, device=device)

    N_angles = len(theta)
    shape_min = min(H, W)
    radius = shape_min // 2
    center = torch.tensor([H // 2, W // 2], device=device)

    Y, X = torch.meshgrid(
        torch.arange(H, device=device),
        torch.arange(W, device=device),
        indexing="ij",
    )
    dist2 = (X - center[1]) ** 2 + (Y - center[0]) ** 2
    mask = dist2 <= radius**2
    images = images.clone()
    images *= mask  # broadcasting over batch

    # Crop to square
    excess = torch.tensor([H, W], device=device) - shape_min
    slices = tuple(
        slice(int((e.item() + 1) // 2), int((e.item() + 1) // 2 + shape_min))
        if e > 0
        else slice(None)
        for e in excess
    )
    images = images[:, slices[0], slices[1]]  # [B, N, N]
    N = images.shape[-1]
    center = N // 2

    radon_images = torch.zeros((B, N_angles, N), dtype=images.dtype, device=device)

    grid_y, grid_x = torch.meshgrid(
        torch.arange(N, dtype=torch.float32, device=device),
        torch.arange(N, dtype=torch.float32, device=device),
        indexing="ij",
    )
    coords = torch.stack((grid_x - center, grid_y - center), dim=-1)  # (N, N, 2)
    coords = coords.view(1, N, N, 2).expand(B, -1, -1, -1)  # [B, N, N, 2]

    for i, angle in enumerate(theta):
        angle_rad = torch.deg2rad(angle)
        rot = torch.tensor(
            [
                [torch.cos(angle_rad), torch.sin(angle_rad)],
                [-torch.sin(angle_rad), torch.cos(angle_rad)],
            ],
            device=device,
            dtype=torch.float32,
        )

        rot = rot.unsqueeze(0).expand(B, -1, -1)  # [B, 2, 2]
        coords_rot = torch.matmul(coords.view(B, -1, 2), rot.transpose(1, 2)).view(B, N, N, 2)
        coords_rot += center

        # Normalize to [-1, 1]
        grid = 2 * coords_rot / (N - 1) - 1  # [B, N, N, 2]

        # grid = grid.unsqueeze(1)  # [B, 1, N, N, 2]
        imgs = images.unsqueeze(1)  # [B, 1, N, N]

        sampled = F.grid_sample(
            imgs, grid, mode="bilinear", padding_mode="zeros", align_corners=True
        )
        projection = sampled.squeeze(1).sum(dim=1)  # [B, N]
        radon_images[:, i, :] = projection

    return radon_images.squeeze(0) if radon_images.shape[0] == 1 else radon_images


def iradon_torch(
    sinograms,
    theta=None,
    output_size=None,
    filter_name="ramp",
    circle=True,
    device=None,
):
    """
    Batched inverse Radon transform (filtered backprojection).
    sinograms: [B, N_angles, N_pixels] or [N_angles, N_pixels] (automatically batched)
    Returns: [B, output_size, output_size] or [output_size, output_size]
    """
    if sinograms.ndim == 2:
        sinograms = sinograms.unsqueeze(0)  # [1, A, P]
    B, A, N = sinograms.shape

    device = sinograms.device if device is None else device
    # default angles as in the reference: np.linspace(0, 180, A, endpoint=False)
    theta = theta if theta is not None else torch.linspace(0, 180, steps=A + 1, device=device)[:-1]

    if theta.shape[0] != A:
        raise ValueError("theta does not match number of projections")

    if output_size is None:
        output_size = N if circle else int(torch.floor(torch.sqrt(torch.tensor(N**2 / 2.0))))

    if circle:
        # as the reference (_sinogram_circle_to_square): embed the sinogram in the diagonal length,
        # keeping the rotation centre, before choosing the FFT size
        diagonal = int(math.ceil(math.sqrt(2) * N))
        pad = diagonal - N
        pad_before = diagonal // 2 - N // 2
        sinograms = F.pad(sinograms, (pad_before, pad - pad_before))
        N = diagonal

    # Padding for FFT
    padded_size = max(
        64, int(2 ** torch.ceil(torch.log2(torch.tensor(2 * N, dtype=torch.float32))))
    )
    pad_y = padded_size - N
    sinograms_padded = F.pad(sinograms, (0, pad_y))  # [B, A, padded]

    f_filter = get_fourier_filter_torch(padded_size, filter_name, device=device)  # [1, padded]
    spectrum = torch.fft.fft(sinograms_padded, dim=2)
    filtered = torch.real(torch.fft.ifft(spectrum * f_filter, dim=2))[:, :, :N]

    # Backprojection
    recon = torch.zeros((B, output_size, output_size), device=device)
    radius = output_size // 2

    y, x = torch.meshgrid(
        torch.arange(output_size, device=device) - radius,
        torch.arange(output_size, device=device) - radius,
        indexing="ij",
    )
    x = x.flatten()
    y = y.flatten()

    for i, angle in enumerate(torch.deg2rad(theta)):
        t = (x * torch.cos(angle) - y * torch.sin(angle)).reshape(1, output_size, output_size)
        t_idx = t + (N // 2)

        t0 = torch.floor(t_idx).long().clamp(0, N - 2)  # [1, H, W]
        t1 = t0 + 1
        w = t_idx - t0.float()

        t0 = t0.expand(B, -1, -1)  # [B, H, W]
        t1 = t1.expand(B, -1, -1)

        filtered_i = filtered[:, i, :]  # [B, N]
        val0 = torch.gather(filtered_i, 1, t0.view(B, -1)).view(B, output_size, output_size)
        val1 = torch.gather(filtered_i, 1, t1.view(B, -1)).view(B, output_size, output_size)

        # rays that leave the detector contribute nothing (np.interp(..., left=0, right=0))
        valid = (t_idx >= 0) & (t_idx <= N - 1)
        proj = ((1 - w) * val0 + w * val1) * valid
        recon += proj

    if circle:
        mask = (
            x.view(output_size, output_size) ** 2 + y.view(output_size, output_size) ** 2
            > radius**2
        )
        recon[:, mask] = 0.0

    recon *= torch.pi / (2 * A)
    return recon.squeeze(0) if recon.shape[0] == 1 else recon


def get_fourier_filter_torch(size, filter_name="ramp", device=None, dtype=torch.float32):
    """
    Construct the Fourier filter in PyTorch.
    """
    if size % 2 != 0:
        raise ValueError("Filter size must be even")

    n = torch.cat(
        [
            torch.arange(1, size // 2 + 1, 2, device=device),
            torch.arange(size // 2 - 1, 0, -2, device=device),
        ]
    )
    f = torch.zeros(size, device=device, dtype=dtype)
    f[0] = 0.25
    f[1::2] = -1.0 / (torch.pi * n.float()) ** 2

    fourier_filter = 2 * torch.real(torch.fft.fft(f))

    if filter_name == "ramp":
        pass
    elif filter_name == "shepp-logan":
        omega = torch.pi * torch.fft.fftfreq(size, device=device)[1:]
        fourier_filter[1:] *= torch.sin(omega) / omega
    elif filter_name == "cosine":
        # np.linspace(0, pi, size, endpoint=False) of the reference implementation
        freq = torch.linspace(0, torch.pi, steps=size + 1, device=device)[:-1]
        fourier_filter *= torch.fft.fftshift(torch.sin(freq))
    elif filter_name == "hamming":
        hamming = torch.hamming_window(size, periodic=False, dtype=dtype, device=device)
        fourier_filter *= torch.fft.fftshift(hamming)
    elif filter_name == "hann":
        hann = torch.hann_window(size, periodic=False, dtype=dtype, device=device)
        fourier_filter *= torch.fft.fftshift(hann)
    elif filter_name is None:
        fourier_filter[:] = 1.0
    else:
        raise ValueError(f"Unknown filter: {filter_name}")

    # Reshape filter for broadcasting with sinogram
    return fourier_filter.unsqueeze(0)  # Shape: [1, size] for broadcasting with [num_angles, size]


# --------------------------------------------------------------------------------------------
# helpers
# --------------------------------------------------------------------------------------------
def same(a, b, what):
    assert a.dtype == b.dtype, (what, a.dtype, b.dtype)
    assert a.shape == b.shape, (what, a.shape, b.shape)
    assert a.is_contiguous() == b.is_contiguous(), (what, "contiguity")
    assert torch.equal(a, b), (what, float((a - b).abs().max()))


def same_error(fn_old, fn_new, what):
    errs = []
    for fn in (fn_old, fn_new):
        try:
            fn()
            errs.append(None)
        except Exception as e:  # noqa: BLE001
            errs.append((type(e), str(e)))
    assert errs[0] is not None and errs[0] == errs[1], (what, errs)


def phantom(n, smooth):
    yy, xx = np.mgrid[:n, :n].astype(np.float64)
    c = n // 2
    if smooth:
        img = np.exp(-((xx - c - 0.11 * n) ** 2 + (yy - c + 0.07 * n) ** 2) / (2 * (0.09 * n) ** 2))
        img += 0.5 * np.exp(-((xx - c + 0.15 * n) ** 2 + (yy - c - 0.1 * n) ** 2) / (2 * (0.06 * n) ** 2))
    else:
        img = ((np.abs(xx - c - 0.1 * n) < 0.12 * n) & (np.abs(yy - c + 0.05 * n) < 0.2 * n)).astype(
            np.float64
        )
        img += 0.7 * (((xx - c + 0.2 * n) ** 2 + (yy - c - 0.1 * n) ** 2) < (0.1 * n) ** 2)
    return img.astype(np.float32)


ANGLE_SETS = [
    None,
    torch.tensor([0.0]),
    torch.tensor([0.0, 90.0, 180.0]),
    torch.tensor([0.0, 13.5, 45.0, 77.25, 90.0, 101.0, 135.0, 179.0]),
    torch.linspace(0, 180, 25)[:-1],
    torch.rand(7) * 180.0,
]
FILTERS = ["ramp", "shepp-logan", "cosine", "hamming", "hann", None]

# --------------------------------------------------------------------------------------------
# 1. old == new, bit for bit
# --------------------------------------------------------------------------------------------
n_cmp = 0

# filters
for size in (2, 4, 64, 66, 128, 250, 256, 512):
    for name in FILTERS:
        for dtype in (torch.float32, torch.float64):
            same(
                get_fourier_filter_torch(size, name, dtype=dtype),
                new.get_fourier_filter_torch(size, name, dtype=dtype),
                ("filter", size, name, dtype),
            )
            n_cmp += 1
same_error(lambda: get_fourier_filter_torch(63), lambda: new.get_fourier_filter_torch(63), "odd size")
same_error(
    lambda: get_fourier_filter_torch(64, "bogus"),
    lambda: new.get_fourier_filter_torch(64, "bogus"),
    "unknown filter",
)

# radon
shapes = [(16, 16), (17, 17), (31, 31), (32, 32), (20, 27), (27, 20), (33, 24)]
for H, W in shapes:
    for B in (None, 1, 2, 3):
        img = torch.rand((H, W) if B is None else (B, H, W))
        for theta in ANGLE_SETS:
            if theta is None and H > 20:
                continue  # the default of 180 angles is slow; exercise it on small inputs only
            same(radon_torch(img, theta), new.radon_torch(img, theta), ("radon", H, W, B))
            n_cmp += 1
# float64 images are rejected by grid_sample (float32 grid) -- identically in both versions
same_error(
    lambda: radon_torch(torch.rand(9, 9, dtype=torch.float64), ANGLE_SETS[2]),
    lambda: new.radon_torch(torch.rand(9, 9, dtype=torch.float64), ANGLE_SETS[2]),
    "radon float64",
)
# the input must not be modified
img = torch.rand(2, 19, 19)
keep = img.clone()
new.radon_torch(img, ANGLE_SETS[3])
assert torch.equal(img, keep)

# iradon
k = 0
for N in (15, 16, 32):
    for B in (None, 1, 3):
        for theta in ANGLE_SETS:
            A = 12 if theta is None else len(theta)
            sino = torch.randn((A, N) if B is None else (B, A, N))
            for name in FILTERS:
                for circle in (True, False):
                    for out in (None, N + 3, max(N - 4, 2)):
                        k += 1
                        if k % 2 and not (N == 16 and B == 3):
                            continue  # thin the full product out to keep the run time short
                        kw = dict(theta=theta, output_size=out, filter_name=name, circle=circle)
                        same(iradon_torch(sino, **kw), new.iradon_torch(sino, **kw), ("iradon", N, B, kw))
                        n_cmp += 1
same_error(
    lambda: iradon_torch(torch.randn(5, 16), theta=torch.arange(4.0)),
    lambda: new.iradon_torch(torch.randn(5, 16), theta=torch.arange(4.0)),
    "theta mismatch",
)
same_error(
    lambda: iradon_torch(torch.randn(5, 16), filter_name="bogus"),
    lambda: new.iradon_torch(torch.randn(5, 16), filter_name="bogus"),
    "iradon unknown filter",
)

# round trip through both
img = torch.from_numpy(np.stack([phantom(32, True), phantom(32, False)]))
th = torch.linspace(0, 180, 41)[:-1]
same(
    iradon_torch(radon_torch(img, th), th, filter_name="hann"),
    new.iradon_torch(new.radon_torch(img, th), th, filter_name="hann"),
    "round trip",
)
n_cmp += 1
print(f"old == new bit-for-bit on {n_cmp} cases")

# --------------------------------------------------------------------------------------------
# 2. the property itself
# --------------------------------------------------------------------------------------------
from skimage.transform import iradon as sk_iradon  # noqa: E402
from skimage.transform import radon as sk_radon  # noqa: E402
from skimage.transform.radon_transform import _get_fourier_filter  # noqa: E402

# filters against the reference
for size in (64, 128, 256, 512):
    for name in FILTERS:
        ref = _get_fourier_filter(size, name)[:, 0]
        got = new.get_fourier_filter_torch(size, name)[0].numpy()
        assert got.shape == ref.shape
        assert np.max(np.abs(got - ref)) <= 1e-5 * max(1.0, np.max(np.abs(ref))), (size, name)

# sinograms against the reference (smooth and non-smooth, odd and even)
for n in (32, 33, 48):
    for smooth in (True, False):
        im = phantom(n, smooth)
        for theta in ANGLE_SETS[1:]:
            ref = sk_radon(im.astype(np.float64), theta=theta.numpy().astype(np.float64), circle=True).T
            got = new.radon_torch(torch.from_numpy(im), theta).numpy().reshape(ref.shape)
            err = np.max(np.abs(got - ref)) / np.max(np.abs(ref))
            assert err < (2e-2 if smooth else 8e-2), ("radon vs skimage", n, smooth, err)

# reconstructions against the reference
for n in (32, 33):
    th = np.linspace(0.0, 180.0, 30, endpoint=False)
    sino = sk_radon(phantom(n, True).astype(np.float64), theta=th, circle=True)  # [n, A]
    for name in FILTERS:
        for circle_out in (None, n + 2):
            ref = sk_iradon(sino, theta=th, filter_name=name, circle=True, output_size=circle_out)
            got = new.iradon_torch(
                torch.from_numpy(sino.T.astype(np.float32).copy()),
                torch.from_numpy(th.astype(np.float32)),
                output_size=circle_out,
                filter_name=name,
            ).numpy()
            err = np.max(np.abs(got - ref)) / np.max(np.abs(ref))
            assert err < 1e-3, ("iradon vs skimage", n, name, circle_out, err)

# batched == per image, linearity, projection at 0 degrees
imgs = torch.rand(3, 25, 25)
th = ANGLE_SETS[3]
sino_b = new.radon_torch(imgs, th)
for b in range(3):
    assert torch.allclose(sino_b[b], new.radon_torch(imgs[b], th), atol=1e-5)
rec_b = new.iradon_torch(sino_b, th, filter_name="shepp-logan")
for b in range(3):
    assert torch.allclose(rec_b[b], new.iradon_torch(sino_b[b], th, filter_name="shepp-logan"), atol=1e-5)

a, b = torch.rand(24, 24), torch.rand(24, 24)
lin = new.radon_torch(2.0 * a - 3.0 * b, th)
assert torch.allclose(lin, 2.0 * new.radon_torch(a, th) - 3.0 * new.radon_torch(b, th), atol=1e-4)
s1, s2 = torch.randn(8, 24), torch.randn(8, 24)
lin = new.iradon_torch(2.0 * s1 - 3.0 * s2, th)
assert torch.allclose(lin, 2.0 * new.iradon_torch(s1, th) - 3.0 * new.iradon_torch(s2, th), atol=1e-4)

for n in (24, 25):
    im = torch.rand(n, n)
    yy, xx = torch.meshgrid(torch.arange(n), torch.arange(n), indexing="ij")
    disc = (xx - n // 2) ** 2 + (yy - n // 2) ** 2 <= (n // 2) ** 2
    p0 = new.radon_torch(im, torch.tensor([0.0]))
    assert torch.allclose(p0.reshape(-1), (im * disc).sum(dim=0), atol=1e-4), n

print("property checks passed")
