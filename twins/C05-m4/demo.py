"""
Demo for property C05: checkpoint / resume equivalence of iterative ptychography.

Builds a small synthetic 4D-STEM dataset, runs an n-iteration reconstruction in one
go, and compares it with runs that are interrupted after k iterations, saved
(zip and directory stores, with the raw data) and reloaded, or cloned in memory,
and then continued with the same calls.  Also checks that the reloaded object reports
the same iteration count, losses, learning-rate history, constraints, object and probe
as the saved one, and exercises the helper code paths of the serializer and the
optimizer mixin that the round trip depends on (bit-for-bit comparisons against
independently computed expectations).

Exit code 0 == property holds.
"""

import contextlib
import gc
import io
import os
import tempfile
import time
import warnings

import numpy as np
import torch

warnings.filterwarnings("ignore")

from quantem.core.datastructures.dataset4dstem import Dataset4dstem  # noqa: E402
from quantem.core.io.serialize import AutoSerialize, load  # noqa: E402
from quantem.core.ml.optimizer_mixin import OptimizerMixin  # noqa: E402
from quantem.core.utils.utils import electron_wavelength_angstrom  # noqa: E402
from quantem.diffractive_imaging.dataset_models import PtychographyDatasetRaster  # noqa: E402
from quantem.diffractive_imaging.detector_models import DetectorPixelated  # noqa: E402
from quantem.diffractive_imaging.object_models import ObjectPixelated  # noqa: E402
from quantem.diffractive_imaging.probe_models import ProbePixelated  # noqa: E402
from quantem.diffractive_imaging.ptychography import Ptychography  # noqa: E402

N = 16
S = 6  # scan positions per side
Q_MAX = 0.5
Q_PROBE = Q_MAX / 2
PROBE_ENERGY = 300e3
C10 = 50
N_ITERS = 5


def quiet(fn, *a, **k):
    with contextlib.redirect_stdout(io.StringIO()), contextlib.redirect_stderr(io.StringIO()):
        return fn(*a, **k)


def make_probe():
    sampling = 1 / Q_MAX / 2
    reciprocal_sampling = 2 * Q_MAX / N
    qx = qy = np.fft.fftfreq(N, sampling)
    q = np.sqrt(qx[:, None] ** 2 + qy[None, :] ** 2)
    ap = np.sqrt(np.clip((Q_PROBE - q) / reciprocal_sampling + 0.5, 0, 1))
    chi = q**2 * electron_wavelength_angstrom(PROBE_ENERGY) * np.pi * C10
    pf = ap * np.exp(-1j * chi)
    pf /= np.sqrt(np.sum(np.abs(pf) ** 2))
    return np.fft.ifft2(pf) * N


def make_dataset(probe):
    rng = np.random.default_rng(42)
    ph = rng.random((N, N))
    ph -= ph.mean()
    obj = np.exp(1.0j * ph.astype(np.float32))
    x = y = np.arange(0.0, S, 1)
    xx, yy = np.meshgrid(x, y, indexing="ij")
    pos = np.stack((xx.ravel(), yy.ravel()), axis=-1)
    x0 = np.round(pos[:, 0]).astype(int)
    y0 = np.round(pos[:, 1]).astype(int)
    xi = np.fft.fftfreq(N, d=1 / N).astype(int)
    row = (x0[:, None, None] + xi[None, :, None]) % N
    col = (y0[:, None, None] + xi[None, None, :]) % N
    inten = np.abs(np.fft.fft2(obj[row, col] * probe)) ** 2
    rs = 2 * Q_MAX / N
    dset = Dataset4dstem.from_array(
        array=np.fft.fftshift(inten * 100, axes=(-2, -1)).reshape((S, S, N, N)),
        sampling=(1, 1, rs, rs),
        units=("A", "A", "A^-1", "A^-1"),
    )
    pdset = PtychographyDatasetRaster.from_dataset4dstem(dset, verbose=0)
    pdset.preprocess(
        com_fit_function="constant",
        plot_rotation=False,
        plot_com=False,
        probe_energy=PROBE_ENERGY,
        force_com_rotation=0,
        force_com_transpose=False,
    )
    return pdset


def make_ptycho(num_probes=1, obj_type="complex"):
    probe = make_probe()
    pdset = make_dataset(probe)
    obj_model = ObjectPixelated.from_uniform(num_slices=1, obj_type=obj_type, slice_thicknesses=1)
    probe_arr = probe
    if num_probes > 1:
        probe_arr = np.stack(
            [probe * (0.5**i) * np.exp(1j * 0.3 * i) for i in range(num_probes)], axis=0
        )
        probe_arr[1:] = np.roll(probe_arr[1:], 1, axis=-1)
    probe_model = ProbePixelated.from_array(
        num_probes=num_probes,
        probe_params={
            "energy": PROBE_ENERGY,
            "C10": C10,
            "semiangle_cutoff": electron_wavelength_angstrom(PROBE_ENERGY) * 1e3,
        },
        probe_array=probe_arr,
    )
    pt = Ptychography.from_models(
        dset=pdset,
        obj_model=obj_model,
        probe_model=probe_model,
        detector_model=DetectorPixelated(),
        rng=42,
        verbose=0,
    )
    pt.preprocess(obj_padding_px=(0, 0))
    return pt


def state(pt):
    return {
        "num_iters": pt.num_iters,
        "losses": np.asarray(pt.iter_losses, dtype=np.float64),
        "lrs": {k: np.asarray(v, dtype=np.float64) for k, v in pt.iter_lrs.items()},
        "obj": np.asarray(pt.obj).copy(),
        "probe": np.asarray(pt.probe).copy(),
        "constraints": repr(pt.constraints),
    }


def assert_same(a, b, what, rtol=1e-5, atol=1e-7):
    assert a["num_iters"] == b["num_iters"], (what, a["num_iters"], b["num_iters"])
    assert a["losses"].shape == b["losses"].shape, what
    assert np.allclose(a["losses"], b["losses"], rtol=rtol, atol=atol), (
        what,
        a["losses"],
        b["losses"],
    )
    assert set(a["lrs"]) == set(b["lrs"]), (what, a["lrs"].keys(), b["lrs"].keys())
    for k in a["lrs"]:
        assert np.allclose(a["lrs"][k], b["lrs"][k], rtol=1e-12, atol=0), (what, k)
    assert a["obj"].shape == b["obj"].shape and a["obj"].dtype == b["obj"].dtype, what
    assert np.allclose(a["obj"], b["obj"], rtol=rtol, atol=1e-6), what
    assert a["probe"].shape == b["probe"].shape and a["probe"].dtype == b["probe"].dtype, what
    assert np.allclose(a["probe"], b["probe"], rtol=rtol, atol=1e-6), what
    assert a["constraints"] == b["constraints"], what


def run_config(tmp, tag, opt_type, lr, sched, num_probes, obj_type, splits):
    opt = {"object": {"type": opt_type, "lr": lr}, "probe": {"type": opt_type, "lr": lr * 0.5}}
    sch = None if sched is None else {"object": dict(sched), "probe": dict(sched)}
    constraints = {"probe": {"orthogonalize_probe": False}}

    def first_call(pt, n):
        quiet(
            pt.reconstruct,
            num_iters=n,
            reset=True,
            optimizer_params={k: dict(v) for k, v in opt.items()},
            scheduler_params=None if sch is None else {k: dict(v) for k, v in sch.items()},
            constraints=constraints,
            batch_size=S * S,
            device="cpu",
        )

    def cont_call(pt, n):
        quiet(pt.reconstruct, num_iters=n, constraints=constraints, batch_size=S * S, device="cpu")

    for k in splits:
        # reference: same calls, no interruption
        ref = make_ptycho(num_probes, obj_type)
        first_call(ref, k)
        mid_ref = state(ref)

        # --- saved + reloaded (zip and dir stores, raw data included) ---
        for store in ("zip", "dir"):
            path = os.path.join(tmp, f"{tag}_{k}_{store}" + (".zip" if store == "zip" else ""))
            quiet(ref.save, path, mode="o", store=store, save_raw_data=True, verbose=0)
            # saving must not disturb the object that was saved
            assert_same(mid_ref, state(ref), f"{tag} k={k} save side effects ({store})", 0, 0)
            rel = quiet(Ptychography.from_file, path, device="cpu", auto_reload_dataset=False)
            assert isinstance(rel, Ptychography)
            assert_same(mid_ref, state(rel), f"{tag} k={k} reload reports ({store})", 0, 0)
            cont_call(rel, N_ITERS - k)
            if store == "zip":
                rel_zip = state(rel)
            else:
                rel_dir = state(rel)

        # --- saved without raw data, dataset handed back on load ---
        path = os.path.join(tmp, f"{tag}_{k}_nodata.zip")
        quiet(ref.save, path, mode="o", verbose=0)
        assert not hasattr(ref, "_dataset_metadata")
        rel = quiet(Ptychography.from_file, path, dset=ref.dset, device="cpu")
        assert_same(mid_ref, state(rel), f"{tag} k={k} reload reports (nodata)", 0, 0)

        # --- dataset-attached check of from_file: warn only when no dataset ends up attached ---
        def n_warn(p, device="cpu", **kw):
            with warnings.catch_warnings(record=True) as rec:
                warnings.simplefilter("always")
                obj = quiet(Ptychography.from_file, p, device=device, **kw)
            msgs = [str(w.message) for w in rec if "No dataset provided" in str(w.message)]
            return obj, len(msgs)

        obj, nw = n_warn(path, device=None, auto_reload_dataset=False)
        assert nw == 1 and not hasattr(obj, "_dset"), (tag, k, nw)
        assert obj.num_iters == mid_ref["num_iters"]
        obj, nw = n_warn(os.path.join(tmp, f"{tag}_{k}_zip.zip"), auto_reload_dataset=False)
        assert nw == 0 and obj._dset is not None, (tag, k, nw)
        obj, nw = n_warn(path, dset=ref.dset)
        assert nw == 0 and obj._dset is ref.dset, (tag, k, nw)

        # --- clone ---
        cl = quiet(ref.clone)
        assert_same(mid_ref, state(cl), f"{tag} k={k} clone reports", 0, 0)
        cont_call(cl, N_ITERS - k)
        cl_state = state(cl)

        # continue the original
        cont_call(ref, N_ITERS - k)
        full = state(ref)
        assert full["num_iters"] == N_ITERS
        assert_same(full, rel_zip, f"{tag} k={k} resume zip")
        assert_same(full, rel_dir, f"{tag} k={k} resume dir")
        assert_same(full, cl_state, f"{tag} k={k} resume clone")
    return full


# --------------------------------------------------------------------------------------
# Helper-level checks (serializer + optimizer mixin), bit-for-bit
# --------------------------------------------------------------------------------------


class _Holder(AutoSerialize):
    def __init__(self):
        self.a_int = 3
        self.a_float = 0.1 + 0.2
        self.a_str = "hello"
        self.a_none = None
        self.a_bool = True
        self.arr = np.arange(12, dtype=np.float32).reshape(3, 4) / 7
        self.arr0 = np.array(2.5)
        self.empty = np.empty((0, 3), dtype=np.int16)
        self.t = torch.linspace(0, 1, 7, dtype=torch.float64).requires_grad_(True)
        self.lst = [1.5, 2.5, 3.5]
        self.mixed = [1, "a", np.arange(3), {"x": 1.0, "y": [1, 2]}]
        self.tup = (1, 2, 3)
        self.st = {1, 2, 3}
        self.dct = {"lr": [0.1, 0.05], "n": 2, "t": torch.arange(4)}
        self.lin = torch.nn.Linear(3, 2)
        self.opt = torch.optim.Adam(self.lin.parameters(), lr=0.01)


def _cmp(a, b, what):
    assert type(a) is type(b), (what, type(a), type(b))
    if isinstance(a, np.ndarray):
        assert a.dtype == b.dtype and a.shape == b.shape, what
        assert a.tobytes() == b.tobytes(), what
    elif isinstance(a, torch.Tensor):
        assert a.dtype == b.dtype and a.shape == b.shape, what
        assert a.requires_grad == b.requires_grad, what
        assert torch.equal(a.detach(), b.detach()), what
    elif isinstance(a, (list, tuple)):
        assert len(a) == len(b), what
        for i, (x, y) in enumerate(zip(a, b)):
            _cmp(x, y, f"{what}[{i}]")
    elif isinstance(a, dict):
        assert set(a) == set(b), what
        for k in a:
            _cmp(a[k], b[k], f"{what}[{k!r}]")
    else:
        assert a == b, (what, a, b)


def serializer_checks(tmp):
    h = _Holder()
    # give the optimizer real moments
    h.lin(torch.ones(1, 3)).sum().backward()
    h.opt.step()
    for store, name, cl in (
        ("zip", "h.zip", 4),
        ("dir", "hdir", None),
        ("auto", "h2.zip", 0),
        ("auto", "h2dir", 9),
    ):
        if True:
            p = os.path.join(tmp, name)
            quiet(h.save, p, mode="o", store=store, compression_level=cl)
            g = quiet(load, p)
            assert isinstance(g, _Holder)
            for key in (
                "a_int a_float a_str a_none a_bool arr arr0 t lst mixed tup st dct".split()
            ):
                _cmp(getattr(h, key), getattr(g, key), f"{store}/{cl}/{key}")
            assert g.empty.shape == (0, 3) and g.empty.dtype == np.int16
            assert isinstance(g.lin, torch.nn.Linear)
            for p0, p1 in zip(h.lin.parameters(), g.lin.parameters()):
                assert torch.equal(p0.detach(), p1.detach())
            s0, s1 = h.opt.state_dict(), g.opt.state_dict()
            assert s0["param_groups"] == s1["param_groups"]
            for k in s0["state"]:
                for kk in s0["state"][k]:
                    assert torch.equal(
                        torch.as_tensor(s0["state"][k][kk]), torch.as_tensor(s1["state"][k][kk])
                    )
    # skip by name and by type
    p = os.path.join(tmp, "skip.zip")
    quiet(h.save, p, mode="o", skip=["arr", torch.optim.Optimizer])
    g = quiet(load, p)
    assert not hasattr(g, "arr") and not hasattr(g, "opt") and hasattr(g, "lin")
    quiet(h.save, p, mode="o", skip="lst")
    g = quiet(load, p)
    assert not hasattr(g, "lst") and hasattr(g, "arr")
    g = quiet(load, p, skip="arr")
    assert not hasattr(g, "lst") and not hasattr(g, "arr")
    # write protection + errors
    try:
        quiet(h.save, p, mode="w")
        raise SystemExit("expected FileExistsError")
    except FileExistsError:
        pass
    for bad in (-1, 10):
        try:
            quiet(h.save, os.path.join(tmp, "bad.zip"), mode="o", compression_level=bad)
            raise SystemExit("expected ValueError")
        except ValueError as e:
            assert str(e) == f"compression_level must be between 0 and 9, got {bad}", str(e)
    try:
        quiet(h.save, os.path.join(tmp, "x.foo"), mode="o", store="dir")
        raise SystemExit("expected ValueError")
    except ValueError:
        pass
    # numeric scalar predicate
    for v, exp in [
        (1, True), (1.5, True), (True, True), (np.float32(2), True), (np.int64(2), True),
        (np.bool_(1), True), ("a", False), (None, False), ([1], False), ((1,), False),
        ({}, False), (set(), False), (np.arange(2), False), (torch.tensor(1.0), False),
        (1j, False),
    ]:  # fmt: skip
        assert AutoSerialize._is_numeric_scalar(v) is exp, v


class _Model(OptimizerMixin):
    def __init__(self, mode):
        OptimizerMixin.__init__(self)
        self.mode = mode
        self.p = [
            torch.nn.Parameter(torch.linspace(-1, 1, 6, dtype=torch.float64)),
            torch.nn.Parameter(torch.linspace(2, 3, 4, dtype=torch.float64)),
        ]

    def get_optimization_parameters(self):
        if self.mode == "tensor":
            return self.p[0]
        if self.mode == "gen":
            return (q for q in self.p)
        return list(self.p)


def _loss(m):
    n = 1 if m.mode == "tensor" else 2
    return sum(((q - 0.3) ** 2).sum() * (i + 1) for i, q in enumerate(m.p[:n]))


def mixin_checks():
    for mode in ("tensor", "gen", "list"):
        for typ in ("sgd", "adam", "adamw", "Adam", torch.optim.SGD):
            for sched in (
                None,
                {"type": "exp", "factor": 0.1},
                {"type": "gamma", "gamma": 0.8},
                {"type": "exp"},
                {"type": "linear"},
                {"type": "plateau", "patience": 0, "cooldown": 0},
                {"type": "cyclic", "step_size_up": 2},
                {"type": "none"},
            ):
                if sched and sched["type"] == "cyclic" and typ in ("adam", "adamw", "Adam"):
                    pass  # cycle_momentum False by default: allowed
                lrs_runs = []
                finals = []
                for variant in ("plain", "reconnect"):
                    m = _Model(mode)
                    m.set_optimizer({"type": typ, "lr": 0.05})
                    m.set_scheduler(sched, num_iter=None if sched == {"type": "exp"} else 6)
                    lrs = []
                    for it in range(6):
                        if variant == "reconnect" and it == 3:
                            # emulate a reload: brand new parameter objects with the same values
                            m.p = [torch.nn.Parameter(q.detach().clone()) for q in m.p]
                            m.reconnect_optimizer_to_parameters()
                            n = 1 if mode == "tensor" else 2
                            got = m.optimizer.param_groups[0]["params"]
                            assert len(got) == n and all(a is b for a, b in zip(got, m.p))
                            assert len(m.optimizer.param_groups) == 1
                            if m.scheduler is not None:
                                assert m.scheduler.optimizer is m.optimizer
                        m.zero_optimizer_grad()
                        ls = _loss(m)
                        ls.backward()
                        m.step_optimizer()
                        m.step_scheduler(float(ls))
                        lrs.append(m.get_current_lr())
                    lrs_runs.append(lrs)
                    finals.append([q.detach().clone() for q in m.p])
                assert lrs_runs[0] == lrs_runs[1], (mode, typ, sched, lrs_runs)
                for a, b in zip(*finals):
                    assert torch.equal(a, b), (mode, typ, sched)

    # explicit scheduler hyper-parameters
    m = _Model("list")
    m.set_optimizer({"type": "sgd", "lr": 0.2})
    m.set_scheduler({"type": "exp", "factor": 0.01}, num_iter=7)
    assert m.scheduler.gamma == 0.01 ** (1.0 / 7)
    m.set_scheduler({"type": "exp"}, num_iter=None)
    assert m.scheduler.gamma == 0.9
    m.set_scheduler({"type": "plateau"})
    assert m.scheduler.min_lrs == [0.2 / 20] and m.scheduler.factor == 0.5
    m.set_scheduler({"type": "cyclic"})
    assert m.scheduler.base_lrs == [0.2 / 4] and m.scheduler.max_lrs == [0.2 * 4]
    m.set_scheduler({"type": "linear"}, num_iter=9)
    assert m.scheduler.total_iters == 9 and m.scheduler.start_factor == 0.1
    m.set_scheduler({"type": "none"})
    assert m.scheduler is None
    for bad in ({"type": "foo"},):
        try:
            m.set_scheduler(bad)
            raise SystemExit("expected ValueError")
        except ValueError as e:
            assert "Unknown scheduler type: foo" in str(e)
    # no optimizer => no scheduler / noop reconnect
    m2 = _Model("list")
    m2.set_optimizer(None)
    assert m2.optimizer is None and not m2.has_optimizer() and m2.get_current_lr() == 0.0
    m2.set_scheduler({"type": "exp"})
    assert m2.scheduler is None
    m2.reconnect_optimizer_to_parameters()
    m2.set_optimizer({"type": "none"})
    assert m2.optimizer is None and m2.optimizer_params == {}
    try:
        m2.set_optimizer({"type": "bogus", "lr": 1.0})
        raise SystemExit("expected NotImplementedError")
    except NotImplementedError as e:
        assert str(e) == "Unknown optimizer type: bogus"
    try:
        m2.set_optimizer({"type": 3, "lr": 1.0})
        raise SystemExit("expected TypeError")
    except TypeError:
        pass
    # non-leaf parameters: optimizer removed
    m3 = _Model("list")
    m3.set_optimizer({"type": "sgd", "lr": 0.1})
    m3.p = [q * 2 for q in m3.p]
    quiet(m3.reconnect_optimizer_to_parameters)
    assert m3.optimizer is None and m3.optimizer_params == {}


def _orig_record_iter(self, iter_loss: float) -> None:
    # verbatim copy of Ptychography._record_iter at the recorded revision
    self._iter_losses.append(iter_loss)
    optimizers = self.optimizers
    all_keys = set(self._iter_lrs.keys()) | set(optimizers.keys())
    for key in all_keys:
        if key in self._iter_lrs.keys():
            if key in optimizers.keys():
                self._iter_lrs[key].append(optimizers[key].param_groups[0]["lr"])
            else:
                self._iter_lrs[key].append(0.0)
        else:  # new optimizer
            # For new optimizers, backfill with 0.0 LR for previous iterations
            current_iter = self.num_iters - 1  # -1 because loss was just appended
            prev_lrs = [0.0] * current_iter
            prev_lrs.append(optimizers[key].param_groups[0]["lr"])
            self._iter_lrs[key] = prev_lrs


class _Opt:
    def __init__(self, lr):
        self.param_groups = [{"lr": lr}]


class _Rec:
    def __init__(self):
        self._iter_losses = []
        self._iter_lrs = {}
        self.optimizers = {}

    @property
    def num_iters(self):
        return len(self._iter_losses)


def record_iter_checks():
    # optimizers appearing / disappearing / changing lr during a run
    schedule = [
        {},
        {"object": 0.5},
        {"object": 0.25, "probe": 0.1},
        {"probe": 0.05},
        {"probe": 0.05, "dataset": 1e-3, "object": 0.125},
        {},
        {"dataset": 5e-4},
    ]
    a, b = _Rec(), _Rec()
    for i, sch in enumerate(schedule):
        for r in (a, b):
            r.optimizers = {k: _Opt(v) for k, v in sch.items()}
        Ptychography._record_iter(a, 1.0 / (i + 1))
        _orig_record_iter(b, 1.0 / (i + 1))
        assert a._iter_losses == b._iter_losses
        assert a._iter_lrs == b._iter_lrs, (i, a._iter_lrs, b._iter_lrs)
        assert all(len(v) == a.num_iters for v in a._iter_lrs.values()), a._iter_lrs
    assert a._iter_lrs["dataset"] == [0.0, 0.0, 0.0, 0.0, 1e-3, 0.0, 5e-4]
    assert a._iter_lrs["object"] == [0.0, 0.5, 0.25, 0.0, 0.125, 0.0, 0.0]


def main():
    torch.manual_seed(0)
    torch.set_num_threads(1)  # tiny tensors; avoids oversubscription on shared machines
    gc.freeze()  # reconstruct() calls gc.collect() twice per call; keep that cheap
    with tempfile.TemporaryDirectory() as tmp:
        t0 = time.time()
        serializer_checks(tmp)
        t1 = time.time()
        mixin_checks()
        record_iter_checks()
        t2 = time.time()
        print(f"serializer checks {t1 - t0:.1f}s, mixin checks {t2 - t1:.1f}s")
        cfgs = [
            ("sgd", "sgd", 0.5, None, 1, "complex", (0, 2, 4)),
            ("adam_exp", "adam", 5e-3, {"type": "exp", "factor": 0.1}, 2, "complex", (1, 3)),
            ("adamw_plat", "adamw", 5e-3, {"type": "plateau", "patience": 0, "cooldown": 0, "threshold": 0.5}, 1, "pure_phase", (2,)),
            ("adam_lin", "adam", 1e-2, {"type": "linear"}, 1, "potential", (3,)),
        ]  # fmt: skip
        for tag, typ, lr, sched, nprobe, otype, splits in cfgs:
            t0 = time.time()
            full = run_config(tmp, tag, typ, lr, sched, nprobe, otype, splits)
            print(f"{tag}: splits {splits} ok, {time.time() - t0:.1f}s")
            assert np.all(np.isfinite(full["losses"])) and len(full["losses"]) == N_ITERS
            if tag == "sgd":
                assert full["losses"][-1] < full["losses"][0]
    print("C05 demo OK")


if __name__ == "__main__":
    main()
