"""Demo for C18 / patch 2: CenterOfMassOriginModel.shift_origin_to.

Checks (on whatever tree is on PYTHONPATH):
 * with integer-valued fitted origins, shifting to the detector corner (or to any integer
   target coordinate) is the corresponding circular roll of every pattern (row shift from
   column 0 of the origin, column shift from column 1), for every batch size,
 * for fractional origins / all interpolation modes the result is bit-identical to a verbatim
   copy of the ORIGINAL shift_origin_to, and batch-size invariant,
 * error behaviour (no fitted origin, malformed target coordinate) is unchanged and leaves
   shifted_tensor untouched.
"""

import numpy as np
import torch
from torch.nn import functional as F

from quantem.core.datastructures import Dataset
from quantem.diffractive_imaging.origin_models import CenterOfMassOriginModel
from quantem.diffractive_imaging.ptycho_utils import SimpleBatcher


# --- verbatim copy of the original method (HEAD of the worktree) -------------------------
def original_shift_origin_to(
    self,
    origin_coordinate=(0, 0),
    max_batch_size: int | None = None,
    mode: str = "bilinear",
):
    if self._origin_fitted is None:
        raise ValueError("fitted origins not detected. Use self.fit_origin_background() first.")

    origin_fitted = self.origin_fitted
    H, W = self.dataset.shape[-2:]

    tensor_3d = self.tensor.view((-1, 1, H, W))
    shifted_tensor_3d = torch.empty_like(tensor_3d)
    coordinate = torch.as_tensor(origin_coordinate, dtype=torch.float, device=self.device)

    grid_y, grid_x = torch.meshgrid(
        torch.arange(H, device=self.device), torch.arange(W, device=self.device), indexing="ij"
    )
    base_grid = torch.stack((grid_y, grid_x), dim=-1).float()

    if max_batch_size is None:
        max_batch_size = self.num_dps

    batcher = SimpleBatcher(self.num_dps, batch_size=max_batch_size, shuffle=False)

    size_tensor = torch.tensor([H, W], dtype=torch.float, device=self.device)

    for batch_idx in batcher:
        intensities = tensor_3d[batch_idx]

        shift_yx = origin_fitted[batch_idx] - coordinate
        shift_tensor = shift_yx.view(-1, 1, 1, 2)

        shifted_grid = (base_grid[None, ...] + shift_tensor) % size_tensor

        grid_x_norm = 2 * shifted_grid[..., 1] / (W - 1) - 1
        grid_y_norm = 2 * shifted_grid[..., 0] / (H - 1) - 1
        grid = torch.stack((grid_x_norm, grid_y_norm), dim=-1)

        shifted_tensor_3d[batch_idx] = F.grid_sample(
            intensities,
            grid,
            mode=mode,
            padding_mode="zeros",
            align_corners=True,
        )

    self.shifted_tensor = shifted_tensor_3d.view(self.tensor.shape)
    return self


# -----------------------------------------------------------------------------------------


def model(a):
    return CenterOfMassOriginModel.from_dataset(Dataset.from_array(a.copy()))


def same(x: torch.Tensor, y: torch.Tensor) -> bool:
    return x.shape == y.shape and x.dtype == y.dtype and torch.equal(
        torch.nan_to_num(x, nan=-7.0), torch.nan_to_num(y, nan=-7.0)
    ) and torch.equal(torch.isnan(x), torch.isnan(y))


def check_integer_roll(rng, shape):
    sr, sc, H, W = shape
    num = sr * sc
    a = (rng.random(shape) + 0.1).astype(np.float32)
    # per-pattern integer origins, also outside [0, H) x [0, W) and negative
    org = np.stack(
        [rng.integers(-H, 2 * H, size=num), rng.integers(-W, 2 * W, size=num)], -1
    ).astype(np.float32)
    for target in ((0, 0), (1, 2), (H // 2, W // 2), (-1, 0)):
        expected = np.empty_like(a).reshape(num, H, W)
        flat = a.reshape(num, H, W)
        for k in range(num):
            dr = int(org[k, 0]) - target[0]
            dc = int(org[k, 1]) - target[1]
            expected[k] = np.roll(flat[k], (-dr, -dc), axis=(0, 1))
        expected = expected.reshape(shape)
        for bs in [None] + list(range(1, num + 1)):
            new = model(a)
            new.origin_fitted = torch.tensor(org)
            ret = new.shift_origin_to(target, max_batch_size=bs)
            assert ret is new
            old = model(a)
            old.origin_fitted = torch.tensor(org)
            original_shift_origin_to(old, target, max_batch_size=bs)
            assert new.shifted_tensor.shape == tuple(shape)
            assert new.shifted_tensor.dtype == torch.float32
            assert same(new.shifted_tensor, old.shifted_tensor), (shape, target, bs)
            np.testing.assert_allclose(new.shifted_tensor.numpy(), expected, rtol=0, atol=5e-6)
            # the un-shifted data is untouched
            assert np.array_equal(new.tensor.numpy(), a)
            assert np.array_equal(new.dataset.array, a)


def check_constant_origin(rng):
    # a single (broadcast / expanded) fitted origin for all patterns
    shape = (2, 3, 5, 7)
    a = (rng.random(shape) + 0.1).astype(np.float32)
    for org in ((2.0, 3.0), (0.0, 0.0), (4.0, 6.0)):
        for bs in (None, 1, 4, 6):
            new = model(a)
            new.origin_fitted = torch.tensor([org])
            new.shift_origin_to(max_batch_size=bs)
            old = model(a)
            old.origin_fitted = torch.tensor([org])
            original_shift_origin_to(old, max_batch_size=bs)
            assert same(new.shifted_tensor, old.shifted_tensor)
            exp = np.roll(a, (-int(org[0]), -int(org[1])), axis=(2, 3))
            np.testing.assert_allclose(new.shifted_tensor.numpy(), exp, rtol=0, atol=5e-6)


def check_fractional(rng, shape):
    sr, sc, H, W = shape
    num = sr * sc
    a = (rng.random(shape) + 0.1).astype(np.float32)
    org = np.stack([rng.uniform(-H, 2 * H, num), rng.uniform(-W, 2 * W, num)], -1).astype(
        np.float32
    )
    for mode in ("bilinear", "nearest", "bicubic"):
        for target in ((0, 0), (0.5, 1.25), (H / 2, W / 2)):
            ref = None
            for bs in (None, 1, 2, num - 1 if num > 1 else 1, num, num + 3):
                new = model(a)
                new.origin_fitted = torch.tensor(org)
                new.shift_origin_to(target, bs, mode)
                old = model(a)
                old.origin_fitted = torch.tensor(org)
                original_shift_origin_to(old, target, bs, mode)
                assert same(new.shifted_tensor, old.shifted_tensor), (shape, mode, target, bs)
                if ref is None:
                    ref = new.shifted_tensor.clone()
                else:  # batch invariance
                    assert torch.allclose(new.shifted_tensor, ref, rtol=0, atol=1e-6)


def check_pipeline(rng):
    # calculate -> fit -> shift, repeated with different settings on the same model
    a = (rng.random((3, 4, 6, 9)) + 0.1).astype(np.float32)
    new, old = model(a), model(a)
    for fit_method, bs, target in (("plane", 5, (0, 0)), ("constant", None, (3, 4)), ("plane", 1, (1, 1))):
        for m in (new, old):
            m.calculate_origin(bs).fit_origin_background(fit_method=fit_method)
        new.shift_origin_to(target, bs)
        original_shift_origin_to(old, target, bs)
        assert same(new.shifted_tensor, old.shifted_tensor)
    # forward() drives the same path
    f = model(a).forward(max_batch_size=5, estimate_detector_orientation=False)
    g = model(a)
    g.calculate_origin(5).fit_origin_background()
    original_shift_origin_to(g, (0, 0), 5, "bilinear")
    assert same(f.shifted_tensor, g.shifted_tensor)


def check_degenerate_axis(rng):
    # H == 1 or W == 1: the (size - 1) normalisation divides by zero; old and new must agree
    for shape in ((2, 2, 1, 5), (2, 2, 4, 1)):
        a = (rng.random(shape) + 0.1).astype(np.float32)
        new, old = model(a), model(a)
        for m in (new, old):
            m.origin_fitted = torch.tensor([[0.0, 1.0]])
        new.shift_origin_to()
        original_shift_origin_to(old)
        assert same(new.shifted_tensor, old.shifted_tensor)


def check_errors(rng):
    a = (rng.random((2, 2, 3, 4)) + 0.1).astype(np.float32)
    # no fitted origin yet
    for fn in (lambda m: m.shift_origin_to(), original_shift_origin_to):
        m = model(a)
        try:
            fn(m)
        except ValueError as e:
            assert "fitted origins not detected" in str(e)
        else:
            raise AssertionError("expected ValueError")
        assert m.shifted_tensor is None
    # malformed target coordinates / batch sizes: same exception type, no state change
    bad_calls = [
        dict(origin_coordinate=(0, 0, 0)),
        dict(origin_coordinate="ab"),
        dict(origin_coordinate=(0, 0), max_batch_size=0),
        dict(origin_coordinate=(0, 0), mode="not-a-mode"),
    ]
    for kw in bad_calls:
        errs = []
        for fn in (lambda m, **k: m.shift_origin_to(**k), original_shift_origin_to):
            m = model(a)
            m.origin_fitted = torch.tensor([[1.0, 2.0]])
            try:
                fn(m, **kw)
                errs.append(None)
            except Exception as e:  # noqa: BLE001
                errs.append(type(e))
                assert m.shifted_tensor is None
        assert errs[0] is errs[1] and errs[0] is not None, (kw, errs)
    # scalar / length-1 coordinates broadcast identically
    for coord in (1.0, (2.0,)):
        new, old = model(a), model(a)
        for m in (new, old):
            m.origin_fitted = torch.tensor([[1.0, 2.0]])
        new.shift_origin_to(coord, 3)
        original_shift_origin_to(old, coord, 3)
        assert same(new.shifted_tensor, old.shifted_tensor)


def main():
    torch.manual_seed(0)
    rng = np.random.default_rng(2024)
    for shape in ((2, 3, 5, 8), (3, 2, 9, 4), (1, 4, 6, 7), (1, 1, 2, 3), (3, 1, 16, 5)):
        check_integer_roll(rng, shape)
        check_fractional(rng, shape)
    check_constant_origin(rng)
    check_pipeline(rng)
    check_degenerate_axis(rng)
    check_errors(rng)
    print("PASS")


if __name__ == "__main__":
    main()
