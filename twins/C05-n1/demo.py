"""
Shared demo for the C05 "semantic synonym" patches (checkpoint/resume equivalence of the
iterative ptychography: save, reload, clone).

It embeds VERBATIM copies of the ORIGINAL versions of the edited functions

    OptimizerMixin.optimizer_params (setter)
    OptimizerMixin.reconnect_optimizer_to_parameters
    Ptychography.save            (only `super()` spelled out as `super(Ptychography, self)`)
    Ptychography.from_file

and asserts that the functions found in the tree (patched or not) behave bit-for-bit like the
originals on a spread of inputs.  AutoSerialize._deserialize_container (too long to embed) is
checked through exact container round trips.  Finally the C05 property itself is asserted:
interrupt after k iterations, clone / save+reload (zip and dir, with and without raw data),
continue, compare with the uninterrupted run.

Invoked as  PYTHONPATH=<root>/src /venv/bin/python demo.py ; CPU only; writes only to a
tempfile.TemporaryDirectory.
"""

import contextlib
import copy
import io
import os
import tempfile
import warnings
from pathlib import Path
from typing import Generator
from warnings import warn

import numpy as np
import torch

torch.set_num_threads(1)
warnings.filterwarnings("ignore")

from quantem.core.datastructures.dataset4dstem import Dataset4dstem  # noqa: E402
from quantem.core.io.serialize import AutoSerialize  # noqa: E402
from quantem.core.io.serialize import load as autoserialize_load  # noqa: E402
from quantem.core.ml.optimizer_mixin import OptimizerMixin  # noqa: E402
from quantem.core.utils.utils import electron_wavelength_angstrom  # noqa: E402
from quantem.diffractive_imaging.dataset_models import PtychographyDatasetRaster  # noqa: E402
from quantem.diffractive_imaging.detector_models import DetectorPixelated  # noqa: E402
from quantem.diffractive_imaging.object_models import ObjectPixelated  # noqa: E402
from quantem.diffractive_imaging.probe_models import ProbePixelated  # noqa: E402
from quantem.diffractive_imaging.ptychography import Ptychography  # noqa: E402

# --------------------------------------------------------------------------------------
# ORIGINAL functions (verbatim copies of the unmodified tree)
# --------------------------------------------------------------------------------------


def orig_optimizer_params_set(self, params: dict):
    """Set the optimizer parameters."""
    self._optimizer_params = params.copy() if params else {}


def orig_reconnect_optimizer_to_parameters(self) -> None:
    """
    Reconnect optimizer to parameters after device changes.
    This is needed because AutoSerialize loads to CPU, but optimizers
    need to reference tensors on the current device.
    """
    if self._optimizer is None:
        return

    current_params = self.get_optimization_parameters()
    if isinstance(current_params, torch.Tensor):
        current_params = [current_params]
    elif isinstance(current_params, Generator):
        current_params = list(current_params)

    optimizable_params = [
        p for p in current_params if isinstance(p, torch.Tensor) and p.is_leaf
    ]

    if not optimizable_params:
        print(
            f"souldn't be getting here! No optimizable parameters found for {self.__class__.__name__}, removing optimizer"
        )
        self.remove_optimizer()
        return

    for p in optimizable_params:
        p.requires_grad_(True)

    # Preserve optimizer state and param_group settings
    old_state = self._optimizer.state.copy()
    current_param_group = self._optimizer.param_groups[0].copy()

    # Reconnect to new parameters
    self._optimizer.param_groups.clear()
    self._optimizer.add_param_group({"params": optimizable_params})

    # Update state mapping and move tensors to correct device
    new_state = {}
    device = optimizable_params[0].device
    for i, old_param in enumerate(old_state.keys()):
        if i < len(optimizable_params):
            new_param = optimizable_params[i]
            new_state[new_param] = {}
            for key, value in old_state[old_param].items():
                if isinstance(value, torch.Tensor):
                    new_state[new_param][key] = value.to(device)
                else:
                    new_state[new_param][key] = value

    self._optimizer.state.clear()
    self._optimizer.state.update(new_state)

    # Restore param_group settings (LR, betas, etc.) but keep new parameters
    self._optimizer.param_groups[0].update(
        {k: v for k, v in current_param_group.items() if k != "params"}
    )

    # Reconnect scheduler
    if self._scheduler is not None and self._optimizer is not None:
        self._scheduler.optimizer = self._optimizer
    return


def orig_save(
    self,
    path,
    mode="w",
    store="auto",
    skip=(),
    compression_level=4,
    save_raw_data: bool = False,
    verbose=True,
):
    if isinstance(skip, (str, type)):
        skip = [skip]
    skip = list(skip)

    # Always skip raw dataset data unless explicitly requested
    if not save_raw_data:
        skip.extend(
            [
                "_dset",  # Skip the dataset object itself
                "dset",  # Skip dataset references
            ]
        )

        # Save dataset metadata for automatic reloading
        self._dataset_metadata = {
            "file_path": str(self.dset.dset.file_path) if self.dset.dset.file_path else None,
            "preprocessing_params": self.dset._preprocessing_params,
            "learned_scan_positions_px": self.dset.scan_positions_px.data.cpu(),
            "learned_descan_shifts": self.dset.descan_shifts.data.cpu(),
        }

    # Add other common skips for ptychography objects
    skips = skip

    current_device = self.device
    self.to("cpu")

    if self.verbose and verbose:
        print(f"Saving ptychography object to {Path(path).resolve()}")

    super(Ptychography, self).save(
        path,
        mode=mode,
        store=store,
        skip=skips,
        compression_level=compression_level,
    )

    self.to(current_device)  # TODO figure out why this isn't working for DDIP sometimes?

    # Clean up temporary metadata
    if not save_raw_data and hasattr(self, "_dataset_metadata"):
        delattr(self, "_dataset_metadata")


def orig_from_file(
    cls,
    path,
    dset=None,
    device=None,
    verbose=None,
    auto_reload_dataset: bool = True,
):
    # Load the base object without the dataset
    ptycho = cls._recursive_load_from_path(path)

    if not isinstance(ptycho, Ptychography):
        raise ValueError("Loaded object is not a Ptychography object")

    # If no dataset was provided, try to reload it from saved metadata
    if dset is None and auto_reload_dataset and not hasattr(ptycho, "dset"):
        if hasattr(ptycho, "_dataset_metadata") and ptycho._dataset_metadata:
            metadata = ptycho._dataset_metadata
            file_path = metadata.get("file_path")

            if file_path:
                # Import here to avoid circular imports
                from quantem.core.io.file_readers import read_4dstem
                from quantem.diffractive_imaging.dataset_models import (
                    PtychographyDatasetRaster,
                )

                # Reload the dataset
                print(f"reloading dataset from {file_path}", end="\r")
                try:
                    raw_dset = read_4dstem(file_path)
                except (ValueError, ModuleNotFoundError) as _e:
                    try:
                        raw_dset = autoserialize_load(file_path)
                        raw_dset.file_path = file_path  # legacy support
                    except Exception as e:
                        raise ValueError(
                            f"Could not automatically reload dataset from {file_path}: {e}"
                        )

                dset = PtychographyDatasetRaster.from_dataset4dstem(
                    raw_dset, verbose=verbose or 1
                )
                # Apply preprocessing with saved parameters
                preprocessing_params = metadata.get("preprocessing_params", {})
                _v = dset.verbose
                dset.verbose = 0
                dset.preprocess(**preprocessing_params)
                dset.verbose = _v

                print(f"Successfully reloaded dataset from {file_path}")
            else:
                dset = None
        else:
            print("Warning: No dataset metadata found in saved object.")
            dset = None
    elif dset is not None:
        dset._set_initial_scan_positions_px(ptycho.obj_padding_px)
        dset._set_patch_indices(ptycho.obj_padding_px)
        if hasattr(ptycho, "_dataset_metadata") and ptycho._dataset_metadata:
            metadata = ptycho._dataset_metadata
            # preserve learned scan positions and descan shifts
            if "learned_scan_positions_px" in metadata:
                dset.scan_positions_px.data = metadata["learned_scan_positions_px"]
            if "learned_descan_shifts" in metadata:
                dset.descan_shifts.data = metadata["learned_descan_shifts"]

    # check if dset was attached to ptycho object
    if dset is not None:
        ptycho.dset = dset
    elif not (hasattr(ptycho, "_dset") and ptycho._dset is not None):
        warn(
            "No dataset provided and could not automatically reload dataset.\n"
            "Please provide a dataset parameter or ensure the object was saved with dataset metadata.\n"
            "Many functionalities will not work without the dataset attached."
        )

    if device is not None:
        ptycho.to(device)

    return ptycho


# --------------------------------------------------------------------------------------
# small synthetic ptychography problem (same recipe as tests/diffractive_imaging, N=16)
# --------------------------------------------------------------------------------------
N = 16
Q_MAX = 0.5
Q_PROBE = Q_MAX / 2
ENERGY = 300e3
C10 = 50


def build_raw():
    rng = np.random.default_rng(42)
    arr = rng.random((N, N))
    arr -= arr.mean()
    obj = np.exp(1j * arr.astype(np.float32))
    sampling = 1 / Q_MAX / 2
    rs = 2 * Q_MAX / N
    qx = np.fft.fftfreq(N, sampling)
    q = np.sqrt(qx[:, None] ** 2 + qx[None, :] ** 2)
    ap = np.sqrt(np.clip((Q_PROBE - q) / rs + 0.5, 0, 1))
    chi = q**2 * electron_wavelength_angstrom(ENERGY) * np.pi * C10
    pf = ap * np.exp(-1j * chi)
    pf /= np.sqrt(np.sum(np.abs(pf) ** 2))
    probe = np.fft.ifft2(pf) * N
    x = np.arange(0.0, N, 1)
    xx, yy = np.meshgrid(x, x, indexing="ij")
    pos = np.stack((xx.ravel(), yy.ravel()), -1)
    x0 = np.round(pos[:, 0]).astype(int)
    y0 = np.round(pos[:, 1]).astype(int)
    xi = np.fft.fftfreq(N, d=1 / N).astype(int)
    row = (x0[:, None, None] + xi[None, :, None]) % N
    col = (y0[:, None, None] + xi[None, None, :]) % N
    inten = np.abs(np.fft.fft2(obj[row, col] * probe)) ** 2
    d = Dataset4dstem.from_array(
        array=np.fft.fftshift(inten * 100, axes=(-2, -1)).reshape((N, N, N, N)),
        sampling=(1, 1, rs, rs),
        units=("A", "A", "A^-1", "A^-1"),
    )
    return d, probe


def build_pdset(d):
    pd = PtychographyDatasetRaster.from_dataset4dstem(d, verbose=0)
    pd.preprocess(
        com_fit_function="constant",
        plot_rotation=False,
        plot_com=False,
        probe_energy=ENERGY,
        force_com_rotation=0,
        force_com_transpose=False,
    )
    return pd


def build(num_probes=1, obj_type="complex", rawpath=None):
    d, probe = build_raw()
    if rawpath is not None:
        if not os.path.exists(rawpath):
            d.save(rawpath)
        d.file_path = rawpath
    pd = build_pdset(d)
    om = ObjectPixelated.from_uniform(num_slices=1, obj_type=obj_type, slice_thicknesses=1)
    pm = ProbePixelated.from_array(
        num_probes=num_probes,
        probe_params={
            "energy": ENERGY,
            "C10": C10,
            "semiangle_cutoff": electron_wavelength_angstrom(ENERGY) * 1e3,
        },
        rng=11,
        probe_array=probe if num_probes == 1 else np.stack([probe * 0.5**i for i in range(num_probes)]),
    )
    p = Ptychography.from_models(
        dset=pd,
        obj_model=om,
        probe_model=pm,
        detector_model=DetectorPixelated(),
        rng=42,
        verbose=0,
    )
    p.preprocess(obj_padding_px=(0, 0))
    return p


def quiet(f, *a, **k):
    with contextlib.redirect_stdout(io.StringIO()):
        return f(*a, **k)


def deep_equal(a, b):
    if type(a) is not type(b):
        return False
    if isinstance(a, dict):
        return a.keys() == b.keys() and all(deep_equal(a[k], b[k]) for k in a)
    if isinstance(a, (list, tuple)):
        return len(a) == len(b) and all(deep_equal(x, y) for x, y in zip(a, b))
    if isinstance(a, torch.Tensor):
        return a.dtype == b.dtype and a.shape == b.shape and torch.equal(a, b)
    if isinstance(a, np.ndarray):
        return a.dtype == b.dtype and a.shape == b.shape and np.array_equal(a, b)
    return a == b


def report(p):
    """everything the property observes"""
    return {
        "num_iters": p.num_iters,
        "iter_losses": p.iter_losses,
        "iter_lrs": p.iter_lrs,
        "constraints": p.constraints,
        "obj": p.obj,
        "probe": p.probe,
        "scan": p.dset.scan_positions_px.detach().cpu().numpy(),
        "descan": p.dset.descan_shifts.detach().cpu().numpy(),
        "opt_keys": sorted(p.optimizers.keys()),
        "sched_keys": sorted(p.schedulers.keys()),
        "opt_params": p.optimizer_params,
        "sched_params": p.scheduler_params,
    }


def opt_state_report(p):
    out = {}
    for k, o in p.optimizers.items():
        out[k] = (
            [{kk: vv for kk, vv in g.items() if kk != "params"} for g in o.param_groups],
            [dict(s) for s in o.state.values()],
        )
    return out


# --------------------------------------------------------------------------------------
# A. OptimizerMixin.optimizer_params setter  (old == new)
# --------------------------------------------------------------------------------------
class Toy(OptimizerMixin):
    def __init__(self, shapes=((3, 2),), mode="list", seed=0):
        OptimizerMixin.__init__(self)
        g = torch.Generator().manual_seed(seed)
        self.ps = [torch.randn(*s, generator=g).requires_grad_(True) for s in shapes]
        self.mode = mode
        self.extra = []

    def get_optimization_parameters(self):
        if self.mode == "tensor":
            return self.ps[0]
        if self.mode == "gen":
            return (p for p in self.ps + self.extra)
        if self.mode == "tuple":
            return tuple(self.ps + self.extra)
        return self.ps + self.extra


class MyDict(dict):
    def copy(self):
        return MyDict(self)


def check_optimizer_params_setter():
    cases = [
        None,
        {},
        MyDict(),
        {"type": "adam", "lr": 0.1},
        {"lr": 0.0},
        MyDict(type="sgd", lr=1e-3, momentum=0.9),
        {"type": "none"},
    ]
    for c in cases:
        a, b = Toy(), Toy()
        a._optimizer_params = {"stale": 1}
        b._optimizer_params = {"stale": 1}
        a.optimizer_params = c
        orig_optimizer_params_set(b, c)
        assert type(a._optimizer_params) is type(b._optimizer_params), c
        assert a._optimizer_params == b._optimizer_params, c
        assert a._optimizer_params is not c and b._optimizer_params is not c, c
        assert a.optimizer_params == b.optimizer_params
    # truthy values without .copy() fail identically, leaving the old value in place
    for bad in [[("type", "adam")], "adam", 3]:
        a, b = Toy(), Toy()
        errs = []
        for obj, fn in ((a, lambda o, v: setattr(o, "optimizer_params", v)), (b, orig_optimizer_params_set)):
            try:
                fn(obj, bad)
                errs.append(None)
            except Exception as e:  # noqa: BLE001
                errs.append(type(e))
        assert errs[0] is errs[1], (bad, errs)
        assert a._optimizer_params == b._optimizer_params
    # through set_optimizer (the caller on the reconstruct path)
    for c in [{"type": "adam", "lr": 0.1}, {"type": "sgd", "lr": 0.5, "momentum": 0.5}]:
        a = Toy()
        keep = dict(c)
        a.set_optimizer(c)
        assert c == keep and a._optimizer_params == keep and a._optimizer_params is not c
        assert a.optimizer.param_groups[0]["lr"] == keep["lr"]


# --------------------------------------------------------------------------------------
# B. OptimizerMixin.reconnect_optimizer_to_parameters  (old == new)
# --------------------------------------------------------------------------------------
def toy_step(t, it):
    """deterministic gradient, optimizer and scheduler step"""
    t.zero_optimizer_grad()
    loss = sum(((p - 0.25 * (i + 1)) ** 2).sum() * (1 + 0.1 * it) for i, p in enumerate(t.ps))
    loss.backward()
    t.step_optimizer()
    t.step_scheduler(float(loss))
    return float(loss)


def check_reconnect():
    opt_cfgs = [
        {"type": "sgd", "lr": 0.05, "momentum": 0.9},
        {"type": "adam", "lr": 0.02},
        {"type": "adamw", "lr": 0.02, "weight_decay": 0.1},
    ]
    sched_cfgs = [None, {"type": "exp", "gamma": 0.8}, {"type": "plateau", "patience": 0, "cooldown": 0}]
    modes = ["tensor", "list", "gen", "tuple"]
    n_checked = 0
    for oc in opt_cfgs:
        for sc in sched_cfgs:
            for mode in modes:
                for extra_kind in ("none", "junk"):
                    shapes = ((3, 2),) if mode == "tensor" else ((3, 2), (4,))
                    base = Toy(shapes=shapes, mode=mode)
                    base.set_optimizer(dict(oc))
                    base.set_scheduler(dict(sc) if sc else None, num_iter=6)
                    for it in range(3):
                        toy_step(base, it)
                    twins = [copy.deepcopy(base), copy.deepcopy(base)]
                    for t in twins:
                        # what a device move / reload does: parameters become NEW tensors,
                        # the optimizer still refers to the stale ones
                        t.ps = [p.detach().clone() for p in t.ps]
                        assert not any(p.requires_grad for p in t.ps)
                        if extra_kind == "junk" and mode != "tensor":
                            # a non-leaf tensor and a non-tensor must be filtered out
                            t.extra = [torch.ones(2, requires_grad=True) * 2.0, "x"]
                    orig_reconnect_optimizer_to_parameters(twins[0])
                    twins[1].reconnect_optimizer_to_parameters()
                    a, b = twins
                    for t in twins:
                        got = t._optimizer.param_groups[0]["params"]
                        assert len(t._optimizer.param_groups) == 1
                        assert len(got) == len(t.ps) and all(x is y for x, y in zip(got, t.ps))
                        assert all(p.requires_grad for p in t.ps)
                        keys = list(t._optimizer.state.keys())
                        assert len(keys) == len(t.ps) and all(x is y for x, y in zip(keys, t.ps))
                        if t._scheduler is not None:
                            assert t._scheduler.optimizer is t._optimizer
                    ga = {k: v for k, v in a._optimizer.param_groups[0].items() if k != "params"}
                    gb = {k: v for k, v in b._optimizer.param_groups[0].items() if k != "params"}
                    assert list(ga.keys()) == list(gb.keys()) and deep_equal(ga, gb)
                    sa = [dict(s) for s in a._optimizer.state.values()]
                    sb = [dict(s) for s in b._optimizer.state.values()]
                    assert deep_equal(sa, sb), (oc, sc, mode)
                    # continuing gives bit-identical trajectories, and equals the uninterrupted one
                    for it in range(3, 6):
                        la, lb, l0 = toy_step(a, it), toy_step(b, it), toy_step(base, it)
                        assert la == lb == l0
                    for pa, pb, p0 in zip(a.ps, b.ps, base.ps):
                        assert torch.equal(pa, pb) and torch.equal(pa, p0)
                    assert a.get_current_lr() == b.get_current_lr() == base.get_current_lr()
                    n_checked += 1
    # no optimizer: nothing happens
    a, b = Toy(), Toy()
    assert orig_reconnect_optimizer_to_parameters(a) is None
    assert b.reconnect_optimizer_to_parameters() is None
    assert a._optimizer is None and b._optimizer is None
    # nothing optimizable left: optimizer removed, same message
    outs = []
    for fn in (orig_reconnect_optimizer_to_parameters, lambda t: t.reconnect_optimizer_to_parameters()):
        t = Toy(shapes=((2,), (2,)))
        t.set_optimizer({"type": "adam", "lr": 0.1})
        t.set_scheduler({"type": "exp", "gamma": 0.5})
        t.ps = []
        t.extra = ["a", 1.0, (torch.ones(2, requires_grad=True) * 2)]
        buf = io.StringIO()
        with contextlib.redirect_stdout(buf):
            fn(t)
        outs.append(buf.getvalue())
        assert t._optimizer is None and t._scheduler is None
        assert t._optimizer_params == {} and t._scheduler_params == {}
    assert outs[0] == outs[1] and "No optimizable parameters" in outs[0]
    return n_checked


# --------------------------------------------------------------------------------------
# C. AutoSerialize containers (exact round trip through _deserialize_container)
# --------------------------------------------------------------------------------------
class Box(AutoSerialize):
    def __init__(self, **kw):
        for k, v in kw.items():
            setattr(self, k, v)


class Inner(AutoSerialize):
    def __init__(self, v):
        self.v = v


def check_containers(td):
    t = torch.arange(6, dtype=torch.float32).reshape(2, 3)
    content = dict(
        empty_list=[],
        empty_tuple=(),
        nums=[1.5, 2.5, 3.5],
        ints=(1, 2, 3),
        strs=["a", "b", "c"],
        mixed=[1, "a", None, 2.5, True, Path("/tmp/x"), np.arange(3), t, [1, 2], (), {"k": [3, "z"]}],
        nested=[[], [[]], [(), ("q",)], [[1.0, 2.0], ["u", 3]]],
        eleven=[str(i) for i in range(11)],  # two-digit keys: order must be numeric
        objs=[Inner(1), Inner([Inner("deep")]), "tail"],
        tens=(t, t + 1),
        aset={"x", "y"},
        lrs={"object": [0.1, 0.05], "probe": [], "dataset": [0.0, "n/a"]},
        snapshots=[{"iteration": 1, "obj": np.ones((2, 2)), "probe": t}],
    )
    for store in ("zip", "dir"):
        path = os.path.join(td, f"box_{store}" + (".zip" if store == "zip" else ""))
        quiet(Box(**content).save, path, store=store)
        back = quiet(autoserialize_load, path)

        def norm(x):
            if isinstance(x, Inner):
                return ("Inner", norm(x.v))
            if isinstance(x, list):
                return [norm(i) for i in x]
            if isinstance(x, tuple):
                return tuple(norm(i) for i in x)
            if isinstance(x, dict):
                return {k: norm(v) for k, v in x.items()}
            return x

        for k, v in content.items():
            got = getattr(back, k)
            assert deep_equal(norm(got), norm(v)), (store, k, got, v)

        if store == "dir":
            # the ORIGINAL length expression of the list/tuple branch, evaluated on every stored
            # sequence group, equals the length the tree's _deserialize_container reconstructs
            import zarr
            from zarr.storage import LocalStore

            def orig_length(group):
                return (
                    max(
                        (
                            int(k)
                            for k in list(group.attrs)
                            + list(group.array_keys())
                            + list(group.group_keys())
                            if k.isdigit()
                        ),
                        default=-1,
                    )
                    + 1
                )

            seen = []

            def walk(g):
                if g.attrs.get("_container_type") in ("list", "tuple") and not (
                    g.attrs.get("_sequence_encoding") == "ndarray"
                ):
                    out = quiet(AutoSerialize._deserialize_container, g)
                    assert len(out) == orig_length(g), g.path
                    seen.append(len(out))
                for name in g.group_keys():
                    walk(g[name])

            walk(zarr.group(store=LocalStore(path)))
            assert 0 in seen and 11 in seen and len(seen) >= 15, seen


# --------------------------------------------------------------------------------------
# D. Ptychography.save / from_file  (old == new), and E. the C05 property
# --------------------------------------------------------------------------------------
OPT = {"object": {"type": "adam", "lr": 1e-2}, "probe": {"type": "adam", "lr": 1e-3}}
SCH = {"object": {"type": "exp", "gamma": 0.9}}


def assert_same_report(ra, rb, exact=True, what=""):
    assert list(ra.keys()) == list(rb.keys())
    for k in ra:
        if exact or k in ("num_iters", "constraints", "opt_keys", "sched_keys", "opt_params", "sched_params"):
            assert deep_equal(ra[k], rb[k]), (what, k, ra[k], rb[k])
        elif k == "iter_lrs":
            assert sorted(ra[k]) == sorted(rb[k]), (what, k)
            for kk in ra[k]:
                np.testing.assert_allclose(ra[k][kk], rb[k][kk], rtol=1e-6, atol=0, err_msg=f"{what} {k}")
        elif k == "iter_losses":
            np.testing.assert_allclose(ra[k], rb[k], rtol=1e-4, atol=0, err_msg=f"{what} {k}")
        else:
            np.testing.assert_allclose(ra[k], rb[k], rtol=1e-3, atol=1e-5, err_msg=f"{what} {k}")


def check_save_and_from_file(td):
    rawpath = os.path.join(td, "raw4d.zip")
    p = build(rawpath=rawpath)
    p.reconstruct(num_iters=3, reset=True, optimizer_params=copy.deepcopy(OPT), scheduler_params=copy.deepcopy(SCH))
    saved = report(p)
    saved_state = opt_state_report(p)

    n = 0
    combos = [
        (False, "zip", ()),
        (False, "dir", "_snapshots"),
        (True, "zip", ["_snapshots", "_iter_recon_types"]),
        (True, "dir", ()),
    ]
    for raw, store, skip in combos:
        for _once in (0,):
            for _once2 in (0,):
                n += 1
                ext = ".zip" if store == "zip" else ""
                f_new = os.path.join(td, f"new_{n}{ext}")
                f_old = os.path.join(td, f"old_{n}{ext}")
                pre_meta = {"file_path": None, "marker": 1}
                outs = []
                for fn, f in ((Ptychography.save, f_new), (orig_save, f_old)):
                    if raw:
                        # an already present attribute must survive a save with raw data
                        p._dataset_metadata = pre_meta
                    assert raw or not hasattr(p, "_dataset_metadata")
                    buf = io.StringIO()
                    with contextlib.redirect_stdout(buf):
                        ret = fn(p, f, mode="w", store=store, skip=skip, save_raw_data=raw, verbose=0)
                    outs.append(buf.getvalue())
                    assert ret is None
                    if raw:
                        assert p._dataset_metadata is pre_meta
                        del p._dataset_metadata
                    else:
                        assert not hasattr(p, "_dataset_metadata")
                    assert p.device == "cpu"
                    # saving does not disturb the live object
                    assert_same_report(report(p), saved, what="after save")
                    assert deep_equal(opt_state_report(p), saved_state)
                assert outs[0] == outs[1]

                # all four (writer, reader) combinations give the same object
                loaded = []
                for f in (f_new, f_old):
                    for reader in (Ptychography.from_file, lambda *a, **k: orig_from_file(Ptychography, *a, **k)):
                        q = quiet(reader, f)
                        assert isinstance(q, Ptychography)
                        assert q.dset.verbose == (p.dset.verbose if raw else 1)
                        assert hasattr(q, "_dataset_metadata")
                        assert raw == (q._dataset_metadata.get("marker") == 1)
                        loaded.append(q)
                reps = [report(q) for q in loaded]
                sts = [opt_state_report(q) for q in loaded]
                for r, s in zip(reps, sts):
                    assert_same_report(r, reps[0], what="readers/writers")
                    assert deep_equal(s, sts[0])
                # ... which is the saved one
                assert_same_report(reps[0], saved, what=f"reload raw={raw} {store}")
                assert deep_equal(sts[0], saved_state)

    # explicit dataset (elif branch), auto_reload_dataset=False (warning branch), device="cpu"
    f_meta = os.path.join(td, "meta.zip")
    quiet(p.save, f_meta, verbose=0)
    res = []
    for reader in (Ptychography.from_file, lambda *a, **k: orig_from_file(Ptychography, *a, **k)):
        d, _ = build_raw()
        pd = build_pdset(d)
        pd.verbose = 3
        q = quiet(reader, f_meta, dset=pd, device="cpu")
        assert q.dset is pd and pd.verbose == 3
        res.append(report(q))
        with warnings.catch_warnings(record=True) as w:
            warnings.simplefilter("always")
            q2 = quiet(reader, f_meta, auto_reload_dataset=False)
        assert not hasattr(q2, "_dset") or q2._dset is None
        assert any("No dataset provided" in str(x.message) for x in w)
        res.append((q2.num_iters, q2.iter_losses.tolist(), {k: v.tolist() for k, v in q2.iter_lrs.items()}))
        # verbose passed through to the reloaded dataset and restored after the silent preprocess
        for v in (None, 0, 2):
            q3 = quiet(reader, f_meta, verbose=v)
            res.append(q3.dset.verbose)
            assert q3.dset.verbose == (v or 1)
    half = len(res) // 2
    for x, y in zip(res[:half], res[half:]):
        if isinstance(x, dict):
            assert_same_report(x, y, what="explicit dset")
        else:
            assert x == y
    assert_same_report(res[0], saved, what="explicit dset vs saved")
    return p, saved


def check_property(td):
    cfgs = [
        # (num_probes, obj_type, optimizer params, scheduler params, split points)
        (1, "complex", {"object": {"type": "adam", "lr": 1e-2}, "probe": {"type": "adam", "lr": 1e-3}},
         {"object": {"type": "exp", "gamma": 0.9}}, (1, 3)),
        (2, "complex", {"object": {"type": "sgd", "lr": 5e-2, "momentum": 0.9}, "probe": {"type": "adamw", "lr": 1e-3}},
         {"object": {"type": "plateau", "patience": 0, "cooldown": 0}, "probe": {"type": "linear", "total_iters": 4}}, (2,)),
        (1, "potential", {"object": {"type": "adamw", "lr": 5e-3}, "dataset": {"type": "adam", "lr": 1e-3}},
         {"object": {"type": "cyclic", "step_size_up": 2}}, (3,)),
    ]
    n_total = 4
    rawpath = os.path.join(td, "raw4d_prop.zip")
    count = 0
    for ci, (nprobes, otype, opt, sch, splits) in enumerate(cfgs):
        ref = build(nprobes, otype, rawpath=rawpath)
        ref.reconstruct(num_iters=n_total, reset=True, optimizer_params=copy.deepcopy(opt),
                        scheduler_params=copy.deepcopy(sch))
        want = report(ref)
        assert want["num_iters"] == n_total

        run = build(nprobes, otype, rawpath=rawpath)
        done = 0
        for k in splits:
            if done == 0:
                run.reconstruct(num_iters=k, reset=True, optimizer_params=copy.deepcopy(opt),
                                scheduler_params=copy.deepcopy(sch))
            else:
                run.reconstruct(num_iters=k - done)
            done = k
            at_k = report(run)
            copies = {"clone": run.clone()}
            # the claim is about saving together with the data; without raw data the dataset is
            # rebuilt from file, which is only exact when the dataset itself is not optimised
            variants = [("zip", True), ("dir", True)] + ([] if "dataset" in opt else [("zip", False)])
            for store, raw in variants:
                f = os.path.join(td, f"prop_{ci}_{k}_{store}_{int(raw)}" + (".zip" if store == "zip" else ""))
                quiet(run.save, f, store=store, save_raw_data=raw, verbose=0)
                copies[f"{store}/raw={raw}"] = quiet(Ptychography.from_file, f)
            # clone through the serialise/reload fallback as well
            orig_deepcopy = copy.deepcopy
            calls = {"n": 0}

            def failing_deepcopy(x, memo=None, _nil=[]):
                if isinstance(x, Ptychography) and calls["n"] == 0:
                    calls["n"] += 1
                    raise RuntimeError("forced fallback")
                return orig_deepcopy(x, memo)

            copy.deepcopy = failing_deepcopy
            try:
                copies["clone-fallback"] = quiet(run.clone)
            finally:
                copy.deepcopy = orig_deepcopy
            assert calls["n"] == 1
            assert_same_report(report(run), at_k, what="save/clone left the original untouched")

            for name, c in copies.items():
                assert c is not run
                # the copy reports what was saved ...
                assert_same_report(report(c), at_k, what=f"cfg{ci} k={k} {name} at reload")
                assert deep_equal(opt_state_report(c), opt_state_report(run)), (ci, k, name)
                # ... and continues like the uninterrupted run
                c.reconstruct(num_iters=n_total - k)
                assert_same_report(report(c), want, exact=False, what=f"cfg{ci} k={k} {name} continued")
                count += 1
        run.reconstruct(num_iters=n_total - done)
        assert_same_report(report(run), want, exact=False, what=f"cfg{ci} segmented run")
    return count


def main():
    import time

    t0 = time.time()
    with tempfile.TemporaryDirectory() as td:
        # everything the library itself puts into the default temp dir (zip extraction,
        # the clone() fallback archive) goes inside our temporary directory as well
        tempfile.tempdir = td
        check_optimizer_params_setter()
        n_rec = check_reconnect()
        t1 = time.time()
        check_containers(td)
        t2 = time.time()
        check_save_and_from_file(td)
        t3 = time.time()
        n_prop = check_property(td)
        t4 = time.time()
        tempfile.tempdir = None
    print(
        f"OK: reconnect twins {n_rec}, resumed copies {n_prop} "
        f"(mixin {t1 - t0:.1f}s, containers {t2 - t1:.1f}s, save/from_file {t3 - t2:.1f}s, property {t4 - t3:.1f}s)"
    )


if __name__ == "__main__":
    main()
