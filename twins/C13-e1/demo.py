"""C13 / patch 1 demo: NumPy cross_correlation_shift (parabolic refinement of the
coarse and of the upsampled peak, border handling of the local patch).

Checks the registration property on a spread of shapes / shifts / upsampling
factors and compares the installed implementation with a verbatim copy of the
original function (bit-identical results expected).
"""

import itertools
import os
import sys

# many tiny matrix products: BLAS threading only adds overhead here
for _v in ("OMP_NUM_THREADS", "OPENBLAS_NUM_THREADS", "MKL_NUM_THREADS"):
    os.environ.setdefault(_v, "1")

import numpy as np  # noqa: E402

from quantem.core.utils.imaging_utils import (  # noqa: E402
    cross_correlation_shift,
    dft_upsample,
)


# --------------------------------------------------------------------------------------
# verbatim copy of the ORIGINAL function (device='cpu' path only is exercised)
# --------------------------------------------------------------------------------------
def orig_cross_correlation_shift(
    im_ref,
    im,
    upsample_factor: int = 1,
    max_shift=None,
    return_shifted_image: bool = False,
    fft_input: bool = False,
    fft_output: bool = False,
    device: str = "cpu",
):
    if device == "gpu":
        import cupy as cp  # type: ignore

        xp = cp
    else:
        xp = np

    # Fourier transforms
    F_ref = im_ref if fft_input else xp.fft.fft2(im_ref)
    F_im = im if fft_input else xp.fft.fft2(im)

    # Correlation
    cc = F_ref * xp.conj(F_im)
    cc_real = xp.real(xp.fft.ifft2(cc))

    if max_shift is not None:
        x = np.fft.fftfreq(cc.shape[0], 1 / cc.shape[0])
        y = np.fft.fftfreq(cc.shape[1], 1 / cc.shape[1])
        mask = x[:, None] ** 2 + y[None, :] ** 2 >= max_shift**2
        cc_real[mask] = 0.0

    # Coarse peak
    peak = xp.unravel_index(xp.argmax(cc_real), cc_real.shape)
    x0, y0 = peak

    # Parabolic refinement
    x_inds = xp.mod(x0 + xp.arange(-1, 2), cc.shape[0]).astype(int)
    y_inds = xp.mod(y0 + xp.arange(-1, 2), cc.shape[1]).astype(int)

    vx = cc_real[x_inds, y0]
    vy = cc_real[x0, y_inds]

    def parabolic_peak(v):
        return (v[2] - v[0]) / (4 * v[1] - 2 * v[2] - 2 * v[0])

    dx = parabolic_peak(vx)
    dy = parabolic_peak(vy)

    x0 = (x0 + dx) % cc.shape[0]
    y0 = (y0 + dy) % cc.shape[1]

    if upsample_factor <= 1:
        shifts = (x0, y0)
    else:
        # Local DFT upsampling

        local = dft_upsample(cc, upsample_factor, (x0, y0), device=device)
        peak = np.unravel_index(xp.argmax(local), local.shape)

        try:
            lx, ly = peak
            icc = local[lx - 1 : lx + 2, ly - 1 : ly + 2]
            if icc.shape == (3, 3):
                dxf = parabolic_peak(icc[:, 1])
                dyf = parabolic_peak(icc[1, :])
            else:
                raise ValueError("Subarray too close to edge")
        except (IndexError, ValueError):
            dxf = dyf = 0.0

        # the local patch is centred on (x0, y0): its centre sample has index (len - 1) // 2
        center = (np.array(local.shape) - 1) // 2
        shifts = np.array([x0, y0]) + (np.array(peak) - center) / upsample_factor
        shifts += np.array([dxf, dyf]) / upsample_factor

    shifts = (shifts + 0.5 * np.array(cc.shape)) % cc.shape - 0.5 * np.array(cc.shape)

    if not return_shifted_image:
        return shifts

    # Fourier shift image (F_im assumed to be FFT)
    kx = xp.fft.fftfreq(F_im.shape[0])[:, None]
    ky = xp.fft.fftfreq(F_im.shape[1])[None, :]
    phase_ramp = xp.exp(-2j * np.pi * (kx * shifts[0] + ky * shifts[1]))
    F_im_shifted = F_im * phase_ramp
    if fft_output:
        image_shifted = F_im_shifted
    else:
        image_shifted = xp.real(xp.fft.ifft2(F_im_shifted))

    return shifts, image_shifted


# --------------------------------------------------------------------------------------
# helpers
# --------------------------------------------------------------------------------------
def band_limited_image(shape, seed):
    rng = np.random.default_rng(seed)
    im = rng.normal(size=shape)
    # a few bright blobs so that the autocorrelation peak is unique and well conditioned
    rr, cc = np.meshgrid(np.arange(shape[0]), np.arange(shape[1]), indexing="ij")
    for _ in range(4):
        r0, c0 = rng.uniform(0, shape[0]), rng.uniform(0, shape[1])
        im += 6.0 * np.exp(-((rr - r0) ** 2 + (cc - c0) ** 2) / (2 * 1.7**2))
    F = np.fft.fft2(im)
    kx = np.fft.fftfreq(shape[0])[:, None]
    ky = np.fft.fftfreq(shape[1])[None, :]
    F = F * ((np.abs(kx) < 0.24) & (np.abs(ky) < 0.24))
    return np.real(np.fft.ifft2(F))


def fourier_shift(im, s):
    kx = np.fft.fftfreq(im.shape[0])[:, None]
    ky = np.fft.fftfreq(im.shape[1])[None, :]
    ramp = np.exp(-2j * np.pi * (kx * s[0] + ky * s[1]))
    return np.real(np.fft.ifft2(np.fft.fft2(im) * ramp))


def periodic_err(got, expected, shape):
    shape = np.asarray(shape, dtype=float)
    d = np.asarray(got, dtype=float) - np.asarray(expected, dtype=float)
    return np.abs((d + shape / 2) % shape - shape / 2)


def same(a, b, what):
    """old / new must agree bit for bit (NaN == NaN)."""
    if isinstance(a, tuple):
        assert isinstance(b, tuple) and len(a) == len(b), what
        for u, v in zip(a, b):
            same(u, v, what)
        return
    a = np.asarray(a)
    b = np.asarray(b)
    assert a.dtype == b.dtype, (what, a.dtype, b.dtype)
    assert a.shape == b.shape, (what, a.shape, b.shape)
    np.testing.assert_array_equal(a, b, err_msg=what)


SHAPES = [(32, 32), (31, 37), (24, 40), (17, 16), (45, 20)]
UPS = [1, 2, 3, 4, 5, 8, 16, 37, 64]
n_checks = 0

# --------------------------------------------------------------------------------------
# 1. integer shifts anywhere in the periodic cell: exact, old == new
# --------------------------------------------------------------------------------------
for si, shape in enumerate(SHAPES):
    M, N = shape
    im = band_limited_image(shape, seed=si)
    int_shifts = [
        (0, 0),
        (1, 0),
        (0, -1),
        (3, -5),
        (-4, 7),
        (M // 2 + 2, -(N // 2 + 3)),  # beyond half the size
        (M - 1, N - 1),
        (M // 2 - 1, N // 2 - 1),
    ]
    for s in int_shifts:
        ref = np.roll(im, s, axis=(0, 1))  # translating `im` by s reproduces `ref`
        for up in UPS:
            got = cross_correlation_shift(ref, im, upsample_factor=up)
            old = orig_cross_correlation_shift(ref, im, upsample_factor=up)
            same(old, got, f"int shift {shape} {s} up={up}")
            err = periodic_err(got, s, shape)
            assert np.all(err < 1e-6), (shape, s, up, got)
            # swapped arguments negate the result
            swapped = cross_correlation_shift(im, ref, upsample_factor=up)
            same(orig_cross_correlation_shift(im, ref, upsample_factor=up), swapped, "swap")
            assert np.all(periodic_err(swapped, -np.asarray(s), shape) < 1e-6), (shape, s, up)
            n_checks += 2

        # aligned image, real- and Fourier-space in/out
        for up, fi, fo in itertools.product([1, 4, 16], [False, True], [False, True]):
            a = np.fft.fft2(ref) if fi else ref
            b = np.fft.fft2(im) if fi else im
            kw = dict(upsample_factor=up, return_shifted_image=True, fft_input=fi, fft_output=fo)
            got_s, got_im = cross_correlation_shift(a, b, **kw)
            old_s, old_im = orig_cross_correlation_shift(a, b, **kw)
            same(old_s, got_s, "aligned: shift")
            same(old_im, got_im, "aligned: image")
            aligned = np.real(np.fft.ifft2(got_im)) if fo else got_im
            assert np.allclose(aligned, ref, atol=1e-6 * np.abs(ref).max()), (shape, s, up, fi, fo)
            n_checks += 1

# --------------------------------------------------------------------------------------
# 2. identical images: zero shift for every upsampling factor 1..64
# --------------------------------------------------------------------------------------
for si, shape in enumerate(SHAPES[:3]):
    im = band_limited_image(shape, seed=100 + si)
    for up in range(1, 65):
        got = cross_correlation_shift(im, im, upsample_factor=up)
        same(orig_cross_correlation_shift(im, im, upsample_factor=up), got, "identical")
        assert np.all(np.abs(got) < 1e-6), (shape, up, got)
        n_checks += 1

# --------------------------------------------------------------------------------------
# 3. band-limited sub-pixel shifts: within one upsampled pixel, aligned image consistent
# --------------------------------------------------------------------------------------
rng = np.random.default_rng(7)
for si, shape in enumerate(SHAPES):
    M, N = shape
    im = band_limited_image(shape, seed=200 + si)
    sub_shifts = [
        (0.5, -0.5),
        (0.25, 0.75),
        (-3.3, 6.6),
        (M / 2 + 1.4, -(N / 2) - 2.7),  # beyond half the size
        tuple(rng.uniform(-0.5, 0.5, size=2) * np.array(shape)),
        tuple(rng.uniform(-0.5, 0.5, size=2) * np.array(shape)),
    ]
    for s in sub_shifts:
        ref = fourier_shift(im, s)
        for up in UPS:
            got, aligned = cross_correlation_shift(
                ref, im, upsample_factor=up, return_shifted_image=True
            )
            old, old_aligned = orig_cross_correlation_shift(
                ref, im, upsample_factor=up, return_shifted_image=True
            )
            same(old, got, f"sub-pixel shift {shape} {s} up={up}")
            same(old_aligned, aligned, "sub-pixel aligned")
            tol = 1.0 / up if up > 1 else 0.3
            err = periodic_err(got, s, shape)
            assert np.all(err <= tol), (shape, s, up, got, err)
            # aligned image is `im` Fourier-shifted by exactly the returned shift ...
            assert np.allclose(aligned, fourier_shift(im, got), atol=1e-9)
            # ... and approaches the reference as the estimate gets finer
            if up >= 16:
                rel = np.abs(aligned - ref).max() / np.abs(ref).max()
                assert rel < 0.2, (shape, s, up, rel)
            # swap negates (each estimate is good to one upsampled pixel)
            swapped = cross_correlation_shift(im, ref, upsample_factor=up)
            same(orig_cross_correlation_shift(im, ref, upsample_factor=up), swapped, "swap")
            assert np.all(periodic_err(swapped, -np.asarray(got), shape) <= 2 * tol)
            n_checks += 1

# --------------------------------------------------------------------------------------
# 4. max_shift settings (mask on the coarse correlation only)
# --------------------------------------------------------------------------------------
for si, shape in enumerate(SHAPES):
    im = band_limited_image(shape, seed=300 + si)
    for s in [(2, -3), (5.4, 1.2), (-6, 6)]:
        ref = fourier_shift(im, s)
        for up, ms in itertools.product([1, 4, 8], [None, 3, 7.5, 12, 1000]):
            kw = dict(upsample_factor=up, max_shift=ms, return_shifted_image=True)
            got = cross_correlation_shift(ref, im, **kw)
            old = orig_cross_correlation_shift(ref, im, **kw)
            same(old, got, f"max_shift {shape} {s} up={up} ms={ms}")
            if ms is None or ms > np.hypot(*s) + 1:
                tol = 1.0 / up if up > 1 else 0.3
                assert np.all(periodic_err(got[0], s, shape) <= tol), (shape, s, up, ms, got[0])
            n_checks += 1

# --------------------------------------------------------------------------------------
# 5. fuzz with arbitrary (not band-limited, even Fourier-space) inputs so that the
#    upsampled peak regularly lands on the border of the local patch (no 3x3
#    neighbourhood -> no refinement); old and new must still agree bit for bit
# --------------------------------------------------------------------------------------
n_border = 0
with np.errstate(all="ignore"):
    for trial in range(400):
        r = np.random.default_rng(1000 + trial)
        shape = (int(r.integers(3, 14)), int(r.integers(3, 14)))
        up = int(r.integers(2, 20))
        fi = bool(r.integers(0, 2))
        if fi:
            a = r.normal(size=shape) + 1j * r.normal(size=shape)
            b = r.normal(size=shape) + 1j * r.normal(size=shape)
        else:
            a = r.normal(size=shape)
            b = r.normal(size=shape)
        ms = [None, 1.5, 2.5, 4][int(r.integers(0, 4))]
        kw = dict(upsample_factor=up, max_shift=ms, fft_input=fi, return_shifted_image=True)
        got = cross_correlation_shift(a, b, **kw)
        old = orig_cross_correlation_shift(a, b, **kw)
        same(old, got, f"fuzz {trial}")

        # count how often the border branch is actually taken (diagnostic only)
        Fa = a if fi else np.fft.fft2(a)
        Fb = b if fi else np.fft.fft2(b)
        cc = Fa * np.conj(Fb)
        ccr = np.real(np.fft.ifft2(cc))
        if ms is not None:
            x = np.fft.fftfreq(shape[0], 1 / shape[0])
            y = np.fft.fftfreq(shape[1], 1 / shape[1])
            ccr[x[:, None] ** 2 + y[None, :] ** 2 >= ms**2] = 0.0
        x0, y0 = np.unravel_index(np.argmax(ccr), ccr.shape)
        pk = lambda v: (v[2] - v[0]) / (4 * v[1] - 2 * v[2] - 2 * v[0])  # noqa: E731
        xi = np.mod(x0 + np.arange(-1, 2), shape[0])
        yi = np.mod(y0 + np.arange(-1, 2), shape[1])
        xs = (x0 + pk(ccr[xi, y0])) % shape[0]
        ys = (y0 + pk(ccr[x0, yi])) % shape[1]
        if np.isfinite(xs) and np.isfinite(ys):
            local = dft_upsample(cc, up, (xs, ys))
            lx, ly = np.unravel_index(np.argmax(local), local.shape)
            if lx in (0, local.shape[0] - 1) or ly in (0, local.shape[1] - 1):
                n_border += 1
        n_checks += 1

assert n_border > 0, "fuzz never reached the border branch"

# bad inputs raise the same exception types
for bad in [(np.zeros(5), np.zeros(5)), (np.zeros((2, 3, 4)), np.zeros((2, 3, 4)))]:
    for up in (1, 4):
        excs = []
        for fn in (orig_cross_correlation_shift, cross_correlation_shift):
            try:
                fn(*bad, upsample_factor=up)
                excs.append(None)
            except Exception as e:  # noqa: BLE001
                excs.append(type(e))
        assert excs[0] is excs[1], excs

print(f"PASS ({n_checks} comparisons, {n_border} fuzz cases on the patch border)")
sys.exit(0)
