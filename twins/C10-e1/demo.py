"""Demo for C10 patch 1: ObjectConstraints.apply_hard_constraints (diffractive_imaging).

Checks, over object types x shapes x constraint dictionaries x masks x magnitudes, that
 (a) the object handed to the forward model is physically admissible, and
 (b) the implementation in the tree gives bit-identical values and gradients to a verbatim copy of
     the ORIGINAL implementation (embedded below).
Runs on CPU in a few seconds; writes nothing.
"""

import itertools
import warnings

import torch

from quantem.diffractive_imaging.object_models import ObjectPixelated

warnings.filterwarnings("ignore")
torch.set_num_threads(1)  # tiny arrays: thread fan-out only costs time


# ---- verbatim copy of the original method -------------------------------------------------
def orig_apply_hard_constraints(self, obj, mask=None):
    if self.obj_type in ["complex", "pure_phase"]:
        if self.obj_type == "complex":
            amp = torch.clamp(torch.abs(obj), 0.0, 1.0)
        else:
            amp = 1.0
        phase = obj.angle() - obj.angle().mean()
        if mask is not None and self.constraints["apply_fov_mask"]:
            obj2 = amp * mask * torch.exp(1.0j * phase * mask)
        else:
            obj2 = amp * torch.exp(1.0j * phase)
    else:  # potential
        if self.constraints["fix_potential_baseline"]:
            if mask is not None:
                background = mask < 0.5 * mask.max()
                if background.any():
                    offset = obj[background].mean()
                else:
                    offset = obj.min()
            else:
                offset = obj.min()
            offset = offset.detach()
            offset *= self.constraints["fix_potential_baseline_factor"]
        else:
            offset = 0

        if self.constraints.get("positivity", True):
            obj2 = torch.clamp(obj - offset, min=0.0)
        else:
            obj2 = obj - offset

    if self.constraints["apply_fov_mask"] and mask is not None:
        obj2 *= mask

    # want backwards compatibility for gaussian_sigma and q_lowpass/q_highpass, so use get
    if self.constraints.get("gaussian_sigma") is not None:
        obj2 = self.gaussian_blur_2d(obj2, sigma=self.constraints["gaussian_sigma"])

    if any([self.constraints["q_lowpass"], self.constraints["q_highpass"]]):
        obj2 = self.butterworth_constraint(
            obj2,
            sampling=self.sampling,
        )
    if self.num_slices > 1:
        if self.constraints["identical_slices"]:
            with torch.no_grad():
                obj2[:] = torch.mean(obj2, dim=0, keepdim=True)

    return obj2


# --------------------------------------------------------------------------------------------
def same(a, b):
    """bitwise equality, NaN-aware"""
    if a.shape != b.shape or a.dtype != b.dtype:
        return False
    if a.is_complex():
        a, b = torch.view_as_real(a), torch.view_as_real(b)
    return torch.equal(torch.nan_to_num(a, nan=12345.0), torch.nan_to_num(b, nan=12345.0)) and bool(
        (torch.isnan(a) == torch.isnan(b)).all()
    )


def run(fn, raw, mask):
    """returns (value, grad) or the exception type raised"""
    x = raw.clone().requires_grad_(True)
    try:
        out = fn(x, mask)
    except Exception as e:  # noqa: BLE001
        return type(e), None
    try:
        loss = (out.abs() ** 2).sum() + out.real.sum()
        loss.backward()
        grad = x.grad
    except Exception as e:  # noqa: BLE001
        grad = type(e)
    return out.detach(), grad


def make_masks(model, shape, gen):
    h, w = shape[1:]
    binary = torch.zeros(h, w)
    binary[: max(1, h // 2), : max(1, w - 1)] = 1.0
    masks = {
        "none": None,
        "rand": torch.rand(h, w, generator=gen),
        "binary": binary,
        "ones": torch.ones(h, w),  # no background pixel at all
        "zeros": torch.zeros(h, w),  # max is zero -> no pixel is below half the max
    }
    out = {}
    for k, m in masks.items():
        if m is None:
            out[k] = None
        else:
            model.mask = m  # goes through the validating setter (dtype, expand to slices)
            out[k] = model.mask.clone()
    return out


def main():
    gen = torch.Generator().manual_seed(1234)
    shapes = [(1, 5, 7), (3, 4, 9), (2, 1, 1), (4, 6, 3), (1, 1, 8)]
    n_cmp = 0
    n_grad = 0
    for obj_type, shape in itertools.product(["complex", "pure_phase", "potential"], shapes):
        model = ObjectPixelated.from_uniform(
            num_slices=shape[0], slice_thicknesses=1.5, obj_type=obj_type, rng=3
        )
        model._initialize_obj(shape, (0.31, 0.47))
        assert model.num_slices == shape[0]
        masks = make_masks(model, shape, gen)

        for scale in [0.0, 1e-3, 0.7, 1.0, 25.0]:
            if obj_type == "potential":
                raw = (torch.randn(shape, generator=gen) * scale).to(model.dtype)
            else:
                raw = (
                    torch.randn(shape, generator=gen) + 1j * torch.randn(shape, generator=gen)
                ).to(model.dtype) * scale
            cfgs = itertools.product(
                [True, False],  # positivity
                [False, True],  # fix_potential_baseline
                [1.0, 0.5],  # fix_potential_baseline_factor
                [False, True],  # identical_slices
                [False, True],  # apply_fov_mask
            )
            for pos, fixb, fac, ident, fov in cfgs:
                if obj_type != "potential" and (not pos or fixb or fac != 1.0):
                    continue  # those keys are only read for potential objects
                model.constraints = {
                    "positivity": pos,
                    "fix_potential_baseline": fixb,
                    "fix_potential_baseline_factor": fac,
                    "identical_slices": ident,
                    "apply_fov_mask": fov,
                }
                for mname, mask in masks.items():
                    new_v, new_g = run(model.apply_hard_constraints, raw, mask)
                    old_v, old_g = run(
                        lambda o, m: orig_apply_hard_constraints(model, o, m), raw, mask
                    )
                    tag = (obj_type, shape, scale, pos, fixb, fac, ident, fov, mname)
                    # ---- old == new ----
                    if isinstance(old_v, type):
                        assert new_v is old_v, tag
                        continue
                    assert same(new_v, old_v), tag
                    if isinstance(old_g, type):
                        assert new_g is old_g, tag
                    else:
                        assert same(new_g, old_g), tag
                        n_grad += 1
                    n_cmp += 1

                    # ---- the property itself ----
                    out = new_v
                    assert out.shape == raw.shape and out.dtype == raw.dtype, tag
                    if obj_type == "complex":
                        assert float(out.abs().max()) <= 1.0 + 1e-6, tag
                    tied = ident and shape[0] > 1  # slice tying is only claimed to tie slices
                    if obj_type == "pure_phase" and not (fov and mask is not None) and not tied:
                        assert torch.allclose(out.abs(), torch.ones(shape), atol=1e-6), tag
                    if obj_type == "potential" and pos:
                        assert float(out.min()) >= 0.0, tag
                    if tied:
                        assert same(out, out[:1].expand_as(out).contiguous()), tag
                    if obj_type != "potential" and not (fov and mask is not None):
                        if obj_type == "pure_phase" and tied:
                            continue
                        again = model.apply_hard_constraints(out.clone(), mask)
                        assert torch.allclose(again.abs(), out.abs(), atol=1e-6), tag

        # through the public accessor, after the optimiser has "driven" the parameters away
        model.constraints = {
            "positivity": True,
            "fix_potential_baseline": False,
            "fix_potential_baseline_factor": 1.0,
            "identical_slices": shape[0] > 1,
            "apply_fov_mask": True,
        }
        model.mask = masks["rand"][0].real if masks["rand"].is_complex() else masks["rand"][0]
        with torch.no_grad():
            model._obj.mul_(7.0).add_(-2.0)
        o_new = model.obj.detach()
        o_old = orig_apply_hard_constraints(model, model._obj, model.mask).detach()
        assert same(o_new, o_old)
        # raw parameters are never modified by reading .obj
        before = model._obj.detach().clone()
        _ = model.obj
        assert same(before, model._obj.detach())

    # failure injection: a mask that cannot broadcast raises the same error in both
    model = ObjectPixelated.from_uniform(num_slices=2, slice_thicknesses=1.0, obj_type="potential")
    model._initialize_obj((2, 4, 5), (1.0, 1.0))
    model.constraints = {"apply_fov_mask": True, "fix_potential_baseline": True}
    raw = torch.randn(2, 4, 5, generator=gen)
    bad = torch.rand(2, 3, 5, generator=gen)
    a, _ = run(model.apply_hard_constraints, raw, bad)
    b, _ = run(lambda o, m: orig_apply_hard_constraints(model, o, m), raw, bad)
    assert isinstance(a, type) and a is b, (a, b)

    assert n_cmp > 1000 and n_grad > 1000
    print(f"PASS  ({n_cmp} old/new value comparisons, {n_grad} gradient comparisons)")


if __name__ == "__main__":
    main()
