"""Demo for C02 / patch 1: PtychographyBase.error_estimate (merged l1/l2 branch).

1. Property check: data simulated by an independent numpy multislice / mixed-state reference
   are reproduced by the library forward pipeline at the ground truth (every data-fidelity loss
   ~ 0), and the loss is strictly larger at a perturbed object / probe.
2. Old-vs-new check: a verbatim copy of the ORIGINAL error_estimate is evaluated next to the
   library one on the same inputs (all loss types incl. poisson, odd batch sizes, a non-trivial
   detector mask, gradients, invalid loss type) and must agree bit for bit.

Run:  PYTHONPATH=<root>/src /venv/bin/python demo.py
"""

import warnings

warnings.filterwarnings("ignore")
import matplotlib

matplotlib.use("Agg")
import numpy as np
import torch

from quantem.core.datastructures.dataset4dstem import Dataset4dstem
from quantem.core.utils.utils import electron_wavelength_angstrom
from quantem.diffractive_imaging.dataset_models import PtychographyDatasetRaster
from quantem.diffractive_imaging.detector_models import DetectorPixelated
from quantem.diffractive_imaging.object_models import ObjectPixelated
from quantem.diffractive_imaging.probe_models import ProbePixelated
from quantem.diffractive_imaging.ptychography import Ptychography

ENERGY = 300e3
ALL_LOSSES = ("l2_amplitude", "l1_amplitude", "l2_intensity", "l1_intensity")


# --------------------------------------------------------------------------------------
# independent reference implementation (numpy only)
# --------------------------------------------------------------------------------------
def ref_probe(roi, dk, n_modes, c10=40.0, qprobe_frac=0.5):
    """corner-centred mixed-state probe (aperture + defocus), modes made distinct by low-order
    polynomials in q"""
    R, C = roi
    sampling = 1.0 / (np.array(roi) * np.array(dk))
    qr = np.fft.fftfreq(R, sampling[0])
    qc = np.fft.fftfreq(C, sampling[1])
    q2 = qr[:, None] ** 2 + qc[None, :] ** 2
    q = np.sqrt(q2)
    qprobe = min(np.abs(qr).max(), np.abs(qc).max()) * qprobe_frac
    ap = np.sqrt(np.clip((qprobe - q) / min(dk) + 0.5, 0, 1))
    lam = electron_wavelength_angstrom(ENERGY)
    base = ap * np.exp(-1j * np.pi * lam * q2 * c10)
    modes = []
    for m in range(n_modes):
        if m == 0:
            f = base
        elif m == 1:
            f = base * (qr[:, None] / qprobe) * 0.6
        else:
            f = base * (qc[None, :] / qprobe) * 0.4 * np.exp(1j * 0.3)
        modes.append(np.fft.ifft2(f))
    return np.stack(modes, 0)


def ref_simulate(trans, probes, positions_px, dz, sampling):
    """multislice mixed-state forward model.
    trans: (S,H,W) complex transmission, probes: (M,R,C) corner centred, positions_px: (J,2)
    returns detector-centred (fftshifted) intensities (J,R,C)"""
    S, H, W = trans.shape
    M, R, C = probes.shape
    lam = electron_wavelength_angstrom(ENERGY)
    kr = np.fft.fftfreq(R, sampling[0])
    kc = np.fft.fftfreq(C, sampling[1])
    k2 = kr[:, None] ** 2 + kc[None, :] ** 2
    fr = np.fft.fftfreq(R)
    fc = np.fft.fftfreq(C)
    ir = np.round(np.fft.fftfreq(R, 1.0 / R)).astype(int)
    ic = np.round(np.fft.fftfreq(C, 1.0 / C)).astype(int)
    out = np.zeros((positions_px.shape[0], R, C))
    for j, (pr, pc) in enumerate(positions_px):
        r0 = int(np.round(pr))
        c0 = int(np.round(pc))
        ramp = np.exp(-2j * np.pi * (fr[:, None] * (pr - r0) + fc[None, :] * (pc - c0)))
        rows = (r0 + ir) % H
        cols = (c0 + ic) % W
        tot = np.zeros((R, C))
        for m in range(M):
            psi = np.fft.ifft2(np.fft.fft2(probes[m]) * ramp)
            for s in range(S):
                if s > 0:
                    psi = np.fft.ifft2(
                        np.fft.fft2(psi) * np.exp(-1j * np.pi * lam * dz[s - 1] * k2)
                    )
                psi = psi * trans[s][np.ix_(rows, cols)]
            tot += np.abs(np.fft.fft2(psi, norm="ortho")) ** 2
        out[j] = np.fft.fftshift(tot)
    return out


# --------------------------------------------------------------------------------------
# library pipeline at the ground truth
# --------------------------------------------------------------------------------------
def build_ground_truth_case(
    gpts=(5, 4),
    roi=(12, 16),
    step=(1.7, 2.3),
    dk=(0.05, 0.04),
    n_slices=1,
    n_modes=1,
    obj_type="complex",
    pad=(0, 0),
    seed=0,
    thick=None,
):
    rng = np.random.default_rng(seed)
    roi = np.array(roi)
    dk = np.array(dk, dtype=float)
    sampling = 1.0 / (roi * dk)
    if thick is None:
        thick = [3.0 + 1.5 * i for i in range(n_slices - 1)]
    probes = ref_probe(roi, dk, n_modes)

    def make(arr4):
        d4 = Dataset4dstem.from_array(
            array=arr4,
            sampling=(step[0], step[1], dk[0], dk[1]),
            units=("A", "A", "A^-1", "A^-1"),
        )
        pd = PtychographyDatasetRaster.from_dataset4dstem(d4, verbose=0)
        pd.preprocess(
            com_fit_function="no_shift",
            plot_rotation=False,
            plot_com=False,
            probe_energy=ENERGY,
            force_com_rotation=0,
            force_com_transpose=False,
        )
        om = ObjectPixelated.from_uniform(
            num_slices=n_slices,
            obj_type=obj_type,
            slice_thicknesses=thick if n_slices > 1 else None,
        )
        pm = ProbePixelated.from_array(
            probe_array=probes.astype(np.complex64),
            num_probes=n_modes,
            probe_params={"energy": ENERGY},
            rng=1,
        )
        pt = Ptychography.from_models(
            dset=pd,
            obj_model=om,
            probe_model=pm,
            detector_model=DetectorPixelated(),
            rng=3,
            verbose=0,
        )
        pt.preprocess(obj_padding_px=pad, plot_rotation=False, plot_com=False)
        pt.constraints = {"probe": {"orthogonalize_probe": False}}
        return pt

    # geometry pass with dummy data (object shape / effective padding chosen by the library)
    pt0 = make(np.ones((*gpts, *roi), dtype=np.float32))
    S, H, W = [int(x) for x in pt0.obj_shape_full]
    padf = np.array(pt0.obj_padding_px, dtype=float)
    rr, cc = np.meshgrid(np.arange(gpts[0]) * step[0], np.arange(gpts[1]) * step[1], indexing="ij")
    pos = np.stack([rr.ravel() / sampling[0] + padf[0], cc.ravel() / sampling[1] + padf[1]], -1)
    assert np.allclose(pos, pt0.dset.scan_positions_px.detach().numpy(), atol=1e-4)
    pos = np.clip(pos, 0, [H - 1, W - 1])  # library default constraint: clip_scan_positions
    assert np.abs(np.abs(pos - np.round(pos)) - 0.5).min() > 1e-3, "avoid rounding ties"

    ph = rng.uniform(0.0, 0.8, size=(S, H, W))
    obj_param = ph if obj_type == "potential" else np.exp(1j * ph)
    intens = ref_simulate(np.exp(1j * ph), probes, pos, thick, sampling) * 50.0
    pt = make(intens.reshape(*gpts, *roi).astype(np.float32))
    assert tuple(int(x) for x in pt.obj_shape_full) == (S, H, W)

    with torch.no_grad():
        pt.obj_model._obj.data = torch.tensor(obj_param, dtype=pt.obj_model._obj.dtype)
    scale = np.sqrt(
        pt.dset.mean_diffraction_intensity
        / np.sum(np.abs(np.fft.fft2(probes, norm="ortho")) ** 2)
    )
    pt.probe_model.probe = (probes * scale).astype(np.complex64)  # public probe setter
    return pt


def predict(pt, b):
    pi, _p, pf, ds = pt.dset.forward(b, pt.obj_padding_px)
    sp = pt.probe_model.forward(pf)
    op = pt.obj_model.forward(pi)
    _pp, ov = pt.forward_operator(op, sp, ds)
    return pt.detector_model.forward(ov)


def losses(pt, batch=None, loss_types=ALL_LOSSES):
    n = pt.dset.num_gpts
    bs = n if batch is None else batch
    out = {}
    for lt in loss_types:
        pt.dset._set_targets(lt)
        tot, nb = 0.0, 0
        with torch.no_grad():
            for i in range(0, n, bs):
                b = np.arange(n)[i : i + bs]
                loss, _t = pt.error_estimate(predict(pt, b), b, loss_type=lt)
                tot += float(loss)
                nb += 1
        out[lt] = tot / nb
    return out


def check_property(pt, batches=(None, 7, 1)):
    """zero loss at the ground truth for all losses / batch sizes, larger when perturbed"""
    gt = {}
    for bs in batches:
        res = losses(pt, batch=bs)
        for lt, v in res.items():
            # losses are sums over all patterns (float32 pipeline): tolerance per pattern
            tol = (1e-10 if "l2" in lt else 1e-4) * pt.dset.num_gpts
            assert 0 <= v < tol, (lt, bs, v)
        gt[bs] = res
    obj0 = pt.obj_model._obj.data.clone()
    prb0 = pt.probe_model._probe.data.clone()
    # perturbed object: flatten it
    with torch.no_grad():
        pt.obj_model._obj.data = torch.full_like(obj0, 0.3)
    per_obj = losses(pt)
    with torch.no_grad():
        pt.obj_model._obj.data = obj0.clone()
    # perturbed probe: tilt (phase ramp in real space) + 10% amplitude
    R, C = prb0.shape[-2:]
    ramp = torch.exp(2j * torch.pi * torch.fft.fftfreq(R)[:, None] * 1.3) * torch.ones(1, C)
    pt.probe_model.probe = prb0 * ramp * 1.1
    per_prb = losses(pt)
    pt.probe_model.probe = prb0.clone()
    for lt in ALL_LOSSES:
        assert per_obj[lt] > 1e-3 and per_obj[lt] > 1e3 * gt[None][lt], (lt, per_obj[lt])
        assert per_prb[lt] > 1e-3 and per_prb[lt] > 1e3 * gt[None][lt], (lt, per_prb[lt])
    back = losses(pt)
    for lt in ALL_LOSSES:
        assert back[lt] == gt[None][lt], "restoring the ground truth must restore the loss"
    return gt[None]


# --------------------------------------------------------------------------------------
# verbatim copy of the ORIGINAL PtychographyBase.error_estimate
# --------------------------------------------------------------------------------------
def orig_error_estimate(self, pred_intensities, batch_indices, loss_type="l2_amplitude"):
    targets = self.dset.targets[batch_indices]
    if "amplitude" in loss_type:
        preds = torch.sqrt(pred_intensities + 1e-9)  # add eps to avoid diverging gradients
    else:
        preds = pred_intensities

    diff = preds * self.dset.detector_mask - targets * self.dset.detector_mask
    if "l1" in loss_type:
        error = torch.sum(torch.abs(diff)) / (diff.shape[0] / self.dset.num_gpts)
    elif "l2" in loss_type:
        error = torch.sum(torch.abs(diff) ** 2) / (diff.shape[0] / self.dset.num_gpts)
    elif loss_type == "poisson":
        error = torch.sum(preds - targets * torch.log(preds + 1e-6))
    else:
        raise ValueError(f"Unknown loss type {loss_type}, should be 'l1' or 'l2'")
    loss = error / self.dset.mean_diffraction_intensity
    return loss, targets


def same(a, b):
    return a.dtype == b.dtype and a.shape == b.shape and torch.equal(a, b)


def check_old_vs_new(pt, seed):
    g = torch.Generator().manual_seed(seed)
    n = pt.dset.num_gpts
    R, C = [int(x) for x in pt.roi_shape]
    mask0 = pt.dset.detector_mask.clone()
    masks = [mask0, (torch.rand(R, C, generator=g) > 0.3).to(mask0.dtype)]
    index_sets = [
        np.arange(n),
        np.arange(n)[::-1].copy(),
        np.array([0]),
        np.array([n - 1, 1, 1]),
        torch.randperm(n, generator=g)[: max(1, n // 3)],
        np.array([], dtype=int),
    ]
    n_cmp = 0
    for mask in masks:
        pt.dset.detector_mask = mask
        for lt in ALL_LOSSES + ("poisson", "l1_l2_amplitude"):
            pt.dset._set_targets("l2_amplitude" if lt == "l1_l2_amplitude" else lt)
            for b in index_sets:
                nb = len(b)
                for kind in ("model", "random", "zeros"):
                    if kind == "model" and nb > 0:
                        with torch.no_grad():
                            base = predict(pt, b)
                    elif kind == "random":
                        base = torch.rand(nb, R, C, generator=g) * 3.0
                    else:
                        base = torch.zeros(nb, R, C)
                    p_new = base.clone().requires_grad_(True)
                    p_old = base.clone().requires_grad_(True)
                    l_new, t_new = pt.error_estimate(p_new, b, loss_type=lt)
                    l_old, t_old = orig_error_estimate(pt, p_old, b, loss_type=lt)
                    assert same(t_new, t_old)
                    assert l_new.dtype == l_old.dtype and l_new.shape == l_old.shape
                    assert torch.equal(l_new, l_old) or (
                        torch.isnan(l_new).all() and torch.isnan(l_old).all()
                    ), (lt, kind, nb, l_new, l_old)
                    if nb > 0:
                        l_new.backward()
                        l_old.backward()
                        assert torch.equal(
                            torch.nan_to_num(p_new.grad), torch.nan_to_num(p_old.grad)
                        ), (lt, kind)
                    n_cmp += 1
    pt.dset.detector_mask = mask0
    # unknown loss types fail identically
    for bad in ("huber", "", "L2"):
        errs = []
        for fn in (pt.error_estimate, lambda *a, **k: orig_error_estimate(pt, *a, **k)):
            try:
                fn(torch.ones(n, R, C), np.arange(n), loss_type=bad)
                errs.append(None)
            except Exception as e:  # noqa: BLE001
                errs.append((type(e), str(e)))
        assert errs[0] == errs[1] and errs[0] is not None and errs[0][0] is ValueError, errs
    return n_cmp


CASES = [
    dict(),
    dict(n_slices=3, n_modes=2, obj_type="potential", pad=(4, 6)),
    dict(n_slices=2, n_modes=3, obj_type="pure_phase", pad=(3, 3), roi=(16, 12), gpts=(3, 6)),
    dict(
        n_slices=4,
        n_modes=3,
        obj_type="potential",
        gpts=(2, 7),
        roi=(10, 20),
        pad=(5, 9),
        step=(2.9, 1.1),
        thick=[2.0, 7.5, 0.5],
    ),
    dict(n_modes=2, obj_type="pure_phase", gpts=(6, 3), roi=(8, 8), pad=(8, 8), step=(0.9, 3.3)),
    dict(n_slices=2, obj_type="complex", gpts=(1, 5), roi=(14, 10), pad=(2, 2), seed=5),
]

if __name__ == "__main__":
    torch.set_num_threads(1)
    torch.manual_seed(0)
    total = 0
    for k, kw in enumerate(CASES):
        pt = build_ground_truth_case(**kw)
        gt = check_property(pt)
        total += check_old_vs_new(pt, seed=k)
        print(f"case {k}: {kw} obj={tuple(pt.obj_shape_full)} gt-loss={max(gt.values()):.2e} ok")
    print(f"PASS ({total} old-vs-new comparisons identical)")
