"""C01 demo: serializer round-trip fidelity + old-vs-new differential checks.

Run as:  PYTHONPATH=<root>/src /venv/bin/python demo.py

Part A asserts the property itself (save -> load gives a structurally equal object graph, for
both stores, every compression level, str/Path targets, both write modes, and that
save(load(x)) is a fixed point).

Part B embeds VERBATIM copies of the ORIGINAL small functions that the patches touch
(_array_to_np, _convert_string_to_path_if_needed, _recursive_save) and ORIGINAL spellings of the
edited fragments of the two large functions (_recursive_load class lookup,
_deserialize_container length computation) and asserts old == new bit-for-bit.
"""

import io
import logging
import os
import sys
import tempfile
from contextlib import redirect_stdout
from pathlib import Path
from types import SimpleNamespace
from typing import Any, cast

import numpy as np
import torch
import zarr
from zarr.storage import LocalStore

from quantem.core.io import load
from quantem.core.io.serialize import AutoSerialize

try:  # real attrs class when the package is there; a hand-made __attrs_attrs__ class always
    import attrs as _attrs
except Exception:  # pragma: no cover
    _attrs = None


# --------------------------------------------------------------------------------------
# classes under test (top level of __main__ so that load() can import them again)
# --------------------------------------------------------------------------------------
class Leaf(AutoSerialize):
    def __init__(self, **kw):
        for k, v in kw.items():
            setattr(self, k, v)


class Node(AutoSerialize):
    def __init__(self, **kw):
        for k, v in kw.items():
            setattr(self, k, v)


class FakeAttrs(AutoSerialize):
    """Class that follows the attrs protocol without the attrs package."""

    __attrs_attrs__ = (
        SimpleNamespace(name="alpha"),
        SimpleNamespace(name="beta"),
        SimpleNamespace(name="gamma"),
        SimpleNamespace(name="delta"),
    )

    def __init__(self, alpha, beta, gamma, delta):
        self.alpha = alpha
        self.beta = beta
        self.gamma = gamma
        self.delta = delta
        self.not_a_field = "never saved"


if _attrs is not None:

    @_attrs.define(slots=False, eq=False)
    class RealAttrs(AutoSerialize):
        x: Any = 0
        y: Any = None
        z: Any = None


# --------------------------------------------------------------------------------------
# strict structural equality
# --------------------------------------------------------------------------------------
_NUM = (int, float, bool, np.integer, np.floating, np.bool_)


def _is_num(v):
    return isinstance(v, _NUM) and not isinstance(v, (np.ndarray,))


def _all_numeric_seq(v):
    return isinstance(v, (list, tuple)) and len(v) > 0 and all(_is_num(x) for x in v)


def _num_eq(a, b):
    fa, fb = float(a), float(b)
    if fa != fa and fb != fb:
        return True
    if isinstance(a, (int, np.integer)) and isinstance(b, (int, np.integer)):
        return int(a) == int(b)
    return fa == fb


def deep_equal(a, b, path="root", numeric_loose=True):
    """Raise AssertionError with a path when a (saved) and b (loaded) differ structurally."""
    # NumPy scalars come back as Python scalars with the same numeric value
    if numeric_loose and isinstance(a, (np.integer, np.floating, np.bool_)):
        assert _is_num(b) and _num_eq(a, b), f"{path}: numpy scalar {a!r} -> {b!r}"
        return
    # all-numeric sequences are compared by numeric value (container kind still exact)
    if numeric_loose and _all_numeric_seq(a):
        assert type(a) is type(b), f"{path}: {type(a)} -> {type(b)}"
        assert len(a) == len(b), f"{path}: len {len(a)} -> {len(b)}"
        for i, (x, y) in enumerate(zip(a, b)):
            assert _is_num(y) and _num_eq(x, y), f"{path}[{i}]: {x!r} -> {y!r}"
        return
    if isinstance(a, np.ndarray):
        assert isinstance(b, np.ndarray), f"{path}: ndarray -> {type(b)}"
        assert a.dtype == b.dtype, f"{path}: dtype {a.dtype} -> {b.dtype}"
        assert a.shape == b.shape, f"{path}: shape {a.shape} -> {b.shape}"
        assert np.ascontiguousarray(a).tobytes() == np.ascontiguousarray(b).tobytes(), (
            f"{path}: array contents differ"
        )
        return
    if isinstance(a, torch.Tensor):
        assert isinstance(b, torch.Tensor), f"{path}: tensor -> {type(b)}"
        assert a.dtype == b.dtype, f"{path}: tensor dtype {a.dtype} -> {b.dtype}"
        assert a.shape == b.shape, f"{path}: tensor shape {a.shape} -> {b.shape}"
        assert a.requires_grad == b.requires_grad, f"{path}: requires_grad changed"
        assert torch.equal(a.detach(), b.detach()), f"{path}: tensor contents differ"
        return
    if isinstance(a, torch.nn.Module):
        assert type(a) is type(b), f"{path}: module {type(a)} -> {type(b)}"
        sa, sb = a.state_dict(), b.state_dict()
        assert list(sa) == list(sb), f"{path}: state_dict keys differ"
        for k in sa:
            deep_equal(sa[k], sb[k], f"{path}.state[{k}]")
        return
    if isinstance(a, np.random.Generator):
        assert isinstance(b, np.random.Generator), f"{path}: rng -> {type(b)}"
        return
    if isinstance(a, logging.Logger):
        assert isinstance(b, logging.Logger), f"{path}: logger -> {type(b)}"
        return
    if isinstance(a, AutoSerialize):
        assert type(a) is type(b), f"{path}: class {type(a)} -> {type(b)}"
        fields = getattr(type(a), "__attrs_attrs__", None)
        if fields is not None:
            ka = [f.name for f in fields]
            assert all(hasattr(b, k) for k in ka), f"{path}: attrs fields missing"
            if isinstance(a, FakeAttrs):
                assert set(vars(b)) == set(ka), f"{path}: {sorted(vars(b))} != {sorted(ka)}"
            for k in ka:
                deep_equal(getattr(a, k), getattr(b, k), f"{path}.{k}", numeric_loose)
            return
        assert set(vars(a)) == set(vars(b)), (
            f"{path}: attribute names {sorted(vars(a))} -> {sorted(vars(b))}"
        )
        for k in vars(a):
            deep_equal(vars(a)[k], vars(b)[k], f"{path}.{k}", numeric_loose)
        return
    if isinstance(a, (list, tuple)):
        assert type(a) is type(b), f"{path}: {type(a)} -> {type(b)}"
        assert len(a) == len(b), f"{path}: len {len(a)} -> {len(b)}"
        for i, (x, y) in enumerate(zip(a, b)):
            deep_equal(x, y, f"{path}[{i}]", numeric_loose)
        return
    if isinstance(a, dict):
        assert type(b) is dict, f"{path}: dict -> {type(b)}"
        assert set(a) == set(b), f"{path}: keys {sorted(a)} -> {sorted(b)}"
        for k in a:
            deep_equal(a[k], b[k], f"{path}[{k!r}]", numeric_loose)
        return
    if isinstance(a, (set, frozenset)):
        assert type(b) is set, f"{path}: set -> {type(b)}"
        assert len(a) == len(b), f"{path}: set size {len(a)} -> {len(b)}"
        if all(_is_num(x) for x in a):
            assert sorted(float(x) for x in a) == sorted(float(x) for x in b), f"{path}: set"
        else:
            assert a == b, f"{path}: set {a!r} -> {b!r}"
        return
    if isinstance(a, Path):
        assert isinstance(b, Path) and a == b, f"{path}: Path {a!r} -> {b!r}"
        return
    if isinstance(a, float) and a != a:
        assert isinstance(b, float) and b != b, f"{path}: nan -> {b!r}"
        return
    assert type(a) is type(b), f"{path}: {type(a)} -> {type(b)} ({a!r} -> {b!r})"
    assert a == b, f"{path}: {a!r} -> {b!r}"


# --------------------------------------------------------------------------------------
# graphs
# --------------------------------------------------------------------------------------
NP_DTYPES = [
    "bool", "int8", "int16", "int32", "int64", "uint8", "uint16", "uint32", "uint64",
    "float16", "float32", "float64", "complex64", "complex128",
]  # fmt: skip
NP_SHAPES = [(), (0,), (0, 3), (3, 0, 2), (1,), (5,), (2, 3), (2, 3, 4)]


def make_arrays(rng):
    out = {}
    for dt in NP_DTYPES:
        for shp in NP_SHAPES:
            n = int(np.prod(shp)) if shp else 1
            base = rng.integers(0, 100, size=n)
            if dt.startswith("complex"):
                a = (base + 1j * rng.integers(0, 100, size=n)).astype(dt)
            elif dt == "bool":
                a = (base % 2).astype(dt)
            elif dt.startswith("float"):
                a = (base / 7.0 - 3.0).astype(dt)
            else:
                a = base.astype(dt)
            out[f"a_{dt}_{'x'.join(map(str, shp)) or 's'}"] = a.reshape(shp)
    out["a_fortran"] = np.asfortranarray(rng.random((3, 4)))
    out["a_strided"] = rng.random((6, 6))[::2, 1::2]
    out["a_neg"] = np.array([-(2**62), 2**62, -1], dtype=np.int64)
    out["a_special"] = np.array([np.inf, -np.inf, np.nan, -0.0, 5e-324])
    return out


def graph_scalars():
    return Leaf(
        i=3, ineg=-17, ibig=2**53 + 1, izero=0, f=2.5, fneg=-1e-300, fint=4.0, t=True, fl=False,
        none=None, s="hello", sempty="", suni="ångström µ ✓", sdigits="12",
        p=Path("/tmp/some/where.zarr"), prel=Path("rel/dir"),
        npf32=np.float32(1.5), npf64=np.float64(-2.25), npi64=np.int64(7), npu8=np.uint8(200),
        npb=np.bool_(True), npi16=np.int16(-5),
    )  # fmt: skip


def graph_containers(rng):
    return Leaf(
        l_empty=[], t_empty=(), d_empty={}, s_empty=set(),
        l_int=[1, 2, 3], t_int=(4, 5, 6), l_float=[0.5, -1.25, 3.0], l_mixnum=[1, 2.5, 3],
        l_bool=[True, False, True], l_one=[7], t_one=(7.5,),
        l_npnum=[np.float32(0.5), np.int64(2)], l_big=[2**62, -(2**62), 0],
        l_str=["a", "b", ""], l_mixed=[1, "two", 3.0, None, True],
        l_none=[None, None], l_nested=[[1, 2], [3, [4, [5, "x"]]], (), []],
        t_nested=((1, 2), ["a", ("b",)], {"k": (1, "v")}),
        l_dicts=[{"a": 1, "b": [1, 2, 3]}, {"c": {"d": None}}, {}],
        l_paths=[Path("/a/b"), "not/a/path", Path("c")],
        l_arrays=[np.arange(4), np.zeros((0, 2)), np.array(3.5), "s", np.arange(6.0).reshape(2, 3)],
        l_long=[f"item{i}" if i % 3 else i for i in range(23)],
        l_long_mixed=[
            [i] if i % 4 == 0 else (np.full((2,), i) if i % 4 == 1 else (None if i % 4 == 2 else str(i)))
            for i in range(14)
        ],
        d_flat={"a": 1, "b": 2.5, "c": "s", "d": None, "e": True, "f": Path("/x/y")},
        d_nested={"in": {"deep": {"er": [1, 2, {"z": (1, "q")}]}}, "arr": np.arange(3, dtype="uint8"),
                  "lst": ["u", 1], "tup": (1.5, 2.5), "set": {1, 2, 3}, "12": "digit key"},
        s_int={1, 2, 3, 40}, s_str={"a", "b", "cc"}, s_float={0.5, 1.5}, s_one={"solo"},
        s_mixed={"a", 1, 2.5, None},
        rng=np.random.default_rng(5), log=logging.getLogger("c01demo"),
    )  # fmt: skip


def graph_torch():
    g = torch.Generator().manual_seed(3)
    return Leaf(
        t_f32=torch.rand(3, 4, generator=g), t_f64=torch.rand(2, generator=g, dtype=torch.float64),
        t_i64=torch.arange(5), t_i32=torch.arange(4, dtype=torch.int32), t_u8=torch.tensor([1, 2], dtype=torch.uint8),
        t_bool=torch.tensor([True, False]), t_c64=torch.tensor([1 + 2j, 3 - 1j], dtype=torch.complex64),
        t_f16=torch.tensor([0.5, 1.5], dtype=torch.float16), t_bf16=torch.tensor([0.5], dtype=torch.bfloat16),
        t_grad=torch.rand(2, 2, generator=g).requires_grad_(True), t_0d=torch.tensor(3.5), t_empty=torch.zeros(0, 3),
        t_list=[torch.arange(3), torch.tensor(1.0, requires_grad=True), "s"],
        t_dict={"w": torch.ones(2, dtype=torch.float64), "n": 1},
        mod=torch.nn.Linear(3, 2), seq=torch.nn.Sequential(torch.nn.Linear(2, 2), torch.nn.ReLU()),
    )  # fmt: skip


def graph_nested(rng):
    arrs = make_arrays(rng)
    few = {k: arrs[k] for k in list(arrs)[::9]}
    inner = Leaf(v=1, name="inner", arr=np.arange(3), p=Path("/in/ner"), e=np.zeros((0, 4), "int16"))
    mid = Node(child=inner, kids=[Leaf(i=i, tag=str(i), a=np.full((i,), i)) for i in range(4)],
               by_name={"x": Leaf(q=None), "y": Leaf(q=[1, "a"], r=(Leaf(z=0.5),))}, scal=np.float32(2.5))
    fake = FakeAttrs(alpha=1, beta=[1, "b", None], gamma=np.arange(4).reshape(2, 2), delta=Leaf(k="v"))
    top = Node(mid=mid, fake=fake, tup=(Leaf(a=1), 2, "three"), deep=[[[Leaf(x=[Leaf(y=(1, 2))])]]], **few)
    if _attrs is not None:
        top.real = RealAttrs(x=3, y=[1.5, "s"], z=np.ones((2, 0)))
        top.reals = [RealAttrs(x=i, y=Path(f"/p/{i}"), z=None) for i in range(3)]
    return top  # fmt: skip


def graph_arrays(rng, step=3):
    arrs = make_arrays(rng)
    keep = list(arrs)[::step] + ["a_fortran", "a_strided", "a_neg", "a_special"]
    return Leaf(**{k: arrs[k] for k in dict.fromkeys(keep)})


def graph_compact():
    """One value of every kind; small enough for the full configuration sweep."""
    return Node(
        i=-3, f=0.25, b=True, none=None, s="txt", p=Path("/c/d"), nps=np.float32(0.5), npi=np.int16(-2),
        l_num=[1, 2, 3], t_num=(0.5, 1.5), l_mixed=[1, "a", None, Path("x/y"), [2, (3, "b")], {"k": [1.5]}],
        t_empty=(), l_empty=[], d={"a": 1, "n": {"m": (1, "z")}, "arr": np.arange(3, dtype="int8")},
        st={1, 2, 3}, st_s={"u", "v"}, st_e=set(),
        a0=np.array(2.5, dtype="float32"), ae=np.zeros((0, 3), dtype="uint16"), a2=np.arange(6).reshape(2, 3),
        ac=np.array([1 + 2j], dtype="complex64"), t=torch.tensor([1.0, 2.0], requires_grad=True),
        child=Leaf(v=[Leaf(w=(1, "q"))], e=np.zeros((2, 0))), fake=FakeAttrs(1, "b", [None, 2], np.ones(2)),
        l_long=[None if i % 2 else str(i) for i in range(12)], l_objs=[Leaf(i=0), Leaf(i=1)],
    )  # fmt: skip


# --------------------------------------------------------------------------------------
# helpers
# --------------------------------------------------------------------------------------
def quiet(fn, *a, **k):
    buf = io.StringIO()
    with redirect_stdout(buf):
        return fn(*a, **k)


def roundtrip(obj, target, **kw):
    quiet(obj.save, target, **kw)
    store = kw.get("store", "auto")
    t = str(target)
    if store == "zip" and not t.endswith(".zip"):
        t += ".zip"
    return quiet(load, type(target)(t))


def tree_bytes(root):
    out = {}
    for dirpath, _, filenames in os.walk(root):
        for fn in filenames:
            full = os.path.join(dirpath, fn)
            with open(full, "rb") as fh:
                out[os.path.relpath(full, root)] = fh.read()
    return out


# --------------------------------------------------------------------------------------
# Part A: the property
# --------------------------------------------------------------------------------------
def graph_mini():
    """Array-centred graph (what the compression level acts on) for the full level sweep."""
    return Node(
        a0=np.array(2.5, dtype="float32"), ae=np.zeros((0, 3), dtype="uint16"), a1=np.arange(50, dtype="int32"),
        a2=np.linspace(0, 1, 12).reshape(3, 4), ab=np.array([True, False]), ac=np.array([1 + 2j], dtype="complex64"),
        l_num=[1, 2, 3], t_num=(0.5, 1.5), st={4, 5}, l_mixed=[np.arange(3, dtype="int8"), "a", None, Path("x/y")],
        child=Leaf(e=np.zeros((2, 0)), z=np.float32(1.5), d={"arr": np.ones((2, 2), dtype="float16")}),
    )  # fmt: skip


def part_a(tmp):
    rng = np.random.default_rng(0)
    graphs = {
        "scalars": graph_scalars(),
        "containers": graph_containers(rng),
        "arrays": graph_arrays(rng),
        "torch": graph_torch(),
        "nested": graph_nested(rng),
    }
    n = 0
    for gname, g in graphs.items():
        # every graph: directory store + fixed point; the cheap ones through the zip store as well
        variants = [("dir", "")] + ([("zip", ".zip")] if gname in ("scalars", "torch") else [])
        for store, suffix in variants:
            target = os.path.join(tmp, f"A_{gname}_{store}{suffix}")
            back = roundtrip(g, target, store=store)
            deep_equal(g, back, f"{gname}/{store}")
            again = roundtrip(back, os.path.join(tmp, f"A_{gname}_{store}_again{suffix}"), store=store)
            deep_equal(back, again, f"{gname}/{store}/fixed-point", numeric_loose=False)
            n += 2
    # compression levels x stores x str/Path targets x write modes
    compact, mini = graph_compact(), graph_mini()
    ref = {}
    for level in [None, 0, 1, 2, 3, 4, 5, 6, 7, 8, 9]:
        full = level in (None, 9)
        g, gname = (compact, "compact") if full else (mini, "mini")
        variants = [("dir", ""), ("zip", ".zip")]
        if level in (None, 9):
            variants += [("zip", ""), ("auto", ""), ("auto", ".zip")]
        for store, suffix in variants:
            as_path = (level or 0) % 2 == 0
            base = os.path.join(tmp, f"A_lvl_{gname}_{store}_{len(suffix)}") + suffix
            final = base + (".zip" if store == "zip" and not suffix else "")
            mode = "o" if os.path.exists(final) else "w"  # second and later levels overwrite
            quiet(g.save, Path(base) if as_path else base, store=store, compression_level=level, mode=mode)
            back = quiet(load, Path(final) if as_path else final)
            what = f"{gname}/level={level}/{store}{suffix}"
            deep_equal(g, back, what)
            deep_equal(ref.setdefault(gname, back), back, what + "/same-result", numeric_loose=False)
            n += 1
            if level is None and final == base:
                fp = os.path.join(tmp, f"A_fp_{store}_{len(suffix)}") + suffix
                again = roundtrip(back, fp, store=store, compression_level=level)
                deep_equal(back, again, what + "/fixed-point", numeric_loose=False)
                n += 1
    # mode='w' refuses to overwrite, mode='o' overwrites and leaves a loadable object
    t = os.path.join(tmp, "A_mode")
    quiet(mini.save, t)
    try:
        quiet(mini.save, t)
    except FileExistsError:
        pass
    else:
        raise AssertionError("mode='w' overwrote an existing target")
    quiet(Leaf(only=1).save, t, mode="o")
    deep_equal(Leaf(only=1), quiet(load, t), "mode-o")
    return n


# --------------------------------------------------------------------------------------
# Part B: verbatim ORIGINAL functions, old == new
# --------------------------------------------------------------------------------------
def orig_array_to_np(arr: zarr.Array) -> np.ndarray:
    # Handle empty arrays (any dimension of size 0) and 0-dimensional arrays
    if arr.ndim == 0 or any(s == 0 for s in arr.shape):
        # Check if this was originally an empty array with a specific shape
        if "_original_shape" in arr.attrs:
            original_shape = arr.attrs["_original_shape"]
            # Convert to tuple of ints to ensure proper typing
            if isinstance(original_shape, (list, tuple)):
                original_shape = tuple(int(cast(Any, x)) for x in original_shape)
            return np.empty(cast(Any, original_shape), dtype=arr.dtype)
        elif arr.ndim == 0:
            # 0-dimensional arrays hold one value: read it back
            return np.asarray(arr[()], dtype=arr.dtype).reshape(())
        else:
            # For empty arrays, return an empty numpy array with the same shape
            return np.empty(arr.shape, dtype=arr.dtype)
    else:
        return cast(np.ndarray, arr[:])


def orig_convert_string_to_path_if_needed(val: Any, group: zarr.Group, key: str) -> Any:
    """Convert string back to pathlib.Path if it was originally a Path object."""
    if isinstance(val, str) and group.attrs.get(f"{key}.is_path", False):
        try:
            from pathlib import Path

            return Path(val)
        except (ValueError, OSError):
            # If Path creation fails, keep as string
            return val
    return val


def orig_recursive_save(
    self,
    obj,
    group: zarr.Group,
    skip_names: set[str] = set(),
    skip_types: tuple[type, ...] = (),
    compressors=None,
) -> None:
    # Store class identity and version metadata at group root if not already set
    if "_autoserialize" not in group.attrs:
        group.attrs["_autoserialize"] = {
            "version": 1,
            "class_module": obj.__class__.__module__,
            "class_name": obj.__class__.__qualname__,
        }

    # Support both attrs and plain Python classes
    attrs_fields = getattr(obj.__class__, "__attrs_attrs__", None)
    if attrs_fields is not None:
        items = [(field.name, getattr(obj, field.name)) for field in attrs_fields]
    else:
        items = obj.__dict__.items()

    for attr_name, attr_value in items:
        # Skip any attributes matching names/types in skip lists
        if attr_name in skip_names or isinstance(attr_value, skip_types):
            continue

        # Use unified serialization method
        self._serialize_value(attr_value, group, attr_name, skip_names, skip_types, compressors)


def orig_sequence_length(group: zarr.Group) -> int:
    """ORIGINAL spelling of the length computation in _deserialize_container (list/tuple)."""
    length = (
        max(
            (
                int(k)
                for k in list(group.attrs)
                + list(group.array_keys())
                + list(group.group_keys())
                if k.isdigit()
            ),
            default=-1,
        )
        + 1
    )
    return length


def orig_class_lookup(group: zarr.Group):
    """ORIGINAL spelling of the class lookup at the top of _recursive_load."""
    meta = cast(dict[str, Any], group.attrs["_autoserialize"])
    version = int(meta.get("version", 1))
    if version != 1:
        raise ValueError(f"Unsupported AutoSerialize version: {version}")
    module_name = cast(str, meta["class_module"])
    class_name = cast(str, meta["class_name"])
    module = __import__(module_name, fromlist=[class_name])
    cls_obj = getattr(module, class_name)
    return cls_obj


class patched:
    """Temporarily install ORIGINAL implementations on AutoSerialize."""

    def __init__(self, **impls):
        self.impls = impls
        self.saved = {}

    def __enter__(self):
        for k, v in self.impls.items():
            self.saved[k] = AutoSerialize.__dict__[k]
            setattr(AutoSerialize, k, v)

    def __exit__(self, *exc):
        for k, v in self.saved.items():
            setattr(AutoSerialize, k, v)


def same_array(x, y, what):
    assert type(x) is type(y), f"{what}: {type(x)} vs {type(y)}"
    assert x.dtype == y.dtype and x.shape == y.shape, f"{what}: {x.dtype}{x.shape} vs {y.dtype}{y.shape}"
    if x.size and "_original_shape" not in what:
        assert x.tobytes() == y.tobytes(), f"{what}: contents"


def part_b(tmp):
    rng = np.random.default_rng(1)
    n = 0

    # ---- _array_to_np: direct old/new comparison on zarr arrays of every dtype/shape ----
    root = zarr.group(store=LocalStore(os.path.join(tmp, "B_arrays")), overwrite=True)
    arrs = make_arrays(rng)
    for name, a in arrs.items():
        AutoSerialize._write_ndarray(root, name, a, None)
        za = cast(zarr.Array, root[name])
        new, old = AutoSerialize._array_to_np(za), orig_array_to_np(za)
        same_array(old, new, name + ("_original_shape" if "_original_shape" in za.attrs else ""))
        assert new.dtype == a.dtype and new.shape == a.shape, name
        if a.size:
            assert new.tobytes() == np.ascontiguousarray(a).tobytes(), name
        n += 1
    # arrays that _write_ndarray never produces: real empty shapes, odd _original_shape values
    for i, shp in enumerate([(0,), (0, 3), (2, 0), (4,), (2, 2)]):
        za = root.create_array(name=f"raw{i}", shape=shp, dtype="float32")
        same_array(orig_array_to_np(za), AutoSerialize._array_to_np(za), f"raw{i}")
        n += 1
    for i, (shp, orig_shape) in enumerate(
        [((), [0, 2]), ((), (3, 0)), ((), [0]), ((0,), [0, 5]), ((2,), [0, 1]), ((), 0)]
    ):
        za = root.create_array(name=f"os{i}", shape=shp, dtype="int16")
        za.attrs["_original_shape"] = orig_shape
        same_array(orig_array_to_np(za), AutoSerialize._array_to_np(za), f"os{i}")
        n += 1

    # ---- _convert_string_to_path_if_needed: direct old/new comparison ----
    grp = root.require_group("paths")
    grp.attrs["p.is_path"] = True
    grp.attrs["q.is_path"] = False
    grp.attrs["z.is_path"] = 0
    grp.attrs["o.is_path"] = 1
    grp.attrs["w.is_path"] = "yes"
    for key in ["p", "q", "z", "o", "w", "missing", "", "p.is_path"]:
        for val in ["/a/b", "", "rel", "a\x00b", 3, 2.5, None, True, [1], ["/a"], {"k": "v"}, "ü/ß"]:
            new = AutoSerialize._convert_string_to_path_if_needed(val, grp, key)
            old = orig_convert_string_to_path_if_needed(val, grp, key)
            assert type(new) is type(old) and new == old, (key, val, old, new)
            if not isinstance(old, Path):
                assert new is val
            n += 1

    # ---- whole pipeline with the ORIGINAL small functions swapped in ----
    graphs = {
        "scalars": graph_scalars(),
        "containers": graph_containers(rng),
        "arrays": graph_arrays(rng),
        "nested": graph_nested(rng),
        "torch": graph_torch(),
    }
    orig_impls = dict(
        _array_to_np=staticmethod(orig_array_to_np),
        _convert_string_to_path_if_needed=staticmethod(orig_convert_string_to_path_if_needed),
        _recursive_save=orig_recursive_save,
    )
    for gname, g in graphs.items():
        for level in (4,):
            d_new = os.path.join(tmp, f"B_{gname}_{level}_new")
            d_old = os.path.join(tmp, f"B_{gname}_{level}_old")
            quiet(g.save, d_new, compression_level=level)
            with patched(**orig_impls):
                quiet(g.save, d_old, compression_level=level)
                back_old = quiet(load, d_new)
            back_new = quiet(load, d_new)
            # the ORIGINAL loader helpers and the current ones produce the same graph
            deep_equal(back_old, back_new, f"B/{gname}/load-old-vs-new", numeric_loose=False)
            deep_equal(g, back_new, f"B/{gname}/roundtrip")
            # the ORIGINAL _recursive_save and the current one write the same store, byte for byte
            if gname != "torch":  # torch.save payloads are compared after loading instead
                t_new, t_old = tree_bytes(d_new), tree_bytes(d_old)
                assert sorted(t_new) == sorted(t_old), f"B/{gname}: store file sets differ"
                for k in t_new:
                    assert t_new[k] == t_old[k], f"B/{gname}: store file {k} differs"
            else:
                deep_equal(quiet(load, d_old), back_new, f"B/{gname}/save-old-vs-new", numeric_loose=False)
            n += 1

    # attribute order written by _recursive_save for attrs classes == field order
    fake = FakeAttrs(alpha="a", beta=2, gamma=None, delta=4.5)
    d = os.path.join(tmp, "B_fake")
    quiet(fake.save, d)
    keys = [k for k in zarr.open_group(d, mode="r").attrs if not k.startswith("_autoserialize")]
    assert keys == ["alpha", "beta", "gamma", "delta"], keys

    # ---- _deserialize_container length, _recursive_load class lookup: old fragment vs result ----
    top = Node(c=graph_containers(rng), n=graph_nested(rng), k=graph_compact())
    d = os.path.join(tmp, "B_frag")
    quiet(top.save, d)
    zroot = zarr.open_group(d, mode="r")

    def walk(zg, pyobj, path):
        nonlocal n
        if "_autoserialize" in zg.attrs:
            assert type(pyobj) is orig_class_lookup(zg), path
            n += 1
        ctype = zg.attrs.get("_container_type")
        if ctype in ("list", "tuple") and zg.attrs.get("_sequence_encoding") != "ndarray":
            assert len(pyobj) == orig_sequence_length(zg), (path, len(pyobj), orig_sequence_length(zg))
            n += 1
        for k in zg.group_keys():
            sub = cast(zarr.Group, zg[k])
            if ctype in ("list", "tuple"):
                child = pyobj[int(k)]
            elif ctype == "dict":
                child = pyobj[k]
            elif ctype == "set":
                continue
            else:
                child = getattr(pyobj, k)
            walk(sub, child, f"{path}/{k}")

    walk(zroot, quiet(load, d), "frag")
    return n


def main():
    with tempfile.TemporaryDirectory() as tmp:
        na = part_a(tmp)
        nb = part_b(tmp)
    print(f"C01 demo OK: {na} round-trips, {nb} old-vs-new checks")
    return 0


if __name__ == "__main__":
    sys.exit(main())
