"""
C05 demo: checkpoint / resume equivalence for iterative ptychography (save, reload, clone).

Runs on the unmodified tree and with any of the four behaviour-preserving patches applied.
It (1) compares the edited functions bit-for-bit against verbatim copies of the ORIGINAL
functions (pasted below from the worktree HEAD) and (2) asserts the property end to end on a
small simulated data set (zip + directory stores, adam/adamw/sgd, several schedulers, 1 and 2
probe modes, three object types, full-batch updates).

Invoke as:  PYTHONPATH=<root>/src /venv/bin/python demo.py
Writes only inside tempfile.TemporaryDirectory().
"""

import os

os.environ.setdefault("MPLBACKEND", "Agg")

import contextlib  # noqa: E402
import copy  # noqa: E402
import io  # noqa: E402
import shutil  # noqa: E402,F401  (used by ORIG_save)
import tempfile  # noqa: E402
import warnings  # noqa: E402
from pathlib import Path  # noqa: E402,F401
from typing import Generator, Literal, Sequence, Union  # noqa: E402,F401
from zipfile import ZipFile  # noqa: E402,F401

warnings.filterwarnings("ignore")

import numpy as np  # noqa: E402
import torch  # noqa: E402
import zarr  # noqa: E402
from zarr.storage import LocalStore  # noqa: E402

from quantem.core.datastructures.dataset4dstem import Dataset4dstem  # noqa: E402
from quantem.core.io.serialize import AutoSerialize, load  # noqa: E402
from quantem.core.ml.optimizer_mixin import OptimizerMixin  # noqa: E402
from quantem.core.utils.utils import electron_wavelength_angstrom  # noqa: E402
from quantem.diffractive_imaging.dataset_models import PtychographyDatasetRaster  # noqa: E402
from quantem.diffractive_imaging.detector_models import DetectorPixelated  # noqa: E402
from quantem.diffractive_imaging.object_models import ObjectPixelated  # noqa: E402
from quantem.diffractive_imaging.probe_models import ProbePixelated  # noqa: E402
from quantem.diffractive_imaging.ptychography import Ptychography  # noqa: E402

torch.manual_seed(0)
torch.set_num_threads(1)  # tiny problems: threads only add overhead (and noise)

# ======================================================================================
# Verbatim copies of the ORIGINAL functions (worktree HEAD), only the def-name is changed
# ======================================================================================

def ORIG_save(
    self,
    path: str | Path,
    mode: Literal["w", "o"] = "w",
    store: Literal["auto", "zip", "dir"] = "auto",
    skip: Union[str, type, Sequence[Union[str, type]]] = (),
    compression_level: int | None = 4,
) -> None:
    """
    Save the current object to disk using Zarr serialization.

    Parameters
    ----------
    path : str or Path
        Target file path. Use '.zip' extension for zip format, otherwise a directory.
    mode : {'w', 'o'}
        'w' = write only if file doesn't exist, 'o' = overwrite if it does.
    store : {'auto', 'zip', 'dir'}
        Storage format. 'auto' infers from file extension.
    skip : str, type, or list of (str or type)
        Attribute names/types to skip (by name or type) during serialization.
    compression_level : int or None
        If set (0–9), applies Zstandard compression with Blosc backend at that level.
        Level 0 disables compression. Raises ValueError if > 9.

    Notes
    -----
    Skipped attribute names and types are also stored in the file metadata for correct
    round-trip skipping during load().
    """
    # Validate compression level
    if compression_level is not None:
        if not (0 <= compression_level <= 9):
            raise ValueError(
                f"compression_level must be between 0 and 9, got {compression_level}"
            )
        compressors = [
            {
                "name": "blosc",
                "configuration": {
                    "cname": "zstd",
                    "clevel": int(compression_level),
                    "shuffle": "bitshuffle",
                },
            }
        ]
    else:
        compressors = None

    path = str(path)
    # Auto-infer storage format if needed
    if store == "auto":
        store = "zip" if path.endswith(".zip") else "dir"

    # Ensure .zip extension if requested
    if store == "zip" and not path.endswith(".zip"):
        print(f"Warning: appending .zip to path '{path}'")
        path += ".zip"

    # Handle overwrite vs. write protection
    if os.path.exists(path):
        if mode == "o":
            if os.path.isdir(path):
                shutil.rmtree(path)
            else:
                os.remove(path)
        else:
            raise FileExistsError(f"File '{path}' already exists. Use mode='o' to overwrite.")

    # Normalize skip argument (split to names and types)
    if isinstance(skip, (str, type)):
        skip = [skip]
    skip_names = {s for s in skip if isinstance(s, str)}
    skip_types = tuple(s for s in skip if isinstance(s, type))

    def write_skip_metadata(root):
        # Store skip info as attributes for correct deserialization
        root.attrs["_autoserialize_skip_names"] = list(skip_names)
        root.attrs["_autoserialize_skip_types"] = [
            f"{t.__module__}.{t.__qualname__}" for t in skip_types
        ]

    # Main branch: choose between zip and directory storage
    if store == "zip":
        # Always use tempdir for safe atomic write
        with tempfile.TemporaryDirectory() as tmpdir:
            store_obj = LocalStore(tmpdir)
            root = zarr.group(store=store_obj, overwrite=True)
            self._recursive_save(self, root, skip_names, skip_types, compressors)
            write_skip_metadata(root)
            # Zip up all files in tempdir
            try:
                with ZipFile(path, mode="w") as zf:
                    for dirpath, _, filenames in os.walk(tmpdir):
                        for filename in filenames:
                            full_path = os.path.join(dirpath, filename)
                            rel_path = os.path.relpath(full_path, tmpdir)
                            zf.write(full_path, arcname=rel_path)
            except BaseException:
                # Never leave a partial (but readable) archive behind
                if os.path.exists(path):
                    os.remove(path)
                raise
    elif store == "dir":
        # Directory mode requires no extension
        if os.path.splitext(path)[1]:
            raise ValueError(
                f"Expected a directory path for store='dir', but got file-like path '{path}'"
            )
        try:
            os.makedirs(path, exist_ok=True)
            store_obj = LocalStore(path)
            root = zarr.group(store=store_obj, overwrite=True)
            self._recursive_save(self, root, skip_names, skip_types, compressors)
            write_skip_metadata(root)
        except BaseException:
            # The target did not exist (or was removed above): never leave a partial,
            # but loadable, object behind when serialisation fails part-way
            shutil.rmtree(path, ignore_errors=True)
            raise
    else:
        raise ValueError(f"Unknown store type: {store}")


def ORIG_record_iter(self, iter_loss: float) -> None:
    self._iter_losses.append(iter_loss)
    optimizers = self.optimizers
    all_keys = set(self._iter_lrs.keys()) | set(optimizers.keys())
    for key in all_keys:
        if key in self._iter_lrs.keys():
            if key in optimizers.keys():
                self._iter_lrs[key].append(optimizers[key].param_groups[0]["lr"])
            else:
                self._iter_lrs[key].append(0.0)
        else:  # new optimizer
            # For new optimizers, backfill with 0.0 LR for previous iterations
            current_iter = self.num_iters - 1  # -1 because loss was just appended
            prev_lrs = [0.0] * current_iter
            prev_lrs.append(optimizers[key].param_groups[0]["lr"])
            self._iter_lrs[key] = prev_lrs


def ORIG_reconnect_optimizer_to_parameters(self) -> None:
    """
    Reconnect optimizer to parameters after device changes.
    This is needed because AutoSerialize loads to CPU, but optimizers
    need to reference tensors on the current device.
    """
    if self._optimizer is None:
        return

    current_params = self.get_optimization_parameters()
    if isinstance(current_params, torch.Tensor):
        current_params = [current_params]
    elif isinstance(current_params, Generator):
        current_params = list(current_params)

    optimizable_params = [
        p for p in current_params if isinstance(p, torch.Tensor) and p.is_leaf
    ]

    if not optimizable_params:
        print(
            f"souldn't be getting here! No optimizable parameters found for {self.__class__.__name__}, removing optimizer"
        )
        self.remove_optimizer()
        return

    for p in optimizable_params:
        p.requires_grad_(True)

    # Preserve optimizer state and param_group settings
    old_state = self._optimizer.state.copy()
    current_param_group = self._optimizer.param_groups[0].copy()

    # Reconnect to new parameters
    self._optimizer.param_groups.clear()
    self._optimizer.add_param_group({"params": optimizable_params})

    # Update state mapping and move tensors to correct device
    new_state = {}
    device = optimizable_params[0].device
    for i, old_param in enumerate(old_state.keys()):
        if i < len(optimizable_params):
            new_param = optimizable_params[i]
            new_state[new_param] = {}
            for key, value in old_state[old_param].items():
                if isinstance(value, torch.Tensor):
                    new_state[new_param][key] = value.to(device)
                else:
                    new_state[new_param][key] = value

    self._optimizer.state.clear()
    self._optimizer.state.update(new_state)

    # Restore param_group settings (LR, betas, etc.) but keep new parameters
    self._optimizer.param_groups[0].update(
        {k: v for k, v in current_param_group.items() if k != "params"}
    )

    # Reconnect scheduler
    if self._scheduler is not None and self._optimizer is not None:
        self._scheduler.optimizer = self._optimizer
    return


def ORIG_container_length(group):
    """The ORIGINAL length expression of AutoSerialize._deserialize_container (list/tuple)."""
    length = (
        max(
            (
                int(k)
                for k in list(group.attrs)
                + list(group.array_keys())
                + list(group.group_keys())
                if k.isdigit()
            ),
            default=-1,
        )
        + 1
    )
    return length


# ======================================================================================
# helpers
# ======================================================================================


@contextlib.contextmanager
def quiet():
    with contextlib.redirect_stdout(io.StringIO()):
        yield


def tree_bytes(root):
    out = {}
    for dirpath, _, filenames in os.walk(root):
        for fn in filenames:
            full = os.path.join(dirpath, fn)
            with open(full, "rb") as f:
                out[os.path.relpath(full, root)] = f.read()
    return out


def deep_equal(a, b):
    """Exact (bitwise for arrays / tensors) structural equality, types included."""
    if isinstance(a, torch.Tensor) or isinstance(b, torch.Tensor):
        return (
            isinstance(a, torch.Tensor)
            and isinstance(b, torch.Tensor)
            and a.dtype == b.dtype
            and a.shape == b.shape
            and bool(torch.equal(a.detach().cpu(), b.detach().cpu()))
        )
    if isinstance(a, np.ndarray) or isinstance(b, np.ndarray):
        return (
            isinstance(a, np.ndarray)
            and isinstance(b, np.ndarray)
            and a.dtype == b.dtype
            and a.shape == b.shape
            and bool(np.array_equal(a, b, equal_nan=a.dtype.kind in "fc"))
        )
    if type(a) is not type(b):
        return False
    if isinstance(a, dict):
        return set(a.keys()) == set(b.keys()) and all(deep_equal(a[k], b[k]) for k in a)
    if isinstance(a, (list, tuple)):
        return len(a) == len(b) and all(deep_equal(x, y) for x, y in zip(a, b))
    if isinstance(a, (set, frozenset)):
        return a == b
    return a == b


# ======================================================================================
# 1. AutoSerialize.save  (directory store: cleanup on failure, identical output on success)
# ======================================================================================


class Boom:
    """Cannot be pickled: the dill fallback of the serializer raises `exc`."""

    def __init__(self, exc):
        self._exc = exc

    def __reduce_ex__(self, protocol):
        raise self._exc


class Toy(AutoSerialize):
    def __init__(self, payload=None):
        self.a = 3
        self.name = "toy"
        self.arr = np.arange(12.0).reshape(3, 4)
        self.lst = ["a", 1, 2.5, None]
        self.nums = [1.0, 2.0, 3.0]
        self.t = torch.arange(5, dtype=torch.float32)
        self.sub = {"x": 1, "y": np.ones(3), "z": ["u", "v"]}
        self.payload = payload  # serialised last: the target is already partly written


def check_save(td):
    new_save = AutoSerialize.save
    impls = {"orig": ORIG_save, "new": new_save}

    # success: the two directory trees are byte-identical
    trees = {}
    for tag, fn in impls.items():
        p = os.path.join(td, f"ok_{tag}")
        fn(Toy(payload=7), p, store="dir")
        trees[tag] = tree_bytes(p)
        assert os.path.isdir(p)
    assert trees["orig"].keys() == trees["new"].keys() and len(trees["new"]) > 5
    assert all(trees["orig"][k] == trees["new"][k] for k in trees["orig"]), "tree differs"

    # success through "auto" and compression None / 0 / 9, reload and compare
    for tag, fn in impls.items():
        for cl in (None, 0, 9):
            p = os.path.join(td, f"auto_{tag}_{cl}")
            fn(Toy(payload="s"), p, compression_level=cl)
            back = load(p)
            assert deep_equal(back.__dict__, Toy(payload="s").__dict__), (tag, cl)

    # failure part-way (ordinary and BaseException-only errors): nothing is left behind and
    # the very same exception object propagates
    for exc in (RuntimeError("boom"), ValueError("v"), KeyboardInterrupt(), SystemExit(3)):
        for tag, fn in impls.items():
            p = os.path.join(td, f"fail_{tag}_{type(exc).__name__}")
            assert not os.path.exists(p)
            raised = None
            try:
                with quiet():
                    fn(Toy(payload=Boom(exc)), p, store="dir")
            except BaseException as e:  # noqa: BLE001
                raised = e
            assert raised is exc, (tag, exc, raised)
            assert not os.path.exists(p), f"partial store left behind ({tag}, {exc!r})"

    # failure with mode="o" on an existing store: the old one was removed, nothing remains
    for tag, fn in impls.items():
        p = os.path.join(td, f"over_{tag}")
        fn(Toy(payload=1), p, store="dir")
        exc = RuntimeError("again")
        try:
            with quiet():
                fn(Toy(payload=Boom(exc)), p, mode="o", store="dir")
        except RuntimeError as e:
            assert e is exc
        else:
            raise AssertionError("no error")
        assert not os.path.exists(p)

    # errors raised before the protected region leave an existing store untouched
    for tag, fn in impls.items():
        p = os.path.join(td, f"exists_{tag}")
        fn(Toy(payload=1), p, store="dir")
        before = tree_bytes(p)
        try:
            fn(Toy(payload=2), p, store="dir")
        except FileExistsError:
            pass
        else:
            raise AssertionError("expected FileExistsError")
        assert tree_bytes(p) == before
        try:
            fn(Toy(payload=2), os.path.join(td, f"bad_{tag}.ext"), store="dir")
        except ValueError:
            pass
        else:
            raise AssertionError("expected ValueError")
        assert not os.path.exists(os.path.join(td, f"bad_{tag}.ext"))
        try:
            fn(Toy(payload=2), os.path.join(td, f"lvl_{tag}"), compression_level=11)
        except ValueError:
            pass
        else:
            raise AssertionError("expected ValueError")
        # overwrite works and gives the same tree as a fresh save
        fn(Toy(payload=2), p, mode="o", store="dir")
        assert load(p).payload == 2

    # zip store (untouched branch) for completeness
    for tag, fn in impls.items():
        p = os.path.join(td, f"z_{tag}.zip")
        fn(Toy(payload=5), p)
        assert deep_equal(load(p).__dict__, Toy(payload=5).__dict__)
    print("1. AutoSerialize.save: old == new (trees, exceptions, cleanup)")


# ======================================================================================
# 2. Ptychography._record_iter  (loss / learning-rate history bookkeeping)
# ======================================================================================


class FakeOpt:
    def __init__(self, lr):
        self.param_groups = [{"lr": lr}, {"lr": -1.0}]


class RecStub:
    """Carries exactly the state _record_iter reads and writes."""

    def __init__(self, losses=(), lrs=None):
        self._iter_losses = list(losses)
        self._iter_lrs = {k: list(v) for k, v in (lrs or {}).items()}
        self._opts = {}

    @property
    def optimizers(self):
        return dict(self._opts)

    @property
    def iter_losses(self):
        return np.array(self._iter_losses)

    @property
    def num_iters(self):
        return len(self.iter_losses)


def check_record_iter():
    new_fn = Ptychography._record_iter
    schedule = [
        # (optimizers present during this iteration)
        {"object": 5e-3},
        {"object": 4e-3},
        {"object": 3e-3, "probe": 1e-3},  # probe appears at iteration 2 -> backfilled
        {"probe": 9e-4},  # object optimizer removed -> 0.0 recorded
        {"probe": 8e-4, "dataset": 1e-2},
        {},
        {"object": 1.0, "probe": 2.0, "dataset": 3.0},
    ]
    starts = [
        ((), None),  # fresh run: the very first iteration
        ((3.0, 2.0), {"object": [0.1, 0.1]}),  # resumed run (as after a reload)
        ((3.0, 2.0, 1.5), {}),  # resumed run that had no optimizers so far
    ]
    for losses, lrs in starts:
        a, b = RecStub(losses, lrs), RecStub(losses, lrs)
        for i, opts in enumerate(schedule):
            for s in (a, b):
                s._opts = {k: FakeOpt(v) for k, v in opts.items()}
            loss = np.float32(1.0 / (i + 1)).item()
            ORIG_record_iter(a, loss)
            new_fn(b, loss)
            assert a._iter_losses == b._iter_losses
            assert a._iter_lrs == b._iter_lrs, (a._iter_lrs, b._iter_lrs)
            assert all(len(v) == b.num_iters for v in b._iter_lrs.values())
            assert all(type(x) is float for v in b._iter_lrs.values() for x in v)
    # first iteration ever with all three optimizers: history of length exactly 1
    s = RecStub()
    s._opts = {"object": FakeOpt(0.5), "probe": FakeOpt(0.25), "dataset": FakeOpt(0.125)}
    new_fn(s, 9.0)
    assert s._iter_lrs == {"object": [0.5], "probe": [0.25], "dataset": [0.125]}
    print("2. Ptychography._record_iter: old == new")


# ======================================================================================
# 3. OptimizerMixin.reconnect_optimizer_to_parameters
# ======================================================================================


class ToyModel(OptimizerMixin):
    def __init__(self, tensors, mode="list"):
        super().__init__()
        self.tensors = tensors
        self.mode = mode

    def get_optimization_parameters(self):
        if self.mode == "single":
            return self.tensors[0]
        if self.mode == "gen":
            return (t for t in self.tensors)
        return list(self.tensors)


def toy_step(model, k):
    model.zero_optimizer_grad()
    for j, t in enumerate(model.tensors):
        g = torch.Generator().manual_seed(1000 * k + j)
        grad = torch.randn(t.shape, generator=g, dtype=torch.float32)
        if t.is_complex():
            grad = torch.complex(grad, grad.flip(0))
        t.grad = grad.to(t.dtype)
    model.step_optimizer()
    model.step_scheduler(1.0 / (k + 1))


def check_reconnect():
    new_fn = OptimizerMixin.reconnect_optimizer_to_parameters
    opt_cfgs = [
        {"type": "adam", "lr": 1e-2},
        {"type": "adam", "lr": 1e-2, "amsgrad": True},
        {"type": "adamw", "lr": 3e-3, "weight_decay": 0.1},
        {"type": "sgd", "lr": 0.5},  # empty optimizer state
        {"type": "sgd", "lr": 0.1, "momentum": 0.9},
    ]
    sched_cfgs = [
        {},
        {"type": "exp", "gamma": 0.9},
        {"type": "plateau", "patience": 0, "cooldown": 0},
        {"type": "linear", "total_iters": 4},
    ]
    n_cases = 0
    for oc in opt_cfgs:
        for sc in sched_cfgs:
            for mode, n_t, n_after in (
                ("list", 2, 2),
                ("gen", 3, 3),
                ("single", 1, 1),
                ("list", 3, 2),  # fewer parameters afterwards than state entries
            ):
                g = torch.Generator().manual_seed(7)
                tensors = [
                    torch.randn(4, 3, generator=g, dtype=torch.float32).requires_grad_(True)
                    for _ in range(n_t)
                ]
                if n_t > 1:
                    tensors[1] = torch.randn(
                        5, generator=g, dtype=torch.complex64
                    ).requires_grad_(True)
                base = ToyModel(tensors, mode)
                base.set_optimizer(dict(oc))
                base.set_scheduler(dict(sc), num_iter=6)
                for k in range(3):
                    toy_step(base, k)

                models = {"orig": copy.deepcopy(base), "new": copy.deepcopy(base)}
                old_values = {}
                for tag, m in models.items():
                    # as after a reload / device move: the model owns NEW leaf tensors, the
                    # optimizer still refers to the old ones
                    m.tensors = [
                        torch.nn.Parameter(t.detach().clone()) for t in m.tensors[:n_after]
                    ]
                    old_values[tag] = [dict(v) for v in m._optimizer.state.values()]
                    old_group = {
                        k: v for k, v in m._optimizer.param_groups[0].items() if k != "params"
                    }
                    (ORIG_reconnect_optimizer_to_parameters if tag == "orig" else new_fn)(m)
                    opt = m._optimizer
                    # bound to the model's current tensors, in order
                    assert len(opt.param_groups) == 1
                    assert all(
                        p is t for p, t in zip(opt.param_groups[0]["params"], m.tensors)
                    )
                    assert all(k is t for k, t in zip(opt.state.keys(), m.tensors))
                    assert {
                        k: v for k, v in opt.param_groups[0].items() if k != "params"
                    } == old_group
                    if m._scheduler is not None:
                        assert m._scheduler.optimizer is opt
                    # non-tensor state entries are passed through by reference, tensors by
                    # value (same device -> .to() returns the very same tensor)
                    for st_new, st_old in zip(opt.state.values(), old_values[tag]):
                        assert type(st_new) is dict
                        assert list(st_new.keys()) == list(st_old.keys())
                        assert all(st_new[k] is st_old[k] for k in st_old)

                a, b = models["orig"]._optimizer, models["new"]._optimizer
                assert len(a.state) == len(b.state)
                for sa, sb in zip(a.state.values(), b.state.values()):
                    assert deep_equal(sa, sb)
                assert deep_equal(
                    {k: v for k, v in a.param_groups[0].items() if k != "params"},
                    {k: v for k, v in b.param_groups[0].items() if k != "params"},
                )
                # continue optimising: identical trajectories, bit for bit, and identical to
                # the uninterrupted model when no parameter was dropped
                for k in range(3, 6):
                    for m in models.values():
                        toy_step(m, k)
                    if n_after == n_t:
                        toy_step(base, k)
                for ta, tb in zip(models["orig"].tensors, models["new"].tensors):
                    assert torch.equal(ta, tb)
                if n_after == n_t:
                    for ta, tb in zip(base.tensors, models["new"].tensors):
                        assert torch.equal(ta.detach(), tb.detach())
                    assert base.get_current_lr() == models["new"].get_current_lr()
                n_cases += 1

    # degenerate paths: no optimizer; no leaf parameter left -> optimizer removed
    for fn in (ORIG_reconnect_optimizer_to_parameters, new_fn):
        m = ToyModel([torch.zeros(2, requires_grad=True)])
        assert fn(m) is None and m._optimizer is None
        m.set_optimizer({"type": "adam", "lr": 0.1})
        m.tensors = [m.tensors[0] * 2.0]  # non-leaf
        with quiet():
            fn(m)
        assert m._optimizer is None and m._optimizer_params == {}
    print(f"3. reconnect_optimizer_to_parameters: old == new ({n_cases} configurations)")


# ======================================================================================
# 4. AutoSerialize._deserialize_container  (length of non-numeric sequences)
# ======================================================================================


class Box(AutoSerialize):
    def __init__(self, **kw):
        self.__dict__.update(kw)


def check_container(td):
    seqs = {}
    for n in (0, 1, 2, 9, 10, 11, 12, 21, 101):
        seqs[f"str_{n}"] = [f"s{i}" for i in range(n)]
        if n <= 12:
            seqs[f"tup_{n}"] = tuple(f"s{i}" for i in range(n))
    seqs["mixed"] = ["a", 1, None, 2.5, np.arange(3), {"k": 1}, ["n", "m"], ("t",), True, "z", 4, "q"]
    seqs["arrays"] = [np.full((2, 2), i, dtype=np.float32) for i in range(13)]
    seqs["tensors"] = [torch.full((3,), float(i)) for i in range(11)]
    seqs["dicts"] = [{"iteration": i, "obj": np.ones(2) * i} for i in range(14)]
    seqs["nested"] = [[f"{i}_{j}" for j in range(i)] for i in range(13)]
    seqs["numeric"] = list(range(15))  # ndarray fast path, not the counted path
    seqs["strset"] = {f"k{i}" for i in range(12)}
    box = Box(**seqs)
    p = os.path.join(td, "box")
    box.save(p, store="dir")
    back = load(p)
    root = zarr.group(store=LocalStore(p))
    for name, val in seqs.items():
        got = getattr(back, name)
        assert type(got) is type(val), (name, type(got))
        assert deep_equal(got, val), name
        if isinstance(val, (list, tuple)) and name != "numeric":
            grp = root[name]
            assert ORIG_container_length(grp) == len(val) == len(got), name
            # the public class method on the raw group as well
            assert deep_equal(AutoSerialize._deserialize_container(grp), val), name
    # zip store
    pz = os.path.join(td, "box.zip")
    box.save(pz)
    backz = load(pz)
    assert all(deep_equal(getattr(backz, k), v) for k, v in seqs.items())
    print("4. _deserialize_container: sequences of 0..101 items round-trip, length == original")


# ======================================================================================
# 5. The property end to end
# ======================================================================================

N = 16
Q_MAX = 0.5
Q_PROBE = Q_MAX / 2
ENERGY = 300e3
C10 = 50


def build(num_probes=1, obj_type="complex"):
    rng = np.random.default_rng(42)
    arr = rng.random((N, N))
    arr -= arr.mean()
    cobj = np.exp(1.0j * arr.astype(np.float32))
    sampling = 1 / Q_MAX / 2
    rs = 2 * Q_MAX / N
    qx = np.fft.fftfreq(N, sampling)
    q = np.sqrt(qx[:, None] ** 2 + qx[None, :] ** 2)
    ap = np.sqrt(np.clip((Q_PROBE - q) / rs + 0.5, 0, 1))
    chi = q**2 * electron_wavelength_angstrom(ENERGY) * np.pi * C10
    pf = ap * np.exp(-1j * chi)
    pf /= np.sqrt(np.sum(np.abs(pf) ** 2))
    probe = np.fft.ifft2(pf) * N
    if num_probes > 1:  # mixed state: one 3-D stack of distinct modes
        probe = np.stack([probe * (0.5**m) * np.exp(0.3j * m) for m in range(num_probes)])
        probe = np.stack([np.roll(p, m, axis=0) for m, p in enumerate(probe)])
    x = np.arange(0.0, N, 1)
    xx, yy = np.meshgrid(x, x, indexing="ij")
    pos = np.stack((xx.ravel(), yy.ravel()), axis=-1)
    x0 = np.round(pos[:, 0]).astype(int)
    y0 = np.round(pos[:, 1]).astype(int)
    xi = np.fft.fftfreq(N, d=1 / N).astype(int)
    row = (x0[:, None, None] + xi[None, :, None]) % N
    col = (y0[:, None, None] + xi[None, None, :]) % N
    inten = np.abs(np.fft.fft2(cobj[row, col] * (probe if probe.ndim == 2 else probe[0]))) ** 2
    d4 = Dataset4dstem.from_array(
        array=np.fft.fftshift(inten * 100, axes=(-2, -1)).reshape((N, N, N, N)),
        sampling=(1, 1, rs, rs),
        units=("A", "A", "A^-1", "A^-1"),
    )
    with quiet():
        pd = PtychographyDatasetRaster.from_dataset4dstem(d4, verbose=0)
        pd.preprocess(
            com_fit_function="constant",
            plot_rotation=False,
            plot_com=False,
            probe_energy=ENERGY,
            force_com_rotation=0,
            force_com_transpose=False,
        )
        om = ObjectPixelated.from_uniform(num_slices=1, obj_type=obj_type, slice_thicknesses=1)
        pm = ProbePixelated.from_array(
            num_probes=num_probes,
            probe_params={
                "energy": ENERGY,
                "C10": C10,
                "semiangle_cutoff": electron_wavelength_angstrom(ENERGY) * 1e3,
            },
            probe_array=probe,
        )
        pt = Ptychography.from_models(
            dset=pd,
            obj_model=om,
            probe_model=pm,
            detector_model=DetectorPixelated(),
            rng=42,
            verbose=0,
        )
        pt.preprocess(obj_padding_px=(0, 0), plot_rotation=False, plot_com=False)
    return pt


def same_report(a, b, what):
    assert a.num_iters == b.num_iters, what
    assert np.array_equal(a.iter_losses, b.iter_losses), what
    la, lb = a.iter_lrs, b.iter_lrs
    assert la.keys() == lb.keys(), what
    assert all(np.array_equal(la[k], lb[k]) for k in la), what
    ca, cb = a.constraints, b.constraints
    assert ca.keys() == cb.keys()
    for k in ca:
        assert {kk: str(v) for kk, v in ca[k].items()} == {
            kk: str(v) for kk, v in cb[k].items()
        }, (what, k)
    assert np.array_equal(a.obj, b.obj), what
    assert np.array_equal(a.probe, b.probe), what
    assert len(a.snapshots) == len(b.snapshots), what
    for sa, sb in zip(a.snapshots, b.snapshots):
        assert sa["iteration"] == sb["iteration"]
        assert np.array_equal(sa["obj"], sb["obj"]) and np.array_equal(sa["probe"], sb["probe"])


def close_report(a, b, what, rtol=2e-4):
    assert a.num_iters == b.num_iters, what
    assert np.allclose(a.iter_losses, b.iter_losses, rtol=rtol, atol=0), (
        what,
        a.iter_losses,
        b.iter_losses,
    )
    la, lb = a.iter_lrs, b.iter_lrs
    assert la.keys() == lb.keys(), what
    assert all(np.allclose(la[k], lb[k], rtol=1e-9, atol=0) for k in la), (what, la, lb)
    assert np.allclose(a.obj, b.obj, rtol=rtol, atol=1e-5), what
    assert np.allclose(a.probe, b.probe, rtol=rtol, atol=1e-5 * np.abs(a.probe).max()), what
    assert len(a.snapshots) == len(b.snapshots), what


def check_property(td):
    configs = [
        dict(
            name="adam/exp+plateau complex 1 probe zip k=12 (snapshots)",
            num_probes=1,
            obj_type="complex",
            opt={"object": {"type": "adam", "lr": 5e-3}, "probe": {"type": "adam", "lr": 1e-3}},
            sch={"object": {"type": "exp", "gamma": 0.9}, "probe": {"type": "plateau"}},
            k=12,
            more=3,
            store="zip",
            snapshots=True,
        ),
        dict(
            name="sgd/none pure_phase 2 probes dir k=1",
            num_probes=2,
            obj_type="pure_phase",
            opt={"object": {"type": "sgd", "lr": 0.2}, "probe": {"type": "sgd", "lr": 0.05}},
            sch=None,
            k=1,
            more=3,
            store="dir",
            snapshots=False,
        ),
        dict(
            name="adamw/linear+cyclic potential 1 probe dir k=4",
            num_probes=1,
            obj_type="potential",
            opt={"object": {"type": "adamw", "lr": 2e-3}, "probe": {"type": "adamw", "lr": 5e-4}},
            sch={
                "object": {"type": "linear", "total_iters": 6},
                "probe": {"type": "cyclic", "step_size_up": 2},
            },
            k=4,
            more=4,
            store="dir",
            snapshots=False,
        ),
    ]
    for cfg in configs:
        pt = build(cfg["num_probes"], cfg["obj_type"])
        kw = {}
        if cfg["snapshots"]:
            kw = dict(store_snapshots=True, store_snapshots_every=1)
        pt.reconstruct(
            num_iters=cfg["k"],
            reset=True,
            optimizer_params=copy.deepcopy(cfg["opt"]),
            scheduler_params=copy.deepcopy(cfg["sch"]),
            batch_size=N * N,
            **kw,
        )
        assert pt.num_iters == cfg["k"]
        path = os.path.join(td, "ck_" + str(configs.index(cfg)) + (".zip" if cfg["store"] == "zip" else ""))
        with quiet():
            pt.save(path, store=cfg["store"], save_raw_data=True, verbose=0)
            reloaded = Ptychography.from_file(path, auto_reload_dataset=False)
            # default save (raw data skipped, learned positions kept as metadata) + own dataset
            path2 = os.path.join(td, "nr_" + str(configs.index(cfg)) + ".zip")
            pt.save(path2, verbose=0)
            assert not hasattr(pt, "_dataset_metadata")
            own_dset = Ptychography.from_file(path, auto_reload_dataset=False).dset
            reloaded2 = Ptychography.from_file(path2, dset=own_dset)
            cloned = pt.clone()
        assert os.path.isdir(path) == (cfg["store"] == "dir")
        for other, tag in ((reloaded, "reloaded"), (reloaded2, "reloaded w/o raw"), (cloned, "clone")):
            same_report(pt, other, f"{cfg['name']}: {tag} right after")
            assert other is not pt and other.obj_model is not pt.obj_model
        for p in (pt, reloaded, reloaded2, cloned):
            p.reconstruct(num_iters=cfg["more"], batch_size=N * N, **kw)
            assert p.num_iters == cfg["k"] + cfg["more"]
        for other, tag in ((reloaded, "reloaded"), (reloaded2, "reloaded w/o raw"), (cloned, "clone")):
            close_report(pt, other, f"{cfg['name']}: {tag} after continuing")
        if cfg["snapshots"]:
            assert [s["iteration"] for s in reloaded.snapshots] == [
                s["iteration"] for s in pt.snapshots
            ]
            assert len(reloaded.snapshots) == cfg["k"] + cfg["more"] > 10
        # the learning-rate history covers every iteration for every optimizer
        assert all(len(v) == pt.num_iters for v in reloaded.iter_lrs.values())
        print(f"5. property holds: {cfg['name']}")


if __name__ == "__main__":
    with tempfile.TemporaryDirectory() as td:
        import time

        for fn, args in (
            (check_save, (td,)),
            (check_record_iter, ()),
            (check_reconnect, ()),
            (check_container, (td,)),
            (check_property, (td,)),
        ):
            t0 = time.time()
            fn(*args)
            print(f"   [{fn.__name__}: {time.time() - t0:.1f} s]")
    print("OK")
