"""Demo for C12 patch 1: validate_aberration_coefficients flattened (nested closures inlined,
alias / canonical branches merged).  Asserts the 'defocus' alias convention (C10 = -defocus)
and exact agreement with a verbatim copy of the original implementation."""

import itertools
import math
import random

import numpy as np
import torch

from quantem.core.utils.validators import validate_aberration_coefficients, validate_dict_keys


# ----------------------------------------------------------------------------- verbatim original
def validate_aberration_coefficients_ORIG(value: dict):
    """ """
    # fmt: off
    POLAR_ALIASES = {
        "defocus": "C10",
        "astigmatism": "C12",
        "astigmatism_angle": "phi12",
        "coma": "C21",
        "coma_angle": "phi21",
        "Cs": "C30",
        "C5": "C50",
    }

    POLAR_SYMBOLS = (
        "C10", "C12", "phi12",
        "C21", "phi21", "C23", "phi23",
        "C30", "C32", "phi32", "C34", "phi34",
        "C41", "phi41", "C43", "phi43", "C45", "phi45",
        "C50", "C52", "phi52", "C54", "phi54", "C56", "phi56",
    )
    # fmt: on

    validate_dict_keys(
        value,
        [*POLAR_SYMBOLS, *POLAR_ALIASES.keys()],
    )

    def set_aberrations(params):
        """Standardize aberration coefficients."""

        def process_polar_params(p: dict):
            for symbol, value in p.items():
                if value is None:
                    continue
                elif symbol in POLAR_SYMBOLS:
                    polar_parameters[symbol] = float(value)
                elif symbol == "defocus":
                    polar_parameters["C10"] = -float(value)
                elif symbol in POLAR_ALIASES:
                    polar_parameters[POLAR_ALIASES[symbol]] = float(value)

        # Start only with explicitly passed aberrations
        polar_parameters = {}
        process_polar_params(params)
        return polar_parameters

    polar_parameters = set_aberrations(value.copy())
    return polar_parameters


# ----------------------------------------------------------------------------- helpers
ALIASES = {
    "defocus": "C10",
    "astigmatism": "C12",
    "astigmatism_angle": "phi12",
    "coma": "C21",
    "coma_angle": "phi21",
    "Cs": "C30",
    "C5": "C50",
}
# fmt: off
SYMBOLS = (
    "C10", "C12", "phi12",
    "C21", "phi21", "C23", "phi23",
    "C30", "C32", "phi32", "C34", "phi34",
    "C41", "phi41", "C43", "phi43", "C45", "phi45",
    "C50", "C52", "phi52", "C54", "phi54", "C56", "phi56",
)
# fmt: on
ALL_KEYS = SYMBOLS + tuple(ALIASES)


def outcome(fn, arg):
    """Return ('ok', items-in-order-with-types) or ('err', type, message)."""
    try:
        res = fn(arg)
    except BaseException as e:  # noqa: BLE001
        return ("err", type(e), str(e) if not isinstance(e, ValueError) or "Invalid keys" not in str(e) else "Invalid keys")
    assert type(res) is dict
    return ("ok", [(k, type(v), repr(v)) for k, v in res.items()])


def same(arg_factory):
    a, b = arg_factory(), arg_factory()
    snap = repr(list(a.items())) if hasattr(a, "items") else None
    new = outcome(validate_aberration_coefficients, a)
    old = outcome(validate_aberration_coefficients_ORIG, b)
    assert new == old, (new, old)
    if snap is not None:
        assert repr(list(a.items())) == snap, "input mapping was mutated"
    return new


n_cases = 0

# 1. every accepted key on its own, with several value kinds
values = [0, 0.0, -0.0, 1, -3, 2.5, -1e-7, 1e12, float("inf"), True, "1.5", " -2e3 ",
          np.float32(0.1), np.float64(-7.25), np.int64(4), torch.tensor(3.5), torch.tensor(-2),
          np.array(1.25)]
for key in ALL_KEYS:
    for v in values:
        r = same(lambda: {key: v})
        n_cases += 1
        assert r[0] == "ok"
        (k, t, rep), = r[1]
        assert t is float
        canonical = ALIASES.get(key, key)
        assert k == canonical
        expect = -float(v) if key == "defocus" else float(v)
        assert rep == repr(expect)

# 2. the property itself: defocus alias always means C10 = -defocus
for d in [0.0, 1.0, -1.0, 123.456, -1e4, 3, np.float32(2.5)]:
    out = validate_aberration_coefficients({"defocus": d})
    assert out == {"C10": -float(d)}
    assert math.copysign(1.0, out["C10"]) == math.copysign(1.0, -float(d))  # signed zero too
    out = validate_aberration_coefficients({"C10": d})
    assert out == {"C10": float(d)}

# 3. None values are skipped, NaN handled
assert validate_aberration_coefficients({"defocus": None}) == {}
assert validate_aberration_coefficients({"defocus": None, "C10": 5}) == {"C10": 5.0}
assert validate_aberration_coefficients({"C10": 5, "defocus": None}) == {"C10": 5.0}
r = validate_aberration_coefficients({"defocus": float("nan")})
assert list(r) == ["C10"] and math.isnan(r["C10"])
same(lambda: {k: None for k in ALL_KEYS})

# 4. alias + canonical given together: later entry wins, key position is first insertion
for a, c in ALIASES.items():
    for first in (a, c):
        second = c if first == a else a
        r = same(lambda: {first: 10.0, "C23": 1.0, second: 20.0})
        n_cases += 1
        assert r[0] == "ok"
        keys = [k for k, _, _ in r[1]]
        assert keys == [c, "C23"], keys
        val = float(r[1][0][2])
        if second == "defocus":
            assert val == -20.0
        else:
            assert val == 20.0

# 5. random mixes (ordering, None, ints, duplicates through aliases)
rng = random.Random(1234)
for _ in range(3000):
    n = rng.randint(0, 12)
    keys = rng.sample(ALL_KEYS, n)
    vals = [rng.choice([None, rng.uniform(-1e3, 1e3), rng.randint(-5, 5), str(rng.uniform(-1, 1)),
                        np.float32(rng.uniform(-1, 1))]) for _ in keys]
    same(lambda: dict(zip(keys, vals)))
    n_cases += 1

# 6. full dictionaries in every rotation of the key order
for shift in range(len(ALL_KEYS)):
    keys = ALL_KEYS[shift:] + ALL_KEYS[:shift]
    r = same(lambda: {k: float(i) + 0.5 for i, k in enumerate(keys)})
    assert r[0] == "ok" and {k for k, _, _ in r[1]} == set(SYMBOLS)
    n_cases += 1

# 7. failures: invalid keys, unconvertible values, exception half-way, non-dict inputs
bad_inputs = [
    lambda: {"C11": 1.0},
    lambda: {"Defocus": 1.0},
    lambda: {"defocus": 1.0, "foo": 2.0},
    lambda: {1: 2.0},
    lambda: {None: 2.0},
    lambda: {"C10": "abc"},
    lambda: {"defocus": "abc"},
    lambda: {"defocus": [1.0]},
    lambda: {"Cs": object()},
    lambda: {"C10": 1.0, "coma": "x", "foo": 3},
    lambda: {"C10": 1.0, "coma": 1 + 2j},
    lambda: {"C12": np.array([1.0, 2.0])},
    lambda: {"C12": torch.tensor([1.0, 2.0])},
    lambda: {"energy": 300e3},
    lambda: None,
    lambda: [("C10", 1.0)],
    lambda: "C10",
    lambda: 5,
]
for f in bad_inputs:
    r = same(f)
    assert r[0] == "err", r
    n_cases += 1

# 8. dict subclasses / other mappings with .copy()
from collections import OrderedDict, defaultdict  # noqa: E402
from types import MappingProxyType  # noqa: E402

for f in [
    lambda: OrderedDict([("defocus", 2), ("C12", 3), ("astigmatism", None)]),
    lambda: defaultdict(float, {"defocus": 2, "Cs": 1e7}),
    lambda: MappingProxyType({"defocus": 2, "C5": 1e7}),
    lambda: {},
]:
    same(f)
    n_cases += 1

# repeated calls are independent (no state carried over)
a = validate_aberration_coefficients({"defocus": 1.0})
b = validate_aberration_coefficients({"C12": 2.0})
assert a == {"C10": -1.0} and b == {"C12": 2.0}

print(f"PASS ({n_cases} comparison cases)")
