import math
import sys
from collections import deque

import numpy as np
import torch

from quantem.core.utils import imaging_utils as iu

TWO_PI = 2.0 * math.pi


# ----------------------------------------------------------------------------
# test-field / mask generators and the property oracle
# ----------------------------------------------------------------------------
def wrap(x):
    return (x + math.pi) % TWO_PI - math.pi


def grid(H, W):
    y, x = torch.meshgrid(
        torch.arange(H, dtype=torch.float64),
        torch.arange(W, dtype=torch.float64),
        indexing="ij",
    )
    return y, x


def max_neighbour_diff(f, periodic):
    if periodic:
        dy = (torch.roll(f, -1, 0) - f).abs().max()
        dx = (torch.roll(f, -1, 1) - f).abs().max()
    else:
        dy = (f[1:, :] - f[:-1, :]).abs().max() if f.shape[0] > 1 else torch.tensor(0.0)
        dx = (f[:, 1:] - f[:, :-1]).abs().max() if f.shape[1] > 1 else torch.tensor(0.0)
    return float(max(dy, dx))


def rescale(f, periodic, target=2.6):
    """Scale so that the largest neighbour difference equals `target` (< pi)."""
    m = max_neighbour_diff(f, periodic)
    if m > 0:
        f = f * (target / m)
    return f.to(torch.float32)


def make_fields(H, W, periodic, rng):
    y, x = grid(H, W)
    out = {}
    if not periodic:
        out["ramp"] = rescale(0.9 * y - 0.37 * x, False)
        out["quadratic"] = rescale((y - H / 2.3) ** 2 + 0.6 * (x - W / 1.7) ** 2 + 0.3 * x * y, False)
        out["gauss"] = rescale(
            torch.exp(-((y - H / 2) ** 2 / (0.18 * H * H + 1) + (x - W / 3) ** 2 / (0.15 * W * W + 1))),
            False,
        )
    # band-limited random field built from integer frequencies: periodic by construction
    f = torch.zeros(H, W, dtype=torch.float64)
    for _ in range(5):
        m, n = int(rng.integers(-2, 3)), int(rng.integers(-2, 3))
        a, p = rng.normal(), rng.uniform(0, TWO_PI)
        f = f + a * torch.cos(TWO_PI * (m * y / H + n * x / W) + p)
    f = f + 1.5 * torch.sin(TWO_PI * y / H + 0.3) + 1.1 * torch.cos(TWO_PI * x / W)
    out["bandlimited"] = rescale(f, periodic)
    out["sincos"] = rescale(
        3.0 * torch.sin(TWO_PI * y / H) * torch.cos(TWO_PI * x / W) + 2.0 * torch.cos(2 * TWO_PI * y / H + 0.7),
        periodic,
    )
    return out


def make_masks(H, W, rng):
    y, x = grid(H, W)
    r = torch.sqrt((y - (H - 1) / 2) ** 2 + (x - (W - 1) / 2) ** 2)
    R = min(H, W) / 2
    masks = {"none": None}
    masks["disk"] = r < 0.9 * R
    masks["annulus"] = (r < 0.95 * R) & (r > 0.35 * R)
    two = torch.zeros(H, W, dtype=torch.bool)
    two[: H // 2 - 1, : W // 2] = True
    two[H // 2 + 1 :, W // 3 :] = True
    two[1:3, 1:3] = False  # a hole
    masks["two_blobs_hole"] = two
    masks["random80"] = torch.from_numpy(rng.random((H, W)) < 0.8)
    edge = torch.zeros(H, W, dtype=torch.bool)  # touches all four borders
    edge[:2, :] = True
    edge[-2:, :] = True
    edge[:, :2] = True
    edge[:, -1:] = True
    edge[H // 2, :] = True
    masks["frame"] = edge
    return masks


def components(mask, H, W, periodic):
    """4-connected components of `mask` (all True when None); returns list of index arrays."""
    m = np.ones((H, W), bool) if mask is None else mask.numpy().astype(bool)
    seen = np.zeros((H, W), bool)
    comps = []
    for sy in range(H):
        for sx in range(W):
            if not m[sy, sx] or seen[sy, sx]:
                continue
            q = deque([(sy, sx)])
            seen[sy, sx] = True
            cur = []
            while q:
                cy, cx = q.popleft()
                cur.append(cy * W + cx)
                for dy, dx in ((1, 0), (-1, 0), (0, 1), (0, -1)):
                    ny, nx = cy + dy, cx + dx
                    if periodic:
                        ny %= H
                        nx %= W
                    elif not (0 <= ny < H and 0 <= nx < W):
                        continue
                    if m[ny, nx] and not seen[ny, nx]:
                        seen[ny, nx] = True
                        q.append((ny, nx))
            comps.append(np.array(cur))
    return comps


def check_property(field, phi_in, out, mask, periodic, tag, tol=2e-3):
    """out == field + const on each component; out - phi_in == 2*pi*k + one constant everywhere."""
    H, W = field.shape
    assert out.shape == field.shape, tag
    assert out.dtype == phi_in.dtype, tag
    d = (out.double() - field.double()).flatten().numpy()
    for comp in components(mask, H, W, periodic):
        spread = d[comp].max() - d[comp].min()
        assert spread < tol, f"{tag}: not constant on a component (spread {spread})"
    r = ((out.double() - phi_in.double()) / TWO_PI).flatten().numpy()
    r = r - r[0]
    frac = np.abs(r - np.round(r)).max()
    assert frac < tol, f"{tag}: not 2*pi multiples plus one constant ({frac})"


def same_tensor(a, b):
    return a.dtype == b.dtype and a.shape == b.shape and torch.equal(a, b)


# ----------------------------------------------------------------------------
# verbatim copy of the ORIGINAL _final_offsets
# ----------------------------------------------------------------------------
def _final_offsets_ORIG(uf):
    """
    Single-pass offset computation (no path compression).
    """
    N = uf.parent.numel()
    incs = torch.zeros(N)

    for i in range(N):
        root = i
        total = 0.0
        while uf.parent[root] != root:
            total += uf.offset[root]
            root = uf.parent[root]
        incs[i] = total

    return incs


def build_union_find(phi, mask, wrap_around):
    """Replays the driver up to (not including) _final_offsets."""
    H, W = phi.shape
    rel = iu._pixel_reliability(phi, mask)
    i1, i2, inc = iu._build_edges(phi, rel, mask, wrap_around=wrap_around)
    uf = iu.UnionFindPhase(H * W)
    for k in range(i1.numel()):
        uf.union(i1[k].item(), i2[k].item(), inc[k].item())
    return uf


def compare_offsets(uf, tag):
    p0, r0, o0 = uf.parent.clone(), uf.rank.clone(), uf.offset.clone()
    old = _final_offsets_ORIG(uf)
    new = iu._final_offsets(uf)
    assert same_tensor(old, new), f"{tag}: _final_offsets differs from the original"
    # the union-find must not have been touched
    assert torch.equal(uf.parent, p0) and torch.equal(uf.rank, r0) and torch.equal(uf.offset, o0), tag
    # signed zeros too
    assert torch.equal(torch.signbit(old), torch.signbit(new)), tag


def main():
    rng = np.random.default_rng(17)
    n_cases = 0

    # --- synthetic union-find states: hand-made forests, non-integer offsets, deep chains ---
    uf = iu.UnionFindPhase(0)
    compare_offsets(uf, "empty")
    uf = iu.UnionFindPhase(1)
    compare_offsets(uf, "single")
    uf = iu.UnionFindPhase(7)  # untouched forest: all roots
    compare_offsets(uf, "all-roots")
    uf = iu.UnionFindPhase(9)  # a chain 0->1->2->...->8 with awkward float offsets (order of summation matters)
    uf.parent = torch.tensor([1, 2, 3, 4, 5, 6, 7, 8, 8])
    uf.offset = torch.tensor([1e8, 1.0, -1e8, 0.1, 0.2, 0.3, -0.0, 1e-8, 0.0])
    compare_offsets(uf, "chain")
    uf = iu.UnionFindPhase(6)  # star with negative zeros
    uf.parent = torch.tensor([3, 3, 3, 3, 3, 3])
    uf.offset = torch.tensor([-0.0, 2.0, -1.0, 0.0, -0.0, 5.0])
    compare_offsets(uf, "star")
    for n in (5, 40, 200):  # random merges through the public union API
        uf = iu.UnionFindPhase(n)
        for _ in range(3 * n):
            a, b = int(rng.integers(n)), int(rng.integers(n))
            uf.union(a, b, int(rng.integers(-2, 3)))
        compare_offsets(uf, f"random-merges-{n}")
        n_cases += 1

    # --- union-find states produced by the real pipeline + end-to-end property ---
    shapes = [(1, 9), (7, 1), (2, 2), (9, 14), (16, 11), (21, 24)]
    for periodic in (False, True):
        for H, W in shapes:
            fields = make_fields(H, W, periodic, rng)
            masks = make_masks(H, W, rng) if min(H, W) >= 9 else {"none": None}
            for fname, field in fields.items():
                wrapped = wrap(field)
                for mname, mask in masks.items():
                    tag = f"{H}x{W} {fname} mask={mname} periodic={periodic}"
                    uf = build_union_find(wrapped, mask, periodic)
                    compare_offsets(uf, tag)
                    out = iu.unwrap_phase_2d_torch(
                        wrapped, method="reliability-sorting", mask=mask, wrap_around=periodic
                    )
                    # driver result must be what the ORIGINAL offsets give
                    ref = (wrapped.flatten() + TWO_PI * _final_offsets_ORIG(uf)).reshape(H, W)
                    ref -= ref.mean()
                    assert same_tensor(out, ref), tag
                    check_property(field, wrapped, out, mask, periodic, tag)
                    n_cases += 1
            # already-unwrapped smooth input is returned unchanged up to a constant
            field = fields["bandlimited"]
            out = iu.unwrap_phase_2d_torch(field, mask=None, wrap_around=periodic)
            check_property(field, field, out, None, periodic, f"{H}x{W} identity periodic={periodic}")
            dd = out - field
            assert float(dd.max() - dd.min()) < 1e-4

    # integer / bool mask dtypes and a float64 field go through the same bookkeeping
    H, W = 12, 10
    field = make_fields(H, W, False, rng)["quadratic"]
    m = make_masks(H, W, rng)["annulus"]
    o_bool = iu.unwrap_phase_2d_torch(wrap(field), mask=m, wrap_around=False)
    o_int = iu.unwrap_phase_2d_torch(wrap(field), mask=m.to(torch.int64), wrap_around=False)
    assert same_tensor(o_bool, o_int)
    check_property(field, wrap(field), o_bool, m, False, "int-mask")
    f64 = field.double()
    o64 = iu.unwrap_phase_2d_torch(wrap(f64), mask=m, wrap_around=False)
    assert o64.dtype == torch.float64
    check_property(f64, wrap(f64), o64, m, False, "float64")

    print(f"PASS ({n_cases} cases)")


if __name__ == "__main__":
    main()
