"""C18 demo: centre-of-mass origin estimation / origin fitting / periodic shift.

Embeds verbatim copies of the ORIGINAL (worktree HEAD) implementations of

  * ptycho_utils.fit_origin
  * CenterOfMassOriginModel.calculate_origin
  * CenterOfMassOriginModel.shift_origin_to
  * PtychographyDatasetRaster._set_intensities_com

and asserts that the implementations found on PYTHONPATH produce bit-identical
results on a spread of inputs (non-square scans/detectors, masks, all batch
sizes, all fit functions, vectorised and looped path).  In addition the C18
property itself is asserted against float64 oracles.

Usage: PYTHONPATH=<root>/src /venv/bin/python demo.py
"""

import types
import warnings

import numpy as np
import torch
from scipy.optimize import curve_fit
from torch.nn import functional as F

from quantem.core import config
from quantem.core.datastructures import Dataset
from quantem.core.utils.utils import tqdmnd
from quantem.diffractive_imaging import dataset_models as dm
from quantem.diffractive_imaging import origin_models as om
from quantem.diffractive_imaging import ptycho_utils as pu
from quantem.diffractive_imaging.ptycho_utils import (
    SimpleBatcher,
    _bezier_two,
    _parabola,
    _plane,
    perform_robust_fitting,
)

warnings.filterwarnings("ignore")


# --------------------------------------------------------------------------
# verbatim copies of the ORIGINAL functions
# --------------------------------------------------------------------------
def ORIG_fit_origin(
    data,
    mask=None,
    fit_function="plane",
    robust=False,
    robust_steps=3,
    robust_thresh=2,
):
    """Fits the origin of diffraction space using the specified method."""

    qr0_meas, qc0_meas = data

    if fit_function == "plane":
        f = _plane
    elif fit_function == "parabola":
        f = _parabola
    elif fit_function == "bezier_two":
        f = _bezier_two
    elif fit_function == "constant":
        qr0_fit = np.mean(qr0_meas) * np.ones_like(qr0_meas)
        qc0_fit = np.mean(qc0_meas) * np.ones_like(qc0_meas)
        qr0_residuals = qr0_meas - qr0_fit
        qc0_residuals = qc0_meas - qc0_fit
        return qr0_fit, qc0_fit, qr0_residuals, qc0_residuals
    else:
        raise ValueError(
            "fit_function must be one of 'plane', 'parabola', 'bezier_two', 'constant'"
        )
    shape = qr0_meas.shape
    r, c = np.indices(shape)
    r1D = r.reshape(1, np.prod(shape))
    c1D = c.reshape(1, np.prod(shape))
    rc = np.vstack((r1D, c1D))

    if mask is not None:
        qr0_meas_masked = qr0_meas[mask]
        qc0_meas_masked = qc0_meas[mask]
        mask1D = mask.reshape(1, np.prod(shape))
        rc_masked = np.vstack((r1D * mask1D, c1D * mask1D))

        popt_r, _ = curve_fit(f, rc_masked, qr0_meas_masked)
        popt_c, _ = curve_fit(f, rc_masked, qc0_meas_masked)

        if robust:
            popt_r = perform_robust_fitting(
                f, rc_masked, qr0_meas_masked, popt_r, robust_steps, robust_thresh
            )
            popt_c = perform_robust_fitting(
                f, rc_masked, qc0_meas_masked, popt_c, robust_steps, robust_thresh
            )
    else:
        popt_r, _ = curve_fit(f, rc, qr0_meas)
        popt_c, _ = curve_fit(f, rc, qc0_meas)

        if robust:
            popt_r = perform_robust_fitting(f, rc, qr0_meas, popt_r, robust_steps, robust_thresh)
            popt_c = perform_robust_fitting(f, rc, qc0_meas, popt_c, robust_steps, robust_thresh)

    qr0_fit = f(rc, *popt_r).reshape(shape)
    qc0_fit = f(rc, *popt_c).reshape(shape)
    qr0_residuals = qr0_meas - qr0_fit
    qc0_residuals = qc0_meas - qc0_fit

    return qr0_fit, qc0_fit, qr0_residuals, qc0_residuals


fit_origin = ORIG_fit_origin  # the ORIGINAL _set_intensities_com copy calls the ORIGINAL fit


def ORIG_calculate_origin(
    self,
    max_batch_size=None,
):
    """ """
    nqx, nqy = self.dataset.shape[-2:]
    tensor_3d = self.tensor.view((-1, nqx, nqy))

    qx = torch.arange(nqx, dtype=torch.float, device=self.device)
    qy = torch.arange(nqy, dtype=torch.float, device=self.device)
    qxa, qya = torch.meshgrid(qx, qy, indexing="ij")

    if max_batch_size is None:
        max_batch_size = self.num_dps

    batcher = SimpleBatcher(self.num_dps, batch_size=max_batch_size, shuffle=False)

    com_measured = torch.empty((self.num_dps, 2), dtype=torch.float, device=self.device)

    for batch_idx in batcher:
        intensities = tensor_3d[batch_idx]
        summed_intensities = torch.sum(intensities, dim=(-2, -1))
        com_measured[batch_idx, 0] = (
            torch.sum(intensities * qxa[None, :, :], dim=(-2, -1)) / summed_intensities
        )
        com_measured[batch_idx, 1] = (
            torch.sum(intensities * qya[None, :, :], dim=(-2, -1)) / summed_intensities
        )

    self.origin_measured = com_measured
    return self


def ORIG_shift_origin_to(
    self,
    origin_coordinate=(0, 0),
    max_batch_size=None,
    mode="bilinear",
):
    if self._origin_fitted is None:
        raise ValueError(
            "fitted origins not detected. Use self.fit_origin_background() first."
        )

    origin_fitted = self.origin_fitted
    H, W = self.dataset.shape[-2:]

    tensor_3d = self.tensor.view((-1, 1, H, W))
    shifted_tensor_3d = torch.empty_like(tensor_3d)
    coordinate = torch.as_tensor(origin_coordinate, dtype=torch.float, device=self.device)

    grid_y, grid_x = torch.meshgrid(
        torch.arange(H, device=self.device), torch.arange(W, device=self.device), indexing="ij"
    )
    base_grid = torch.stack((grid_y, grid_x), dim=-1).float()

    if max_batch_size is None:
        max_batch_size = self.num_dps

    batcher = SimpleBatcher(self.num_dps, batch_size=max_batch_size, shuffle=False)

    size_tensor = torch.tensor([H, W], dtype=torch.float, device=self.device)

    for batch_idx in batcher:
        intensities = tensor_3d[batch_idx]

        shift_yx = origin_fitted[batch_idx] - coordinate
        shift_tensor = shift_yx.view(-1, 1, 1, 2)

        shifted_grid = (base_grid[None, ...] + shift_tensor) % size_tensor

        grid_x_norm = 2 * shifted_grid[..., 1] / (W - 1) - 1
        grid_y_norm = 2 * shifted_grid[..., 0] / (H - 1) - 1
        grid = torch.stack((grid_x_norm, grid_y_norm), dim=-1)

        shifted_tensor_3d[batch_idx] = F.grid_sample(
            intensities,
            grid,
            mode=mode,
            padding_mode="zeros",
            align_corners=True,
        )

    self.shifted_tensor = shifted_tensor_3d.view(self.tensor.shape)
    return self


def ORIG_set_intensities_com(
    self,
    intensities,
    dp_mask=None,
    fit_function="plane",
    vectorized_calculation=True,
) -> None:
    if dp_mask is not None:
        if dp_mask.shape != intensities.shape[-2:]:
            raise ValueError(
                f"Mask shape should be (Qr,Qc) = {intensities.shape[-2:]} | got {dp_mask.shape}"
            )
        dp_mask = np.asarray(dp_mask, dtype=config.get("dtype_real"))

    # Coordinates
    kr = np.arange(intensities.shape[-2])
    kc = np.arange(intensities.shape[-1])
    krm, kcm = np.meshgrid(kr, kc, indexing="ij")

    if vectorized_calculation:
        if dp_mask is not None:
            intensities_mask = (intensities * dp_mask).astype(config.get("dtype_real"))
        else:
            intensities_mask = (intensities).astype(config.get("dtype_real"))
        com_measured_r = np.sum(intensities_mask * krm[None, None], axis=(-2, -1))
        com_measured_c = np.sum(intensities_mask * kcm[None, None], axis=(-2, -1))

        intensities_sum = np.sum(intensities_mask, axis=(-2, -1))
        com_measured_r /= intensities_sum
        com_measured_c /= intensities_sum

    else:
        shape_r, shape_c = intensities.shape[:2]
        com_measured_r = np.zeros((shape_r, shape_c))
        com_measured_c = np.zeros((shape_r, shape_c))

        # loop of dps
        for Rr, Rc in tqdmnd(
            range(shape_r),
            range(shape_c),
            desc="Calculating center of mass",
            unit="probe position",
            disable=not self._verbose,
        ):
            masked_intensity = intensities[Rr, Rc]
            if dp_mask is not None:
                masked_intensity *= dp_mask
            summed_intensity = masked_intensity.sum()
            com_measured_r[Rr, Rc] = np.sum(masked_intensity * krm) / summed_intensity
            com_measured_c[Rr, Rc] = np.sum(masked_intensity * kcm) / summed_intensity

    if fit_function == "none":
        com_fit_r, com_fit_c = com_measured_r, com_measured_c
    elif fit_function == "no_shift":
        com_fit_r, com_fit_c = np.ones_like(com_measured_r), np.ones_like(com_measured_c)
        com_fit_r = com_fit_r * self.roi_shape[0] / 2
        com_fit_c = com_fit_c * self.roi_shape[1] / 2
    else:
        finite_mask = np.isfinite(com_measured_r)
        com_fit_r, com_fit_c, _com_res_r, _com_res_c = fit_origin(
            data=(com_measured_r, com_measured_c),
            fit_function=fit_function,
            mask=finite_mask,
        )

    self.com_measured = (com_measured_r, com_measured_c)  # raw measured pixels
    self.com_fit = (com_fit_r, com_fit_c)  # fitted for descan, pixels
    return


# --------------------------------------------------------------------------
# helpers
# --------------------------------------------------------------------------
def same_np(a, b, what):
    a = np.asarray(a)
    b = np.asarray(b)
    assert a.dtype == b.dtype, f"{what}: dtype {a.dtype} != {b.dtype}"
    assert a.shape == b.shape, f"{what}: shape {a.shape} != {b.shape}"
    assert np.array_equal(a, b, equal_nan=True), f"{what}: values differ"
    assert a.tobytes() == b.tobytes() or np.isnan(a).any(), f"{what}: bytes differ"


def same_t(a, b, what):
    assert a.dtype == b.dtype and a.shape == b.shape, f"{what}: dtype/shape differ"
    assert a.stride() == b.stride(), f"{what}: strides differ"
    assert torch.equal(a, b) or (
        torch.equal(torch.isnan(a), torch.isnan(b))
        and torch.equal(torch.nan_to_num(a), torch.nan_to_num(b))
    ), f"{what}: values differ"


def outcome(fn, *args, **kwargs):
    try:
        return ("ok", fn(*args, **kwargs))
    except Exception as e:  # noqa: BLE001
        return ("exc", type(e), str(e))


def make_data(rng, shape, origin_fn=None):
    """positive 4-D patterns; optional gaussian blob centred at origin_fn(i, j)."""
    sr, sc, qr, qc = shape
    data = rng.uniform(0.05, 1.0, size=shape)
    if origin_fn is not None:
        rr, cc = np.indices((qr, qc))
        for i in range(sr):
            for j in range(sc):
                r0, c0 = origin_fn(i, j)
                data[i, j] += 25.0 * np.exp(-((rr - r0) ** 2 + (cc - c0) ** 2) / 3.0)
    return data.astype(np.float32)


def oracle_com(data, mask=None):
    d = data.astype(np.float64)
    if mask is not None:
        d = d * mask.astype(np.float64)
    qr, qc = d.shape[-2:]
    rr, cc = np.indices((qr, qc))
    s = d.sum(axis=(-2, -1))
    return (d * rr).sum(axis=(-2, -1)) / s, (d * cc).sum(axis=(-2, -1)) / s


# --------------------------------------------------------------------------
# 1. ptycho_utils.fit_origin
# --------------------------------------------------------------------------
def check_fit_origin(rng):
    n = 0
    for shape in [(5, 7), (7, 5), (6, 6), (3, 11), (4, 9)]:
        r, c = np.indices(shape)
        mx, my, b = rng.uniform(-0.4, 0.4), rng.uniform(-0.4, 0.4), rng.uniform(5, 12)
        plane_r = mx * r + my * c + b
        plane_c = -my * r + 0.5 * mx * c + b / 2
        noisy_r = plane_r + rng.normal(0, 0.05, shape)
        noisy_c = plane_c + rng.normal(0, 0.05, shape)
        m_all = np.ones(shape, dtype=bool)
        m_some = rng.uniform(size=shape) > 0.2
        m_nan = np.isfinite(noisy_r)
        for data in [(plane_r, plane_c), (noisy_r, noisy_c),
                     (noisy_r.astype(np.float32), noisy_c.astype(np.float32))]:
            for mask in [None, m_all, m_some, m_nan]:
                for ff in ["plane", "parabola", "bezier_two", "constant"]:
                    for robust in [False, True]:
                        if ff == "bezier_two" and (mask is m_some or robust):
                            continue
                        kw = dict(mask=mask, fit_function=ff, robust=robust)
                        a = outcome(ORIG_fit_origin, data, **kw)
                        b_ = outcome(pu.fit_origin, data, **kw)
                        assert a[0] == b_[0], (shape, ff, a, b_)
                        if a[0] == "exc":
                            assert a[1:] == b_[1:], (a, b_)
                        else:
                            for k, (x, y) in enumerate(zip(a[1], b_[1])):
                                same_np(x, y, f"fit_origin{shape}/{ff}/out{k}")
                        n += 1
        # property: exact plane / constant is recovered
        # (the unmasked curve_fit variants reject 2-D data in the baseline too; that
        #  outcome is compared old-vs-new above, the property is checked with a full mask)
        fr, fc, rr_, rc_ = pu.fit_origin((plane_r, plane_c), mask=m_all, fit_function="plane")
        assert np.allclose(fr, plane_r, atol=1e-6) and np.allclose(fc, plane_c, atol=1e-6)
        assert np.allclose(rr_, 0, atol=1e-6) and np.allclose(rc_, 0, atol=1e-6)
        const = (np.full(shape, 3.25), np.full(shape, 7.5))
        fr, fc, _, _ = pu.fit_origin(const, fit_function="constant")
        same_np(fr, const[0], "const r")
        same_np(fc, const[1], "const c")
    # invalid inputs: same exception type and message
    for bad in [
        dict(data=(np.zeros((4, 5)), np.zeros((4, 5))), fit_function="cubic"),
        dict(data=(np.arange(6.0), np.arange(6.0)), fit_function="plane"),
        dict(data=(np.zeros((2, 3, 4)), np.zeros((2, 3, 4))), fit_function="plane"),
        dict(data=(np.float64(1.0), np.float64(2.0)), fit_function="plane"),
        dict(data=(np.zeros((0, 4)), np.zeros((0, 4))), fit_function="plane"),
        dict(data=(np.zeros((1, 2)), np.zeros((1, 2))), fit_function="plane"),
    ]:
        a = outcome(ORIG_fit_origin, **bad)
        b_ = outcome(pu.fit_origin, **bad)
        assert a[0] == b_[0] == "exc" and a[1:] == b_[1:], (a, b_)
        n += 1
    return n


# --------------------------------------------------------------------------
# 2. CenterOfMassOriginModel (calculate_origin / fit / shift_origin_to)
# --------------------------------------------------------------------------
def new_model(data):
    ds = Dataset.from_array(np.array(data, copy=True))
    return om.CenterOfMassOriginModel.from_dataset(ds, device="cpu")


def check_origin_model(rng):
    n = 0
    for shape in [(3, 4, 6, 9), (4, 3, 9, 6), (2, 5, 8, 8), (1, 6, 5, 7)]:
        sr, sc, H, W = shape
        num = sr * sc
        int_origin = lambda i, j: (1 + (i + 2 * j) % (H - 2), 1 + (2 * i + j) % (W - 2))  # noqa: E731
        data = make_data(rng, shape, int_origin)
        o_r, o_c = oracle_com(data)

        ref = None
        for bs in [None] + list(range(1, num + 1)):
            m_old = new_model(data)
            m_new = new_model(data)
            r_old = ORIG_calculate_origin(m_old, bs)
            r_new = m_new.calculate_origin(bs)
            assert r_old is m_old and r_new is m_new
            same_t(m_old.origin_measured, m_new.origin_measured, f"calculate_origin{shape}/bs={bs}")
            same_t(m_old.tensor, m_new.tensor, "tensor untouched")
            got = m_new.origin_measured.numpy().astype(np.float64)
            # property: intensity-weighted mean, row then column
            assert np.allclose(got[:, 0], o_r.ravel(), atol=2e-4), (shape, bs)
            assert np.allclose(got[:, 1], o_c.ravel(), atol=2e-4), (shape, bs)
            # property: batch invariance
            if ref is None:
                ref = got
            assert np.allclose(got, ref, atol=1e-5), (shape, bs)
            n += 1

        # invalid batch sizes behave identically
        for bad_bs in [0, -1, 2.5, "3"]:
            a = outcome(ORIG_calculate_origin, new_model(data), bad_bs)
            b_ = outcome(new_model(data).calculate_origin, bad_bs)
            assert a[0] == b_[0], (bad_bs, a, b_)
            if a[0] == "exc":
                assert a[1:] == b_[1:], (a, b_)
            n += 1

        # plane fit of exactly planar origins returns the plane
        m = new_model(data)
        ii, jj = np.indices((sr, sc))
        plane = np.stack([0.25 * ii - 0.5 * jj + 3.0, -0.125 * ii + 0.75 * jj + 2.0], -1)
        m.origin_measured = torch.tensor(plane.reshape(-1, 2), dtype=torch.float)
        if sr > 1:
            m.fit_origin_background(fit_method="plane")
            assert np.allclose(m.origin_fitted.numpy(), plane.reshape(-1, 2), atol=1e-3)
        m.origin_measured = torch.tensor([[2.5, 3.5]], dtype=torch.float)
        m.fit_origin_background(fit_method="constant")
        assert np.allclose(m.origin_fitted.numpy(), [[2.5, 3.5]] * num)

        # shift_origin_to: integer origins -> exact circular roll; old == new bitwise
        int_orig = np.array([int_origin(i, j) for i in range(sr) for j in range(sc)], dtype=np.float32)
        frac_orig = int_orig + rng.uniform(-0.45, 0.45, int_orig.shape).astype(np.float32)
        for origins, is_int in [(int_orig, True), (frac_orig, False)]:
            for coord in [(0, 0), (2, 1), (H // 2, W // 2)]:
                for mode in ["bilinear", "nearest", "bicubic"]:
                    for bs in [None, 1, 2, num - 1 if num > 1 else 1, num, num + 3]:
                        m_old = new_model(data)
                        m_new = new_model(data)
                        m_old.origin_fitted = torch.tensor(origins)
                        m_new.origin_fitted = torch.tensor(origins)
                        ORIG_shift_origin_to(m_old, coord, bs, mode)
                        m_new.shift_origin_to(coord, bs, mode)
                        same_t(m_old.shifted_tensor, m_new.shifted_tensor,
                               f"shift{shape}/{coord}/{mode}/bs={bs}")
                        same_t(m_old.tensor, m_new.tensor, "tensor untouched")
                        if is_int and mode in ("bilinear", "nearest"):
                            got = m_new.shifted_tensor.numpy().reshape(num, H, W)
                            flat = data.reshape(num, H, W)
                            for k in range(num):
                                sh = (-int(origins[k, 0]) + coord[0], -int(origins[k, 1]) + coord[1])
                                exp = np.roll(flat[k], sh, axis=(0, 1))
                                assert np.allclose(got[k], exp, atol=1e-5), (shape, coord, mode, bs, k)
                        n += 1
        # error path identical
        a = outcome(ORIG_shift_origin_to, new_model(data))
        b_ = outcome(new_model(data).shift_origin_to)
        assert a[0] == b_[0] == "exc" and a[1:] == b_[1:]
        for bad_bs in [0, -2]:
            mo, mn = new_model(data), new_model(data)
            mo.origin_fitted = torch.tensor(int_orig)
            mn.origin_fitted = torch.tensor(int_orig)
            a = outcome(ORIG_shift_origin_to, mo, (0, 0), bad_bs)
            b_ = outcome(mn.shift_origin_to, (0, 0), bad_bs)
            assert a[0] == b_[0], (a, b_)
            if a[0] == "exc":
                assert a[1:] == b_[1:], (a, b_)
        # full workflow agrees with itself under batching
        f1 = new_model(data).forward(max_batch_size=None, estimate_detector_orientation=False)
        f2 = new_model(data).forward(max_batch_size=2, estimate_detector_orientation=False)
        assert np.allclose(f1.origin_measured.numpy(), f2.origin_measured.numpy(), atol=1e-5)
    return n


# --------------------------------------------------------------------------
# 3. PtychographyDatasetRaster._set_intensities_com
# --------------------------------------------------------------------------
def stub(roi_shape):
    return types.SimpleNamespace(_verbose=False, roi_shape=roi_shape)


def check_dataset_com(rng):
    n = 0
    NEW = dm.PtychographyDatasetRaster._set_intensities_com
    for shape in [(3, 4, 6, 9), (4, 3, 9, 6), (5, 5, 7, 7), (2, 6, 5, 8)]:
        sr, sc, H, W = shape
        data32 = make_data(rng, shape, lambda i, j: (1.5 + 0.5 * i + 0.25 * j, 2.0 - 0.25 * i + 0.5 * j))
        data64 = data32.astype(np.float64)
        mask_b = rng.uniform(size=(H, W)) > 0.25
        mask_f = mask_b.astype(np.float32)
        mask_w = rng.uniform(0.2, 1.0, size=(H, W))
        for data in [data32, data64]:
            for mask in [None, mask_b, mask_f, mask_w]:
                o_r, o_c = oracle_com(data, mask)
                for ff in ["none", "no_shift", "plane", "parabola", "constant"]:
                    res = {}
                    for vec in [True, False]:
                        s_old, s_new = stub((H, W)), stub((H, W))
                        d_old, d_new = data.copy(), data.copy()
                        m_old = None if mask is None else mask.copy()
                        m_new = None if mask is None else mask.copy()
                        a = outcome(ORIG_set_intensities_com, s_old, d_old, m_old, ff, vec)
                        b_ = outcome(NEW, s_new, d_new, m_new, ff, vec)
                        assert a[0] == b_[0] == "ok", (a, b_)
                        assert a[1] is None and b_[1] is None
                        for k in range(2):
                            same_np(s_old.com_measured[k], s_new.com_measured[k], f"com_measured[{k}]")
                            same_np(s_old.com_fit[k], s_new.com_fit[k], f"com_fit[{k}]")
                        # aliasing relation between measured and fit is the same
                        for k in range(2):
                            assert (s_old.com_fit[k] is s_old.com_measured[k]) == (
                                s_new.com_fit[k] is s_new.com_measured[k]
                            )
                            assert (s_new.com_fit[k] is s_new.com_measured[k]) == (ff == "none")
                        assert isinstance(s_new.com_measured, tuple) and isinstance(s_new.com_fit, tuple)
                        # in-place effects on the caller's arrays identical
                        same_np(d_old, d_new, "intensities after call")
                        if mask is not None:
                            same_np(m_old, m_new, "mask after call")
                        # property: weighted mean (row, column) vs float64 oracle
                        assert np.allclose(s_new.com_measured[0], o_r, atol=2e-4)
                        assert np.allclose(s_new.com_measured[1], o_c, atol=2e-4)
                        if ff == "no_shift":
                            assert np.all(s_new.com_fit[0] == H / 2) and np.all(s_new.com_fit[1] == W / 2)
                        res[vec] = s_new
                        n += 1
                    # property: vectorised == looped (to rounding)
                    for k in range(2):
                        assert np.allclose(res[True].com_measured[k], res[False].com_measured[k], atol=2e-4)
        # cross-model agreement with the torch origin model
        mdl = new_model(data32).calculate_origin(3)
        s = stub((H, W))
        NEW(s, data32.copy(), None, "none", True)
        got = mdl.origin_measured.numpy().reshape(sr, sc, 2)
        assert np.allclose(got[..., 0], s.com_measured[0], atol=2e-4)
        assert np.allclose(got[..., 1], s.com_measured[1], atol=2e-4)
        # error path (bad mask shape) identical
        a = outcome(ORIG_set_intensities_com, stub((H, W)), data32.copy(), np.ones((W + 1, H)), "plane", True)
        b_ = outcome(NEW, stub((H, W)), data32.copy(), np.ones((W + 1, H)), "plane", True)
        assert a[0] == b_[0] == "exc" and a[1:] == b_[1:], (a, b_)
        a = outcome(ORIG_set_intensities_com, stub((H, W)), data32.copy(), None, "cubic", True)
        b_ = outcome(NEW, stub((H, W)), data32.copy(), None, "cubic", True)
        assert a[0] == b_[0] == "exc" and a[1:] == b_[1:], (a, b_)
    return n


def main():
    torch.manual_seed(0)
    rng = np.random.default_rng(18)
    n1 = check_fit_origin(rng)
    n2 = check_origin_model(rng)
    n3 = check_dataset_com(rng)
    print(f"C18 demo OK: fit_origin cases={n1}, origin-model cases={n2}, dataset-com cases={n3}")


if __name__ == "__main__":
    main()
