"""Demo for property C02 (ptychography forward pipeline reproduces independently simulated data).

Shared by the four behaviour-preserving patches.  It

 A. embeds VERBATIM copies of the ORIGINAL versions of the three edited functions
    (PtychographyDatasetRaster._set_initial_scan_positions_px,
     PtychographyDatasetBase._set_patch_indices, ProbePixelated.forward)
    and asserts that the functions of the tree under test give bit-for-bit the same results
    (values, dtypes, shapes, strides, aliasing, exceptions) on a spread of inputs;
 B. runs the complete forward pipeline once with the tree's functions and once with the embedded
    originals monkeypatched in, and asserts bit-identical predictions and losses;
 C. asserts the property itself on data simulated by an independent numpy reference forward model:
    loss == 0 (to numerical precision) at the ground truth and strictly larger at a perturbed
    object / probe.

Invoked as   PYTHONPATH=<root>/src /venv/bin/python demo.py    (CPU only, < 60 s).
"""

import contextlib
import io
import os
import tempfile

import numpy as np
import torch

_tmp = tempfile.TemporaryDirectory()
os.environ.setdefault("MPLBACKEND", "Agg")
os.environ.setdefault("MPLCONFIGDIR", _tmp.name)

from quantem.core import config  # noqa: E402
from quantem.core.datastructures.dataset4dstem import Dataset4dstem  # noqa: E402
from quantem.core.utils.utils import electron_wavelength_angstrom  # noqa: E402
from quantem.diffractive_imaging import dataset_models as dm  # noqa: E402
from quantem.diffractive_imaging import probe_models as pm  # noqa: E402
from quantem.diffractive_imaging.dataset_models import PtychographyDatasetRaster  # noqa: E402
from quantem.diffractive_imaging.detector_models import DetectorPixelated  # noqa: E402
from quantem.diffractive_imaging.object_models import ObjectPixelated  # noqa: E402
from quantem.diffractive_imaging.probe_models import ProbePixelated  # noqa: E402
from quantem.diffractive_imaging.ptycho_utils import (  # noqa: E402
    AffineTransform,
    fourier_shift_expand,
)
from quantem.diffractive_imaging.ptychography import Ptychography  # noqa: E402

ENERGY = 300e3
WAVELENGTH = electron_wavelength_angstrom(ENERGY)


# --------------------------------------------------------------------------------------------
# verbatim copies of the ORIGINAL functions (worktree HEAD)
# --------------------------------------------------------------------------------------------
def ORIG_set_initial_scan_positions_px(
    self,
    obj_padding_px,
    positions_mask=None,
):
    if obj_padding_px is None:
        obj_padding_px = np.array([0, 0])

    nr, nc = self.gpts
    Sr, Sc = self._scan_sampling
    r = np.arange(nr) * Sr
    c = np.arange(nc) * Sc

    r, c = np.meshgrid(r, c, indexing="ij")

    if positions_mask is not None:
        r = r[positions_mask]
        c = c[positions_mask]

    positions = np.stack((r.ravel(), c.ravel()), axis=-1).astype(config.get("dtype_real"))

    if self.com_rotation_rad != 0:
        tf = AffineTransform(angle=self.com_rotation_rad)
        positions = tf(positions, origin=positions.mean(0))

    sampling = self.obj_sampling
    if self.com_transpose:
        positions = np.flip(positions, axis=1)
        sampling = sampling[::-1]

    # ensure positive
    m: np.ndarray = np.min(positions, axis=0).clip(-np.inf, 0)
    positions -= m

    # finally, switch to pixels
    positions[:, 0] /= sampling[0]
    positions[:, 1] /= sampling[1]

    # top-left padding
    positions[:, 0] += obj_padding_px[0]
    positions[:, 1] += obj_padding_px[1]

    self.scan_positions_px = positions
    self.initial_scan_positions_px = self.scan_positions_px.data.clone()
    return


def ORIG_set_patch_indices(self, obj_padding_px) -> None:
    """Set the _patch_indices based on self.scan_positions_px"""
    obj_shape = self._obj_shape_full_2d(obj_padding_px)
    r0 = torch.round(self.scan_positions_px[:, 0]).type(torch.int32)
    c0 = torch.round(self.scan_positions_px[:, 1]).type(torch.int32)

    x_ind = torch.fft.fftfreq(self.roi_shape[0], d=1 / self.roi_shape[0]).to(self.device)
    y_ind = torch.fft.fftfreq(self.roi_shape[1], d=1 / self.roi_shape[1]).to(self.device)

    # Process positions in chunks to reduce memory usage
    chunk_size = min(1000, len(r0))
    patch_indices_list = []

    for i in range(0, len(r0), chunk_size):
        end_idx = min(i + chunk_size, len(r0))
        r0_chunk = r0[i:end_idx]
        c0_chunk = c0[i:end_idx]

        row_chunk = (r0_chunk[:, None, None] + x_ind[None, :, None]) % obj_shape[-2]
        col_chunk = (c0_chunk[:, None, None] + y_ind[None, None, :]) % obj_shape[-1]

        patch_indices_chunk = (row_chunk * obj_shape[-1] + col_chunk).type(torch.int32)
        patch_indices_list.append(patch_indices_chunk)

    self._patch_indices = torch.cat(patch_indices_list, dim=0)
    self._last_patch_positions_px = self.scan_positions_px.clone()


def ORIG_probe_forward(self, fract_positions: torch.Tensor) -> torch.Tensor:
    shifted_probes = fourier_shift_expand(self.probe, fract_positions).swapaxes(0, 1)
    return shifted_probes


NEW_set_initial_scan_positions_px = PtychographyDatasetRaster._set_initial_scan_positions_px
NEW_set_patch_indices = dm.PtychographyDatasetBase._set_patch_indices
NEW_probe_forward = ProbePixelated.forward


# --------------------------------------------------------------------------------------------
# helpers
# --------------------------------------------------------------------------------------------
def quiet(f, *a, **k):
    with contextlib.redirect_stdout(io.StringIO()):
        return f(*a, **k)


def outcome(f, *a, **k):
    """('ok', None) or ('exc', type, message) -- used to compare exception behaviour too."""
    try:
        quiet(f, *a, **k)
        return ("ok",)
    except Exception as e:  # noqa: BLE001
        return ("exc", type(e).__name__, str(e))


def same_tensor(a: torch.Tensor, b: torch.Tensor, what: str):
    assert type(a) is type(b), (what, type(a), type(b))
    assert a.dtype == b.dtype, (what, a.dtype, b.dtype)
    assert a.shape == b.shape, (what, a.shape, b.shape)
    assert a.stride() == b.stride(), (what, a.stride(), b.stride())
    assert a.device == b.device, what
    assert a.requires_grad == b.requires_grad, what
    if a.is_complex():
        ra, rb = torch.view_as_real(a.detach().contiguous()), torch.view_as_real(
            b.detach().contiguous()
        )
    else:
        ra, rb = a.detach().contiguous(), b.detach().contiguous()
    # bit-for-bit (also distinguishes -0.0 / nan payloads)
    assert ra.numpy().tobytes() == rb.numpy().tobytes(), f"{what}: values differ"


def make_probe(roi, recip_sampling, q_probe, c10, norm, n_modes=1, seed=0):
    """Corner-origin aperture probe(s), complex128, total intensity sum|p|^2 == norm."""
    sampling = 1 / (np.array(roi) * np.array(recip_sampling))
    qr = np.fft.fftfreq(roi[0], sampling[0])
    qc = np.fft.fftfreq(roi[1], sampling[1])
    q = np.sqrt(qr[:, None] ** 2 + qc[None, :] ** 2)
    ap = np.sqrt(np.clip((q_probe - q) / np.mean(recip_sampling) + 0.5, 0, 1))
    chi = q**2 * WAVELENGTH * np.pi * c10
    base = np.fft.ifft2(ap * np.exp(-1j * chi))
    modes = [base]
    rng = np.random.default_rng(seed)
    kr = np.fft.fftfreq(roi[0])
    kc = np.fft.fftfreq(roi[1])
    for _ in range(1, n_modes):
        a, b = rng.random(2) - 0.5
        modes.append(
            0.3 * base * np.exp(-2j * np.pi * (a * 3 * kr[:, None] + b * 3 * kc[None, :]))
        )
    modes = np.stack(modes)
    modes *= np.sqrt(norm / np.sum(np.abs(modes) ** 2))
    return modes


def reference_obj_shape(gpts, scan_step, roi, recip_sampling, pad):
    """independent re-derivation of the object shape (no rotation)"""
    obj_sampling = 1 / (np.array(roi) * np.array(recip_sampling))
    fov = np.array(scan_step) * (np.array(gpts) - 1)
    shp = np.floor(fov / obj_sampling)
    shp += shp % 2
    shp = shp.astype(int)
    # the reconstruction object enlarges the padding until the shape is divisible by 2**3
    pad = np.array(pad, dtype=int)
    for ax in range(2):
        rem = (shp[ax] + 2 * pad[ax]) % 8
        if rem:
            pad[ax] += (8 - rem) // 2
    return shp + 2 * pad, obj_sampling, pad


def reference_simulate(obj, probes, gpts, scan_step, obj_sampling, pad, thicknesses):
    """Independent numpy (float64) multislice mixed-state forward model.
    obj: (S,H,W) complex transmission; probes: (M,R,C) corner-origin.
    Returns centred intensities (nr, nc, R, C)."""
    S, H, W = obj.shape
    M, R, C = probes.shape
    kr = np.fft.fftfreq(R)
    kc = np.fft.fftfreq(C)
    ir = np.fft.fftfreq(R, 1 / R).astype(int)
    ic = np.fft.fftfreq(C, 1 / C).astype(int)
    qr = np.fft.fftfreq(R, obj_sampling[0])
    qc = np.fft.fftfreq(C, obj_sampling[1])
    q2 = qr[:, None] ** 2 + qc[None, :] ** 2
    out = np.zeros((gpts[0], gpts[1], R, C))
    for a in range(gpts[0]):
        for b in range(gpts[1]):
            # float32 positions, as the library stores them
            pr = np.float32(np.float32(a * scan_step[0]) / np.float32(obj_sampling[0])) + pad[0]
            pc = np.float32(np.float32(b * scan_step[1]) / np.float32(obj_sampling[1])) + pad[1]
            r0, c0 = int(np.round(pr)), int(np.round(pc))
            fr, fc = float(pr) - r0, float(pc) - c0
            rows = (r0 + ir) % H
            cols = (c0 + ic) % W
            ramp = np.exp(-2j * np.pi * (kr[:, None] * fr + kc[None, :] * fc))
            inten = np.zeros((R, C))
            for m in range(M):
                wave = np.fft.ifft2(np.fft.fft2(probes[m]) * ramp)
                for s in range(S):
                    wave = wave * obj[s][rows[:, None], cols[None, :]]
                    if s < S - 1:
                        prop = np.exp(-1j * np.pi * WAVELENGTH * thicknesses[s] * q2)
                        wave = np.fft.ifft2(np.fft.fft2(wave) * prop)
                inten += np.abs(np.fft.fft2(wave, norm="ortho")) ** 2
            out[a, b] = np.fft.fftshift(inten)
    return out


def build(gpts, roi, scan_step, recip_sampling, pad, n_slices=1, n_modes=1, obj_type="complex",
          com_fit="no_shift", seed=0, data=None, thickness=20.0):
    """returns (ptycho, ground-truth dict).  If data is None the patterns are simulated with the
    independent reference model from a random unit-amplitude object."""
    rng = np.random.default_rng(seed)
    shape2d, obj_sampling, pad_eff = reference_obj_shape(
        gpts, scan_step, roi, recip_sampling, pad
    )
    phase = 0.4 * rng.standard_normal((n_slices, *shape2d))
    if obj_type == "potential":  # potentials are kept non-negative by the object model
        phase = np.abs(phase)
    obj = np.exp(1j * phase)
    probes = make_probe(roi, recip_sampling, q_probe=0.3 * roi[0] * recip_sampling[0], c10=60.0,
                        norm=5.0e3, n_modes=n_modes, seed=seed)
    thick = [thickness * (1 + 0.25 * s) for s in range(max(n_slices - 1, 1))]
    if data is None:
        data = reference_simulate(obj, probes, gpts, scan_step, obj_sampling, pad_eff, thick)
    d4 = Dataset4dstem.from_array(
        array=data.astype(np.float32),
        sampling=(scan_step[0], scan_step[1], recip_sampling[0], recip_sampling[1]),
        units=("A", "A", "A^-1", "A^-1"),
    )
    pdset = quiet(PtychographyDatasetRaster.from_dataset4dstem, d4, verbose=0)
    quiet(
        pdset.preprocess,
        com_fit_function=com_fit,
        plot_rotation=False,
        plot_com=False,
        probe_energy=ENERGY,
        force_com_rotation=0,
        force_com_transpose=False,
        obj_padding_px=pad,
    )
    slice_thick = None if n_slices == 1 else thick
    obj_model = ObjectPixelated.from_uniform(
        num_slices=n_slices, obj_type=obj_type, slice_thicknesses=slice_thick
    )
    probe_model = ProbePixelated.from_array(
        num_probes=n_modes,
        probe_params={"energy": ENERGY},
        probe_array=probes.astype(np.complex64),
    )
    ptycho = quiet(
        Ptychography.from_models,
        dset=pdset,
        obj_model=obj_model,
        probe_model=probe_model,
        detector_model=DetectorPixelated(),
        rng=1,
        verbose=0,
    )
    quiet(ptycho.preprocess, obj_padding_px=pad, plot_rotation=False, plot_com=False)
    assert np.array_equal(ptycho.obj_padding_px, pad_eff), (ptycho.obj_padding_px, pad_eff)
    return ptycho, dict(obj=obj, phase=phase, probes=probes, shape2d=shape2d)


def install_truth(ptycho, truth, obj_type="complex", dphase=None, probe_scale=None):
    ph = truth["phase"] if dphase is None else truth["phase"] + dphase
    with torch.no_grad():
        if obj_type == "potential":
            ptycho.obj_model._obj.data = torch.tensor(ph, dtype=torch.float32)
        else:
            ptycho.obj_model._obj.data = torch.tensor(np.exp(1j * ph), dtype=torch.complex64)
    prb = truth["probes"] if probe_scale is None else truth["probes"] * probe_scale
    ptycho.probe_model.constraints["orthogonalize_probe"] = False
    ptycho.probe_model.probe = prb.astype(np.complex64)  # public probe setter


def pipeline(ptycho, batch, loss_type):
    ptycho.dset._set_targets(loss_type)
    with torch.no_grad():
        patch_indices, pos, frac, descan = ptycho.dset.forward(batch, ptycho.obj_padding_px)
        # the scan must not have been clipped at the object edge (enough padding in every case)
        assert torch.equal(pos, ptycho.dset.initial_scan_positions_px[batch])
        shifted = ptycho.probe_model.forward(frac)
        patches = ptycho.obj_model.forward(patch_indices)
        _pp, overlap = ptycho.forward_operator(patches, shifted, descan)
        pred = ptycho.detector_model.forward(overlap)
        loss, _ = ptycho.error_estimate(pred, batch, loss_type=loss_type)
    return pred, loss


@contextlib.contextmanager
def originals():
    PtychographyDatasetRaster._set_initial_scan_positions_px = ORIG_set_initial_scan_positions_px
    dm.PtychographyDatasetBase._set_patch_indices = ORIG_set_patch_indices
    ProbePixelated.forward = ORIG_probe_forward
    try:
        yield
    finally:
        PtychographyDatasetRaster._set_initial_scan_positions_px = (
            NEW_set_initial_scan_positions_px
        )
        dm.PtychographyDatasetBase._set_patch_indices = NEW_set_patch_indices
        ProbePixelated.forward = NEW_probe_forward


# --------------------------------------------------------------------------------------------
# A1. _set_initial_scan_positions_px : old == new
# --------------------------------------------------------------------------------------------
def check_scan_positions():
    n = 0
    rng = np.random.default_rng(3)
    for gpts, roi, step, rs in [
        ((3, 5), (8, 6), (1.3, 0.7), (0.05, 0.08)),
        ((6, 4), (6, 8), (0.9, 2.1), (0.07, 0.04)),
        ((2, 7), (8, 8), (3.0, 1.0), (0.0625, 0.0625)),
        ((5, 2), (4, 6), (2.0, 4.5), (0.11, 0.09)),
    ]:
        data = rng.random((*gpts, *roi)) + 0.1
        ptycho, _ = build(gpts, roi, step, rs, (0, 0), data=data)
        ds = ptycho.dset
        masks = [None, np.ones(gpts, dtype=bool)]
        partial = np.ones(gpts, dtype=bool)
        partial.flat[0] = False
        masks.append(partial)  # wrong number of positions: must fail identically
        for rot in (0.0, np.deg2rad(17.0), -np.pi / 2, 2.5):
            for tr in (False, True):
                for pad in (None, (0, 0), (4, 6), np.array([3, 0])):
                    for mask in masks:
                        ds.com_rotation_rad = rot
                        ds.com_transpose = tr
                        o_new = outcome(NEW_set_initial_scan_positions_px, ds, pad, mask)
                        new = (
                            ds.scan_positions_px.detach().clone(),
                            ds.initial_scan_positions_px.clone(),
                        )
                        same_obj_new = ds.initial_scan_positions_px is ds.scan_positions_px.data
                        with torch.no_grad():
                            ds._scan_positions_px.data = torch.full_like(new[0], -7.0)
                        o_old = outcome(ORIG_set_initial_scan_positions_px, ds, pad, mask)
                        old = (
                            ds.scan_positions_px.detach().clone(),
                            ds.initial_scan_positions_px.clone(),
                        )
                        same_obj_old = ds.initial_scan_positions_px is ds.scan_positions_px.data
                        assert o_new == o_old, (o_new, o_old)
                        assert same_obj_new == same_obj_old
                        if o_new[0] == "ok":
                            same_tensor(new[0], old[0], "scan_positions_px")
                            same_tensor(new[1], old[1], "initial_scan_positions_px")
                            assert torch.isfinite(new[0]).all() and (new[0] >= 0).all()
                        n += 1
    return n


# --------------------------------------------------------------------------------------------
# A2. _set_patch_indices : old == new  (incl. > 1000 positions -> several chunks, wrap-around)
# --------------------------------------------------------------------------------------------
def check_patch_indices():
    n = 0
    rng = np.random.default_rng(5)
    for gpts, roi, step, rs in [
        ((4, 5), (8, 6), (1.3, 0.7), (0.05, 0.08)),
        ((41, 30), (4, 6), (0.6, 0.9), (0.12, 0.1)),  # 1230 positions -> 2 chunks
    ]:
        data = rng.random((*gpts, *roi)) + 0.1
        ptycho, _ = build(gpts, roi, step, rs, (0, 0), data=data)
        ds = ptycho.dset
        for pad in ((0, 0), (4, 6), np.array([2, 3])):
            shape = ds._obj_shape_full_2d(pad)
            base = ds.initial_scan_positions_px.clone()
            variants = [
                base,
                base + 0.5,  # exact halves: round-half-even
                base - 3.25,  # negative positions -> wrap
                base + torch.tensor(shape, dtype=base.dtype) - 0.75,  # beyond the far edge
                base + torch.tensor(rng.normal(0, 2, base.shape), dtype=base.dtype),
            ]
            for pos in variants:
                ds.scan_positions_px = pos.clone()
                NEW_set_patch_indices(ds, pad)
                new = (ds._patch_indices, ds._last_patch_positions_px)
                alias_new = new[1].data_ptr() == ds.scan_positions_px.data_ptr()
                ORIG_set_patch_indices(ds, pad)
                old = (ds._patch_indices, ds._last_patch_positions_px)
                alias_old = old[1].data_ptr() == ds.scan_positions_px.data_ptr()
                same_tensor(new[0], old[0], "patch_indices")
                same_tensor(new[1], old[1], "_last_patch_positions_px")
                assert new[0] is not old[0] and new[1] is not old[1]
                assert alias_new == alias_old is False
                assert (new[1].grad_fn is None) == (old[1].grad_fn is None)
                assert new[0].dtype == torch.int32
                assert int(new[0].min()) >= 0 and int(new[0].max()) < int(shape[0] * shape[1])
                # the snapshot must be the positions the indices were computed from
                assert torch.equal(new[1].detach(), pos)
                assert not ds.patch_indices_need_update()
                # in-place motion of the parameter must not move the snapshot
                with torch.no_grad():
                    ds._scan_positions_px.data += 1.0
                assert ds.patch_indices_need_update()
                assert torch.equal(ds._last_patch_positions_px.detach(), pos)
                n += 1
    return n


# --------------------------------------------------------------------------------------------
# A3. ProbePixelated.forward : old == new
# --------------------------------------------------------------------------------------------
def check_probe_forward():
    n = 0
    rng = np.random.default_rng(7)
    for roi in ((8, 6), (6, 8), (8, 8), (5, 7)):
        for n_modes in (1, 2, 3):
            probes = make_probe(roi, (0.05, 0.07), 0.12, 40.0, 100.0, n_modes=n_modes, seed=n)
            model = ProbePixelated.from_array(
                num_probes=n_modes,
                probe_params={"energy": ENERGY},
                probe_array=probes.astype(np.complex64),
            )
            for ortho in (True, False):
                model.constraints["orthogonalize_probe"] = ortho
                for batch in (1, 2, 5):
                    frac = torch.tensor(rng.random((batch, 2)) - 0.5, dtype=torch.float32)
                    new = NEW_probe_forward(model, frac)
                    old = ORIG_probe_forward(model, frac)
                    assert new.shape == (n_modes, batch, *roi)
                    same_tensor(new, old, "shifted probes")
                    assert new.is_contiguous() == old.is_contiguous()
                    assert (new.grad_fn is None) == (old.grad_fn is None)
                    # gradients through the view are identical as well
                    g_new = torch.autograd.grad(new.abs().square().sum(), model._probe)[0]
                    g_old = torch.autograd.grad(old.abs().square().sum(), model._probe)[0]
                    same_tensor(g_new, g_old, "probe gradient")
                    n += 1
    return n


# --------------------------------------------------------------------------------------------
# B + C. full pipeline: tree == originals (bitwise), and the property on simulated data
# --------------------------------------------------------------------------------------------
CASES = [
    # gpts, roi, scan_step, recip_sampling, pad, slices, modes, obj_type, com_fit
    ((4, 5), (8, 8), (4.3, 3.1), (0.0625, 0.0625), (2, 2), 1, 1, "complex", "no_shift"),
    ((5, 4), (8, 6), (2.9, 5.7), (0.05, 0.08), (4, 6), 1, 1, "complex", "no_shift"),
    ((4, 4), (6, 8), (3.1, 4.1), (0.07, 0.06), (2, 2), 2, 1, "pure_phase", "no_shift"),
    ((3, 5), (8, 8), (5.5, 2.8), (0.06, 0.06), (4, 4), 3, 2, "potential", "no_shift"),
    ((4, 3), (8, 6), (3.2, 4.4), (0.05, 0.07), (2, 3), 4, 3, "complex", "constant"),
]


def check_pipeline():
    n = 0
    for gpts, roi, step, rs, pad, S, M, otype, com_fit in CASES:
        results = {}
        for which in ("new", "orig"):
            ctx = originals() if which == "orig" else contextlib.nullcontext()
            with ctx:
                ptycho, truth = build(gpts, roi, step, rs, pad, n_slices=S, n_modes=M,
                                      obj_type=otype, com_fit=com_fit, seed=11 + n)
                assert tuple(ptycho.obj_shape_full) == (S, *truth["shape2d"]), (
                    ptycho.obj_shape_full, truth["shape2d"])
                num = int(np.prod(gpts))
                batches = [np.arange(num), np.arange(0, num, 2), np.array([num - 1, 0, 3])]
                out = []
                for loss_type in ("l2_amplitude", "l1_amplitude", "l2_intensity", "l1_intensity"):
                    for batch in batches:
                        install_truth(ptycho, truth, otype)
                        pred, loss = pipeline(ptycho, batch, loss_type)
                        rng = np.random.default_rng(2)
                        install_truth(ptycho, truth, otype,
                                      dphase=0.3 * rng.standard_normal(truth["phase"].shape))
                        _, loss_obj = pipeline(ptycho, batch, loss_type)
                        install_truth(ptycho, truth, otype, probe_scale=np.exp(
                            0.5j * rng.standard_normal(truth["probes"].shape)))
                        _, loss_prb = pipeline(ptycho, batch, loss_type)
                        out.append((loss_type, len(batch), pred, loss, loss_obj, loss_prb))
                results[which] = (out, ptycho.dset.patch_indices.clone(),
                                  ptycho.dset.scan_positions_px.detach().clone())
        # B: bit-identical to the original implementation
        same_tensor(results["new"][1], results["orig"][1], "pipeline patch_indices")
        same_tensor(results["new"][2], results["orig"][2], "pipeline scan positions")
        for a, b in zip(results["new"][0], results["orig"][0]):
            assert a[:2] == b[:2]
            same_tensor(a[2], b[2], "pred intensities")
            for i in (3, 4, 5):
                same_tensor(a[i], b[i], "loss")
        # C: the property (constant descan only for the bitwise comparison: a fitted constant
        # CoM is not exactly the geometric centre, so the zero-loss claim is asserted for no_shift)
        for loss_type, nb, pred, loss, loss_obj, loss_prb in results["new"][0]:
            loss, loss_obj, loss_prb = float(loss), float(loss_obj), float(loss_prb)
            if com_fit == "no_shift":
                tol = 2e-5 if "amplitude" in loss_type else 2e-3 if "l1" in loss_type else 2e-2
                assert loss < tol, (gpts, roi, S, M, otype, loss_type, nb, loss)
                assert loss_obj > 50 * max(loss, 1e-7), (loss_type, loss, loss_obj)
                assert loss_prb > 50 * max(loss, 1e-7), (loss_type, loss, loss_prb)
            n += 1
    return n


if __name__ == "__main__":
    torch.manual_seed(0)
    torch.set_num_threads(1)  # tiny tensors: thread hand-off costs more than it saves
    n1 = check_scan_positions()
    print(f"_set_initial_scan_positions_px: {n1} configurations identical to the original")
    n2 = check_patch_indices()
    print(f"_set_patch_indices: {n2} configurations identical to the original")
    n3 = check_probe_forward()
    print(f"ProbePixelated.forward: {n3} configurations identical to the original")
    n4 = check_pipeline()
    print(f"forward pipeline: {n4} (case, loss, batch) combinations bit-identical; property holds")
    _tmp.cleanup()
    print("OK")
