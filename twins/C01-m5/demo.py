"""C01 demo: serializer round-trip fidelity + old-vs-new differential checks.

Run as:  PYTHONPATH=<root>/src /venv/bin/python demo.py

Part A asserts the property itself (save -> load gives a structurally equal object graph, for
both stores, all compression levels, str/Path targets, both write modes; re-save is a fixed point).

Part B embeds VERBATIM copies (only dedented and renamed ORIG_<name>) of the five functions of
src/quantem/core/io/serialize.py that the behaviour-preserving patches touch, taken from the
unmodified tree, and asserts that the function in the tree under test produces bit-identical
results (identical on-disk trees for the writers, strictly identical object graphs for the readers).

Exits 0 on success, raises AssertionError otherwise.  CPU only, writes only inside a
tempfile.TemporaryDirectory.
"""
import contextlib
import gzip
import io
import logging
import os
import sys
import tempfile
import time
from pathlib import Path
from unittest import mock
from typing import AbstractSet, Any, Literal, Sequence, Union, cast

import dill
import numpy as np
import torch
import zarr
from zarr.storage import LocalStore

from quantem.core.io.serialize import AutoSerialize, load

T0 = time.perf_counter()

# --------------------------------------------------------------------------------------
# ORIGINAL functions (verbatim from the unmodified tree; dedented, renamed ORIG_<name>)
# --------------------------------------------------------------------------------------
def ORIG__write_ndarray(
    group: zarr.Group,
    name: str,
    array: np.ndarray,
    compressors=None,
) -> None:
    # Ensure array is a numpy array
    if not isinstance(array, np.ndarray):
        array = np.asarray(array)

    # Handle scalar arrays (0-dimensional) properly
    if array.ndim == 0:
        ds = group.create_array(
            name=name, shape=(), dtype=array.dtype, compressors=compressors
        )
        ds[()] = array.item()  # Use () for scalar indexing
    else:
        # Handle empty arrays (any dimension of size 0)
        if any(s == 0 for s in array.shape):
            # For empty arrays, create a 0-dimensional array instead of (0,)
            # This avoids indexing issues during loading
            ds = group.create_array(
                name=name, shape=(), dtype=array.dtype, compressors=compressors
            )
            # Store the original shape as an attribute for reconstruction
            ds.attrs["_original_shape"] = array.shape
            # No need to assign data since it's empty
            return
        # Ensure the shape is valid (no negative dimensions)
        if any(s < 0 for s in array.shape):
            raise ValueError(f"Invalid array shape {array.shape} for array '{name}'")
        ds = group.create_array(
            name=name, shape=array.shape, dtype=array.dtype, compressors=compressors
        )
        ds[:] = array


def ORIG__serialize_value(
    self,
    value: Any,
    group: zarr.Group,
    name: str,
    skip_names: set[str] = set(),
    skip_types: tuple[type, ...] = (),
    compressors=None,
) -> None:
    """
    Unified method to serialize any value type to a Zarr group.
    This eliminates duplication between _recursive_save and _serialize_container.
    """
    # --- Serialization handlers by type ---
    if isinstance(value, torch.Tensor):
        # Save entire tensor with torch.save to preserve requires_grad, grad_fn, etc.
        # This is more robust than converting to numpy which loses gradient information
        subgroup = group.require_group(name)
        subgroup.attrs["_torch_tensor"] = True
        subgroup.attrs["_tensor_shape"] = list(value.shape)
        subgroup.attrs["_tensor_dtype"] = str(value.dtype)
        subgroup.attrs["_tensor_device"] = str(value.device)
        subgroup.attrs["_tensor_requires_grad"] = bool(value.requires_grad)

        buffer = io.BytesIO()
        torch.save(value, buffer)
        buffer.seek(0)
        byte_arr = np.frombuffer(buffer.read(), dtype="uint8")
        self._write_bytes(subgroup, "tensor", byte_arr.tobytes(), compressors=None)

    elif isinstance(value, torch.optim.Optimizer):
        # Save entire optimizer with torch.save for robustness
        subgroup = group.require_group(name)
        subgroup.attrs["_torch_optimizer"] = True
        subgroup.attrs["class_name"] = value.__class__.__name__

        buffer = io.BytesIO()
        torch.save(value, buffer)
        buffer.seek(0)
        byte_arr = np.frombuffer(buffer.read(), dtype="uint8")
        self._write_bytes(subgroup, "optimizer", byte_arr.tobytes(), compressors=None)

    elif hasattr(value, "step") and hasattr(value, "get_last_lr"):
        # Handle LR schedulers with torch.save for robustness
        subgroup = group.require_group(name)
        subgroup.attrs["_torch_scheduler"] = True
        subgroup.attrs["class_name"] = value.__class__.__name__

        buffer = io.BytesIO()
        torch.save(value, buffer)
        buffer.seek(0)
        byte_arr = np.frombuffer(buffer.read(), dtype="uint8")
        self._write_bytes(subgroup, "scheduler", byte_arr.tobytes(), compressors=None)

    elif hasattr(value, "add_scalar") and hasattr(value, "add_image"):
        # Handle PyTorch loggers (SummaryWriter, etc.) - save basic info only
        subgroup = group.require_group(name)
        subgroup.attrs["_torch_logger"] = True
        subgroup.attrs["class_name"] = value.__class__.__name__

        # Store basic logger information that can be reconstructed
        if hasattr(value, "log_dir"):
            subgroup.attrs["log_dir"] = str(value.log_dir)
        if hasattr(value, "comment"):
            subgroup.attrs["comment"] = str(value.comment) if value.comment else ""
        if hasattr(value, "max_queue"):
            subgroup.attrs["max_queue"] = int(value.max_queue)
        if hasattr(value, "flush_secs"):
            subgroup.attrs["flush_secs"] = int(value.flush_secs)
        if hasattr(value, "filename_suffix"):
            subgroup.attrs["filename_suffix"] = (
                str(value.filename_suffix) if value.filename_suffix else ""
            )
    elif hasattr(value, "log") and hasattr(value, "info"):
        # Handle other logging objects (like Python's logging.Logger)
        subgroup = group.require_group(name)
        subgroup.attrs["_python_logger"] = True
        subgroup.attrs["class_name"] = value.__class__.__name__

        # Store logger name and level if available
        if hasattr(value, "name"):
            subgroup.attrs["logger_name"] = str(value.name)
        if hasattr(value, "level"):
            subgroup.attrs["logger_level"] = int(value.level)

    elif isinstance(value, torch.nn.Module) or (
        hasattr(value, "__module__") and ("torch" in str(value.__module__))
    ):
        # Save entire torch module with torch.save for robustness
        subgroup = group.require_group(name)
        subgroup.attrs["_torch_whole_module"] = True
        buffer = io.BytesIO()
        torch.save(value, buffer)
        buffer.seek(0)
        byte_arr = np.frombuffer(buffer.read(), dtype="uint8")
        self._write_bytes(subgroup, "module", byte_arr.tobytes(), compressors=None)

    elif isinstance(value, np.ndarray):
        # Save as native array
        if name not in group:
            self._write_ndarray(group, name, value, compressors)

    elif isinstance(value, (int, float, str, bool, type(None))):
        # Scalars saved as attributes
        group.attrs[name] = value
    elif hasattr(value, "dtype") and hasattr(value, "item"):
        # Handle numpy scalar types (np.float32, np.int64, etc.)
        group.attrs[name] = value.item()
    elif hasattr(value, "__fspath__") or str(type(value)).startswith("<class 'pathlib."):
        # Handle pathlib.Path objects and other path-like objects
        group.attrs[name] = str(value)
        group.attrs[f"{name}.is_path"] = True

    elif self._is_autoserialize_instance(value):
        # Nested AutoSerialize subtree
        subgroup = group.require_group(name)
        self._recursive_save(value, subgroup, skip_names, skip_types, compressors)

    elif isinstance(value, (list, tuple, dict)):
        # Save containers recursively (with nested AutoSerialize support)
        subgroup = group.require_group(name)
        self._serialize_container(value, subgroup, skip_names, skip_types, compressors)

    elif isinstance(value, set):
        # Convert set to list for serialization, store type info
        subgroup = group.require_group(name)
        # Convert set items to list and serialize
        list_value = list(value)
        self._serialize_container(list_value, subgroup, skip_names, skip_types, compressors)
        # Tag after the list has been written: _serialize_container tags the group as "list"
        subgroup.attrs["_container_type"] = "set"

    elif hasattr(value, "bit_generator"):
        # NumPy random generator - save state through bit_generator
        subgroup = group.require_group(name)
        subgroup.attrs["_numpy_rng"] = True
        # Get state from the bit_generator
        rng_state = value.bit_generator.state
        if hasattr(rng_state, "tolist"):
            subgroup.attrs["_rng_state"] = rng_state.tolist()
        else:
            subgroup.attrs["_rng_state"] = rng_state
        subgroup.attrs["_rng_type"] = value.__class__.__name__
        subgroup.attrs["_bit_generator_type"] = value.bit_generator.__class__.__name__

    elif hasattr(value, "get_state") and hasattr(value, "set_state"):
        # PyTorch generator - skip for now as state structure is complex
        # Just store a marker that this was a generator
        subgroup = group.require_group(name)
        subgroup.attrs["_torch_rng_skipped"] = True
        subgroup.attrs["_rng_type"] = "torch.Generator"
        # Don't try to save the state - it's not essential for core functionality

    else:
        # Fallback: dill-serialize + gzip-compress
        print(f"falling back in serialize for {name} of type {type(value)}")
        serialized = dill.dumps(value)
        compressed = gzip.compress(serialized)
        self._write_bytes(group, name, compressed, compressors)


def ORIG__serialize_container(
    self,
    value: Union[list, tuple, dict],
    group: zarr.Group,
    skip_names: set[str] = set(),
    skip_types: tuple[type, ...] = (),
    compressors=None,
) -> None:
    """
    Serialize Python containers (list, tuple, dict) to Zarr groups.

    Handles nested containers, AutoSerialize instances, PyTorch objects, and primitives,
    with recursive support for arbitrary depth and skipping.
    """

    # Special handling for torch.nn containers: flatten to list and record type
    if isinstance(value, (torch.nn.ModuleList, torch.nn.Sequential, torch.nn.ParameterList)):
        group.attrs["_torch_iterable_module_type"] = type(value).__name__
        value = list(value)

    # Handle list/tuple containers
    if isinstance(value, (list, tuple)):
        group.attrs["_container_type"] = type(value).__name__
        # Fast-path: homogeneous numeric scalars → single ndarray
        try:
            is_all_numeric = len(value) > 0 and all(
                AutoSerialize._is_numeric_scalar(v) for v in value
            )
        except TypeError:
            # If value isn't sized/iterable like expected, fall back
            is_all_numeric = False

        if is_all_numeric:
            group.attrs["_sequence_encoding"] = "ndarray"
            arr = np.asarray(value)
            # Store in a single dataset named 'values'
            self._write_ndarray(group, "values", arr, compressors)
        else:
            for i, v in enumerate(value):
                key = str(i)
                # Use unified serialization method
                self._serialize_value(v, group, key, skip_names, skip_types, compressors)

    # Handle dict containers
    elif isinstance(value, dict):
        group.attrs["_container_type"] = "dict"
        for k, v in value.items():
            key = str(k)
            # Use unified serialization method
            self._serialize_value(v, group, key, skip_names, skip_types, compressors)


def ORIG__deserialize_container(cls, group: zarr.Group):
    """
    Reconstructs a list, tuple, or dict container from a Zarr group.

    Supports nested containers, torch module containers, and automatic conversion
    of torch tensors and special objects. Container structure and type info are
    encoded in Zarr group attributes.
    """
    ctype = group.attrs.get("_container_type")
    if ctype is None:
        raise ValueError(f"Missing _container_type in group: {group.path}")

    torch_iterable_type = group.attrs.get("_torch_iterable_module_type")

    # Helper to handle optional torch tensor restoration
    def maybe_tensor(group, key):
        arr = AutoSerialize._read_array_np(group, key)
        return torch.from_numpy(arr) if group.attrs.get(f"{key}.torch_save") else arr

    if ctype in ("list", "tuple"):
        # Determine maximum index to reconstruct order and size
        # Fast-path: ndarray-encoded homogeneous sequence
        if (
            group.attrs.get("_sequence_encoding") == "ndarray"
            and "values" in group.array_keys()
        ):
            arr = AutoSerialize._read_array_np(group, "values")
            seq = arr.tolist()
            items = seq
        else:
            length = (
                max(
                    (
                        int(k)
                        for k in list(group.attrs)
                        + list(group.array_keys())
                        + list(group.group_keys())
                        if k.isdigit()
                    ),
                    default=-1,
                )
                + 1
            )
            items = []
            for i in range(length):
                key = str(i)
                if key in group.attrs:
                    val = group.attrs[key]
                    # Convert string paths back to Path objects if needed
                    val = cls._convert_string_to_path_if_needed(val, group, key)
                    items.append(val)
                elif key in group.array_keys():
                    items.append(maybe_tensor(group, key))
                elif key in group.group_keys():
                    subgroup = cast(zarr.Group, group[key])
                    # Handle recursive containers
                    if "_container_type" in subgroup.attrs:
                        items.append(cls._deserialize_container(subgroup))
                    # Restore nested AutoSerialize objects
                    elif "_autoserialize" in subgroup.attrs:
                        meta = cast(dict[str, Any], subgroup.attrs["_autoserialize"])
                        submod = __import__(
                            cast(str, meta["class_module"]),
                            fromlist=[cast(str, meta["class_name"])],
                        )
                        subcls = getattr(submod, cast(str, meta["class_name"]))
                        items.append(subcls._recursive_load(subgroup))
                    # Restore nested torch modules
                    elif subgroup.attrs.get("_torch_whole_module"):
                        module_arr = cast(zarr.Array, subgroup["module"])
                        data = cast(np.ndarray, module_arr[:]).tobytes()
                        buf = io.BytesIO(data)
                        # For containers, load to CPU - they'll be moved to the right device when attached to the main object
                        mod = torch.load(buf, map_location="cpu", weights_only=False)
                        items.append(mod)
                    elif subgroup.attrs.get("_torch_tensor"):
                        # Handle new tensor format in containers
                        data = AutoSerialize._read_array_np(subgroup, "tensor").tobytes()
                        buf = io.BytesIO(data)
                        tensor = torch.load(buf, map_location="cpu", weights_only=False)
                        items.append(tensor)
                    elif subgroup.attrs.get("_torch_logger"):
                        # Handle torch logger in containers
                        logger_class_name = subgroup.attrs.get("class_name", "SummaryWriter")

                        if logger_class_name == "SummaryWriter":
                            from torch.utils.tensorboard import SummaryWriter

                            log_dir = subgroup.attrs.get("log_dir", None)
                            comment = str(cast(Any, subgroup.attrs.get("comment", "")))
                            max_queue = int(cast(Any, subgroup.attrs.get("max_queue", 10)))
                            flush_secs = int(cast(Any, subgroup.attrs.get("flush_secs", 120)))
                            filename_suffix = str(
                                cast(Any, subgroup.attrs.get("filename_suffix", ""))
                            )

                            logger = SummaryWriter(
                                log_dir=log_dir,
                                comment=comment,
                                max_queue=max_queue,
                                flush_secs=flush_secs,
                                filename_suffix=filename_suffix,
                            )
                            items.append(logger)
                        else:
                            # Skip unknown logger types in containers
                            continue
                    elif subgroup.attrs.get("_python_logger"):
                        # Handle Python logger in containers
                        logger_class_name = subgroup.attrs.get("class_name", "Logger")

                        if logger_class_name == "Logger":
                            import logging

                            logger_name = cast(
                                str, subgroup.attrs.get("logger_name", "quantem")
                            )
                            logger_level = int(
                                cast(Any, subgroup.attrs.get("logger_level", logging.INFO))
                            )

                            logger = logging.getLogger(logger_name)
                            logger.setLevel(logger_level)
                            items.append(logger)
                        else:
                            # Skip unknown logger types in containers
                            continue
                    else:
                        raise ValueError(
                            f"Unknown group structure at key '{key}' in {group.path}"
                        )
                else:
                    raise KeyError(f"Missing expected key '{key}' in container")
        # Restore container type and special torch containers
        seq_result = items if ctype == "list" else tuple(items)
        if torch_iterable_type == "Sequential":
            return torch.nn.Sequential(*seq_result)
        elif torch_iterable_type == "ModuleList":
            return torch.nn.ModuleList(cast(Sequence[torch.nn.Module], list(seq_result)))
        elif torch_iterable_type == "ParameterList":
            return torch.nn.ParameterList(cast(Sequence[torch.nn.Parameter], list(seq_result)))
        else:
            return seq_result

    elif ctype == "set":
        # Fast-path: the items were written as a homogeneous numeric sequence
        if (
            group.attrs.get("_sequence_encoding") == "ndarray"
            and "values" in group.array_keys()
        ):
            return set(AutoSerialize._read_array_np(group, "values").tolist())
        # Convert back from list to set
        items = []
        for i in range(
            max(
                (
                    int(k)
                    for k in list(group.attrs)
                    + list(group.array_keys())
                    + list(group.group_keys())
                    if k.isdigit()
                ),
                default=-1,
            )
            + 1
        ):
            key = str(i)
            if key in group.attrs:
                val = group.attrs[key]
                # Convert string paths back to Path objects if needed
                val = cls._convert_string_to_path_if_needed(val, group, key)
                items.append(val)
            elif key in group.array_keys():
                items.append(maybe_tensor(group, key))
            elif key in group.group_keys():
                subgroup = cast(zarr.Group, group[key])
                # Handle recursive containers
                if "_container_type" in subgroup.attrs:
                    items.append(cls._deserialize_container(subgroup))
                # Restore nested AutoSerialize objects
                elif "_autoserialize" in subgroup.attrs:
                    meta = cast(dict[str, Any], subgroup.attrs["_autoserialize"])
                    submod = __import__(
                        cast(str, meta["class_module"]),
                        fromlist=[cast(str, meta["class_name"])],
                    )
                    subcls = getattr(submod, cast(str, meta["class_name"]))
                    items.append(subcls._recursive_load(subgroup))
                # Restore nested torch modules
                elif subgroup.attrs.get("_torch_whole_module"):
                    module_arr = cast(zarr.Array, subgroup["module"])
                    data = cast(np.ndarray, module_arr[:]).tobytes()
                    buf = io.BytesIO(data)
                    # For containers, load to CPU - they'll be moved to the right device when attached to the main object
                    mod = torch.load(buf, map_location="cpu", weights_only=False)
                    items.append(mod)
                elif subgroup.attrs.get("_torch_tensor"):
                    # Handle new tensor format in containers
                    data = AutoSerialize._read_array_np(subgroup, "tensor").tobytes()
                    buf = io.BytesIO(data)
                    tensor = torch.load(buf, map_location="cpu", weights_only=False)
                    items.append(tensor)
                elif subgroup.attrs.get("_torch_logger"):
                    # Handle torch logger in containers
                    logger_class_name = subgroup.attrs.get("class_name", "SummaryWriter")

                    if logger_class_name == "SummaryWriter":
                        from torch.utils.tensorboard import SummaryWriter

                        log_dir = subgroup.attrs.get("log_dir", None)
                        comment = str(cast(Any, subgroup.attrs.get("comment", "")))
                        max_queue = int(cast(Any, subgroup.attrs.get("max_queue", 10)))
                        flush_secs = int(cast(Any, subgroup.attrs.get("flush_secs", 120)))
                        filename_suffix = str(
                            cast(Any, subgroup.attrs.get("filename_suffix", ""))
                        )

                        logger = SummaryWriter(
                            log_dir=log_dir,
                            comment=comment,
                            max_queue=max_queue,
                            flush_secs=flush_secs,
                            filename_suffix=filename_suffix,
                        )
                        items.append(logger)
                    else:
                        # Skip unknown logger types in containers
                        continue
                elif subgroup.attrs.get("_python_logger"):
                    # Handle Python logger in containers
                    logger_class_name = subgroup.attrs.get("class_name", "Logger")

                    if logger_class_name == "Logger":
                        import logging

                        logger_name = cast(str, subgroup.attrs.get("logger_name", "quantem"))
                        logger_level = int(
                            cast(Any, subgroup.attrs.get("logger_level", logging.INFO))
                        )

                        logger = logging.getLogger(logger_name)
                        logger.setLevel(logger_level)
                        items.append(logger)
                    else:
                        # Skip unknown logger types in containers
                        continue
                else:
                    raise ValueError(f"Unknown group structure at key '{key}' in {group.path}")
            else:
                raise KeyError(f"Missing expected key '{key}' in container")
        return set(items)

    elif ctype == "dict":
        result: dict[str, Any] = {}
        # Restore scalars and simple objects stored as attributes
        for key in group.attrs:
            if (
                key == "_container_type"
                or key.endswith(".torch_save")
                or key.endswith(".is_path")
            ):
                continue
            val = group.attrs[key]
            # Convert string paths back to Path objects if needed
            val = cls._convert_string_to_path_if_needed(val, group, key)
            result[key] = val
        # Restore arrays (including torch tensors)
        for key in group.array_keys():
            result[key] = maybe_tensor(group, key)
        # Restore subgroups
        for key in group.group_keys():
            subgroup = cast(zarr.Group, group[key])
            if "_container_type" in subgroup.attrs:
                result[key] = cls._deserialize_container(subgroup)
            elif "_autoserialize" in subgroup.attrs:
                meta = cast(dict[str, Any], subgroup.attrs["_autoserialize"])
                submod = __import__(
                    cast(str, meta["class_module"]), fromlist=[cast(str, meta["class_name"])]
                )
                subcls = getattr(submod, cast(str, meta["class_name"]))
                result[key] = subcls._recursive_load(subgroup)
            elif subgroup.attrs.get("_torch_whole_module"):
                module_arr = cast(zarr.Array, subgroup["module"])
                data = cast(np.ndarray, module_arr[:]).tobytes()
                buf = io.BytesIO(data)
                # For containers, load to CPU - they'll be moved to the right device when attached to the main object
                mod = torch.load(buf, map_location="cpu", weights_only=False)
                result[key] = mod
            elif subgroup.attrs.get("_torch_tensor"):
                # Handle new tensor format in containers
                data = AutoSerialize._read_array_np(subgroup, "tensor").tobytes()
                buf = io.BytesIO(data)
                tensor = torch.load(buf, map_location="cpu", weights_only=False)
                result[key] = tensor
            elif subgroup.attrs.get("_torch_logger"):
                # Handle torch logger in containers
                logger_class_name = subgroup.attrs.get("class_name", "SummaryWriter")

                if logger_class_name == "SummaryWriter":
                    from torch.utils.tensorboard import SummaryWriter

                    log_dir = subgroup.attrs.get("log_dir", None)
                    comment = str(cast(Any, subgroup.attrs.get("comment", "")))
                    max_queue = int(cast(Any, subgroup.attrs.get("max_queue", 10)))
                    flush_secs = int(cast(Any, subgroup.attrs.get("flush_secs", 120)))
                    filename_suffix = str(cast(Any, subgroup.attrs.get("filename_suffix", "")))

                    logger = SummaryWriter(
                        log_dir=log_dir,
                        comment=comment,
                        max_queue=max_queue,
                        flush_secs=flush_secs,
                        filename_suffix=filename_suffix,
                    )
                    result[key] = logger
                else:
                    # Skip unknown logger types in containers
                    continue
            elif subgroup.attrs.get("_python_logger"):
                # Handle Python logger in containers
                logger_class_name = subgroup.attrs.get("class_name", "Logger")

                if logger_class_name == "Logger":
                    import logging

                    logger_name = cast(str, subgroup.attrs.get("logger_name", "quantem"))
                    logger_level = int(
                        cast(Any, subgroup.attrs.get("logger_level", logging.INFO))
                    )

                    logger = logging.getLogger(logger_name)
                    logger.setLevel(logger_level)
                    result[key] = logger
                else:
                    # Skip unknown logger types in containers
                    continue
            else:
                raise ValueError(f"Unknown group structure at key '{key}' in {group.path}")

        return result

    else:
        raise ValueError(f"Unknown container type: {ctype}")


def ORIG__recursive_load(
    cls,
    group: zarr.Group,
    skip_names: AbstractSet[str] = frozenset(),
    skip_types: tuple[type, ...] = (),
) -> object:
    """
    Recursively reconstruct an AutoSerialize object from a Zarr group,
    honoring attribute/type skipping for selective deserialization.
    """
    # --- Load class identity and ensure version is compatible ---
    meta = cast(dict[str, Any], group.attrs["_autoserialize"])
    version = int(meta.get("version", 1))
    if version != 1:
        raise ValueError(f"Unsupported AutoSerialize version: {version}")
    module_name = cast(str, meta["class_module"])
    class_name = cast(str, meta["class_name"])
    module = __import__(module_name, fromlist=[class_name])
    cls_obj = getattr(module, class_name)
    obj = cls_obj.__new__(cls_obj)  # Avoid __init__ side effects

    # If attrs package is used, only allow whitelisted attribute names
    attrs_fields = getattr(cls_obj, "__attrs_attrs__", None)
    if attrs_fields is not None:
        attrs_item_names = [f.name for f in attrs_fields]
    else:
        attrs_item_names = []

    set_attrs = set()

    # --- Restore simple attributes ---
    for name, val in group.attrs.items():
        if (
            name in ("_autoserialize", "_autoserialize_skip_names", "_autoserialize_skip_types")
            or name.endswith(".torch_save")
            or name.endswith(".is_path")
        ):
            continue  # Skip metadata/flags
        if name in skip_names:
            continue
        if attrs_item_names and name not in attrs_item_names:
            continue

        # Convert string paths back to pathlib.Path objects if needed
        val = cls._convert_string_to_path_if_needed(val, group, name)

        setattr(obj, name, val)
        set_attrs.add(name)

    # --- Restore datasets (arrays/tensors/serialized objects) ---
    for ds in group.array_keys():
        if ds in skip_names:
            continue
        arr_np = AutoSerialize._read_array_np(group, ds)
        try:
            payload = gzip.decompress(arr_np.tobytes())
            v = dill.loads(payload)
        except Exception:
            v = arr_np
            if group.attrs.get(f"{ds}.torch_save", False):
                v = torch.from_numpy(v)
        if type(v) in skip_types:
            continue
        setattr(obj, ds, v)
        set_attrs.add(ds)

    # --- Restore subgroups (optimizers, modules, nested objects, containers) ---
    for name in group.group_keys():
        if name in skip_names:
            continue
        subgrp = AutoSerialize._get_group(group, name)

        # torch tensor group
        if subgrp.attrs.get("_torch_tensor"):
            data = AutoSerialize._read_array_np(subgrp, "tensor").tobytes()
            buf = io.BytesIO(data)
            tensor = torch.load(buf, map_location="cpu", weights_only=False)
            if type(tensor) in skip_types:
                continue
            setattr(obj, name, tensor)
            set_attrs.add(name)

        # torch optimizer group
        elif subgrp.attrs.get("_torch_optimizer"):
            data = AutoSerialize._read_array_np(subgrp, "optimizer").tobytes()
            buf = io.BytesIO(data)
            opt = torch.load(buf, map_location="cpu", weights_only=False)
            if type(opt) in skip_types:
                continue

            setattr(obj, name, opt)
            set_attrs.add(name)

        # torch scheduler group
        elif subgrp.attrs.get("_torch_scheduler"):
            data = AutoSerialize._read_array_np(subgrp, "scheduler").tobytes()
            buf = io.BytesIO(data)
            scheduler = torch.load(buf, map_location="cpu", weights_only=False)
            if type(scheduler) in skip_types:
                continue
            setattr(obj, name, scheduler)
            set_attrs.add(name)

        # torch logger group
        elif subgrp.attrs.get("_torch_logger"):
            # Recreate logger from saved metadata
            logger_class_name = subgrp.attrs.get("class_name", "SummaryWriter")

            if logger_class_name == "SummaryWriter":
                from torch.utils.tensorboard import SummaryWriter

                # Extract logger parameters with explicit type casting
                log_dir = subgrp.attrs.get("log_dir", None)

                comment = str(cast(Any, subgrp.attrs.get("comment", "")))
                max_queue = int(cast(Any, subgrp.attrs.get("max_queue", 10)))
                flush_secs = int(cast(Any, subgrp.attrs.get("flush_secs", 120)))
                filename_suffix = str(cast(Any, subgrp.attrs.get("filename_suffix", "")))

                # Create new logger instance
                logger = SummaryWriter(
                    log_dir=log_dir,
                    comment=comment,
                    max_queue=max_queue,
                    flush_secs=flush_secs,
                    filename_suffix=filename_suffix,
                )
            else:
                # For other logger types, create a basic instance or skip
                print(
                    f"Warning: Unknown logger type '{logger_class_name}', skipping logger restoration"
                )
                continue

            if type(logger) in skip_types:
                continue
            setattr(obj, name, logger)
            set_attrs.add(name)

        # python logger group
        elif subgrp.attrs.get("_python_logger"):
            # Recreate Python logger from saved metadata
            logger_class_name = subgrp.attrs.get("class_name", "Logger")

            if logger_class_name == "Logger":
                import logging

                # Extract logger parameters
                logger_name = cast(str, subgrp.attrs.get("logger_name", "quantem"))
                logger_level = int(cast(Any, subgrp.attrs.get("logger_level", logging.INFO)))

                # Create new logger instance
                logger = logging.getLogger(logger_name)
                logger.setLevel(logger_level)
            else:
                # For other logger types, create a basic instance or skip
                print(
                    f"Warning: Unknown Python logger type '{logger_class_name}', skipping logger restoration"
                )
                continue

            if type(logger) in skip_types:
                continue
            setattr(obj, name, logger)
            set_attrs.add(name)

        # torch module group
        elif subgrp.attrs.get("_torch_whole_module"):
            data = AutoSerialize._read_array_np(subgrp, "module").tobytes()
            buf = io.BytesIO(data)
            mod = torch.load(buf, map_location="cpu", weights_only=False)
            if type(mod) in skip_types:
                continue

            # Fix PyTorch module set attributes that might be corrupted
            if isinstance(mod, torch.nn.Module):
                cls._fix_torch_module_sets(mod)

            setattr(obj, name, mod)
            set_attrs.add(name)

        # nested AutoSerialize group
        elif "_autoserialize" in subgrp.attrs:
            m = cast(dict[str, Any], subgrp.attrs["_autoserialize"])
            submod_name = cast(str, m["class_module"])
            subcls_name = cast(str, m["class_name"])
            submod = __import__(submod_name, fromlist=[subcls_name])
            subcls = getattr(submod, subcls_name)
            if subcls in skip_types:
                continue
            val = subcls._recursive_load(subgrp, skip_names, skip_types)
            if type(val) in skip_types:
                continue

            setattr(obj, name, val)
            set_attrs.add(name)

        # containers (list, tuple, dict)
        elif subgrp.attrs.get("_container_type", None) is not None:
            val = cls._deserialize_container(cast(zarr.Group, subgrp))
            if type(val) in skip_types:
                continue
            setattr(obj, name, val)
            set_attrs.add(name)

        # NumPy random generator
        elif subgrp.attrs.get("_numpy_rng"):
            import numpy.random as npr

            # rng_type = subgrp.attrs.get("_rng_type", "Generator")
            bit_generator_type = subgrp.attrs.get("_bit_generator_type", "PCG64")
            # rng_state = subgrp.attrs["_rng_state"]

            # Create the appropriate bit generator
            if bit_generator_type == "PCG64":
                bit_gen = npr.PCG64()
            elif bit_generator_type == "MT19937":
                bit_gen = npr.MT19937()
            elif bit_generator_type == "Philox":
                bit_gen = npr.Philox()
            elif bit_generator_type == "SFC64":
                bit_gen = npr.SFC64()
            else:
                # Fallback to default
                bit_gen = npr.PCG64()

            # Create generator with fresh state
            rng = npr.Generator(bit_gen)
            # Note: We don't restore the exact state due to type compatibility issues
            # The generator will work fine with fresh state and can be re-seeded if needed

            setattr(obj, name, rng)
            set_attrs.add(name)

        # PyTorch generator (skipped during save)
        elif subgrp.attrs.get("_torch_rng_skipped"):
            # Create a new generator since we didn't save the state
            rng = torch.Generator()
            setattr(obj, name, rng)
            set_attrs.add(name)

        else:
            print(f"Unhandled group: {name} with attrs: {dict(subgrp.attrs)}")
            raise ValueError(f"Unknown subgroup structure: {subgrp.path}")

    # Remove attributes in skip_names that may have been set by __init__ (when using __new__)
    for name in skip_names:
        if hasattr(obj, name):
            delattr(obj, name)

    # attrs pattern: call post-init if defined
    if hasattr(obj, "__attrs_post_init__"):
        obj.__attrs_post_init__()

    # Fix PyTorch module set attributes after all loading is complete
    if isinstance(obj, torch.nn.Module):
        cls._fix_torch_module_sets(obj)

    # Also fix any nested PyTorch modules in the object's attributes
    # Use a more defensive approach to avoid triggering property accessors
    for attr_name in dir(obj):
        if not attr_name.startswith("_"):  # Skip private attributes
            try:
                # Check if it's a property first to avoid triggering accessors
                if hasattr(type(obj), attr_name):
                    attr_descriptor = getattr(type(obj), attr_name)
                    if hasattr(attr_descriptor, "__get__") and not hasattr(
                        attr_descriptor, "__set__"
                    ):
                        # This is a read-only property, skip it to avoid triggering computation
                        continue

                attr_value = getattr(obj, attr_name)
                if isinstance(attr_value, torch.nn.Module):
                    cls._fix_torch_module_sets(attr_value)
            except (AttributeError, RuntimeError, ValueError, KeyError):
                # Skip attributes that can't be accessed or cause other errors
                pass

    return obj


# --------------------------------------------------------------------------------------
# Test classes (importable as __main__.<name> by the loader)
# --------------------------------------------------------------------------------------
class Node(AutoSerialize):
    def __init__(self, **kw):
        self.__dict__.update(kw)


class Leaf(AutoSerialize):
    def __init__(self, **kw):
        self.__dict__.update(kw)


# --------------------------------------------------------------------------------------
# Comparators
# --------------------------------------------------------------------------------------
# Note: attribute / dict-key ORDER is not compared: zarr lists the members of a group concurrently,
# so the order in which arrays and sub-groups come back is not deterministic even for two reads of
# the same on-disk group.  Names, kinds and values are compared exactly.
def _is_num(v):
    return AutoSerialize._is_numeric_scalar(v)


def same(a, b, strict=True, where="root"):
    """Assert a and b are structurally identical.

    strict=True : bit-for-bit / type-for-type (used for old-vs-new and for the fixed point).
    strict=False: the property's comparison of original vs loaded: NumPy scalars and all-numeric
                  sequences/sets are compared by numeric value, rng/loggers by kind only.
    """
    if not strict:
        if isinstance(a, np.generic):
            assert not isinstance(b, (np.ndarray, list, tuple)), where
            assert a.item() == b, (where, a, b)
            return
        if isinstance(a, (list, tuple)) and len(a) > 0 and all(_is_num(v) for v in a):
            assert type(a) is type(b), (where, type(a), type(b))
            assert len(a) == len(b), where
            for i, (x, y) in enumerate(zip(a, b)):
                assert x == y or (x != x and y != y), (where, i, x, y)
            return
        if isinstance(a, set) and len(a) > 0 and all(_is_num(v) for v in a):
            assert type(b) is set and a == b, (where, a, b)
            return
    if isinstance(a, np.random.Generator):
        assert type(a) is type(b), where
        assert type(a.bit_generator) is type(b.bit_generator), where
        return
    if isinstance(a, logging.Logger):
        assert isinstance(b, logging.Logger) and a.name == b.name, where
        return
    assert type(a) is type(b), (where, type(a), type(b))
    if isinstance(a, np.ndarray):
        assert a.dtype == b.dtype, (where, a.dtype, b.dtype)
        assert a.shape == b.shape, (where, a.shape, b.shape)
        assert np.ascontiguousarray(a).tobytes() == np.ascontiguousarray(b).tobytes(), where
    elif isinstance(a, torch.Tensor):
        assert a.dtype == b.dtype, (where, a.dtype, b.dtype)
        assert a.shape == b.shape, where
        assert a.requires_grad == b.requires_grad, where
        assert torch.equal(a.detach(), b.detach()), where
    elif isinstance(a, torch.nn.Module):
        sa, sb = a.state_dict(), b.state_dict()
        assert list(sa) == list(sb), where
        for k in sa:
            same(sa[k], sb[k], strict, f"{where}.state[{k}]")
        assert repr(a) == repr(b), where
    elif isinstance(a, AutoSerialize):
        assert set(vars(a)) == set(vars(b)), (where, sorted(vars(a)), sorted(vars(b)))
        for k in vars(a):
            same(vars(a)[k], vars(b)[k], strict, f"{where}.{k}")
    elif isinstance(a, (list, tuple)):
        assert len(a) == len(b), (where, len(a), len(b))
        for i, (x, y) in enumerate(zip(a, b)):
            same(x, y, strict, f"{where}[{i}]")
    elif isinstance(a, dict):
        assert set(a) == set(b) and len(a) == len(b), (where, list(a), list(b))
        for k in a:
            same(a[k], b[k], strict, f"{where}[{k!r}]")
    elif isinstance(a, (set, frozenset)):
        assert len(a) == len(b), where
        rest = list(b)
        for x in a:
            for j, y in enumerate(rest):
                try:
                    same(x, y, strict, where)
                except AssertionError:
                    continue
                del rest[j]
                break
            else:
                raise AssertionError((where, "set element without partner", x))
    elif isinstance(a, float):
        assert repr(a) == repr(b), (where, a, b)
    else:
        assert a == b, (where, a, b)


def tree_bytes(root):
    out = {}
    for dp, _, fns in os.walk(root):
        for fn in fns:
            full = os.path.join(dp, fn)
            with open(full, "rb") as f:
                out[os.path.relpath(full, root)] = f.read()
    return out


def assert_same_tree(d1, d2, what):
    t1, t2 = tree_bytes(d1), tree_bytes(d2)
    assert sorted(t1) == sorted(t2), (what, sorted(set(t1) ^ set(t2)))
    for k in t1:
        assert t1[k] == t2[k], (what, k)
    return len(t1)


def outcome(fn):
    """Run fn, return ('ok', value) or ('exc', type, str) so exceptions are compared as well."""
    try:
        return ("ok", fn())
    except Exception as e:  # noqa: BLE001
        return ("exc", type(e).__name__, str(e))


@contextlib.contextmanager
def quiet():
    """Silence the serializer's informational prints and pin time.time(): the dill fallback
    gzip-compresses its payload and the gzip header embeds the current time, so two otherwise
    identical writes would differ by the clock only."""
    with open(os.devnull, "w") as dn, contextlib.redirect_stdout(dn):
        with mock.patch("time.time", return_value=1.7e9):
            yield


def wants_blosc(name):
    """The compressor only reaches array payloads: run the compressed pass on those inputs."""
    return name.startswith(("a_", "x_list_1000", "x_tuple_floats", "v_set_big")) or name in (
        "c_list_num", "c_tuple_num", "c_set_num", "c_list_arr", "c_dict_arr", "c_list_obj",
        "c_dict_nested", "o_leaf", "o_complex", "o_bytes", "v_frozenset", "c_list_set",
    )


BLOSC = [
    {
        "name": "blosc",
        "configuration": {"cname": "zstd", "clevel": 3, "shuffle": "bitshuffle"},
    }
]


# --------------------------------------------------------------------------------------
# Value spread
# --------------------------------------------------------------------------------------
def arrays():
    rng = np.random.default_rng(0)
    out = {
        "a_f64": rng.standard_normal((3, 4)),
        "a_f32": rng.standard_normal((2, 3, 2)).astype(np.float32),
        "a_f16": np.linspace(0, 1, 6, dtype=np.float16).reshape(2, 3),
        "a_c64": (rng.standard_normal(4) + 1j * rng.standard_normal(4)).astype(np.complex64),
        "a_c128": np.array([[1 + 2j, -3.5j]]),
        "a_i8": np.array([-128, 127], dtype=np.int8),
        "a_u8": np.arange(6, dtype=np.uint8).reshape(1, 2, 3),
        "a_i16": np.array([[1], [2]], dtype=np.int16),
        "a_u32": np.array([0, 2**32 - 1], dtype=np.uint32),
        "a_i64": np.array([2**62, -(2**62)]),
        "a_u64": np.array([2**64 - 1], dtype=np.uint64),
        "a_bool": np.array([[True, False], [False, True]]),
        "a_nan": np.array([np.nan, np.inf, -np.inf, -0.0]),
        "a_U": np.array(["ab", "c"]),
        "a_dt": np.array(["2020-01-01", "1999-12-31"], dtype="datetime64[D]"),
        "a_0d_f": np.array(3.5),
        "a_0d_i": np.array(7, dtype=np.int32),
        "a_0d_c": np.array(1 + 2j),
        "a_0d_b": np.array(True),
        "a_e0": np.empty((0,), dtype=np.float64),
        "a_e03": np.empty((0, 3), dtype=np.int16),
        "a_e204": np.empty((2, 0, 4), dtype=np.float32),
        "a_e_c": np.empty((3, 0), dtype=np.complex64),
        "a_F": np.asfortranarray(np.arange(6.0).reshape(2, 3)),
        "a_nc": np.arange(10.0)[::2],
        "a_5d": np.arange(32, dtype=np.int32).reshape(2, 2, 2, 2, 2),
        "a_one": np.ones((1, 1, 1)),
    }
    return out


def scalars():
    return {
        "s_int": 3,
        "s_negint": -(2**40),
        "s_zero": 0,
        "s_float": 2.5,
        "s_tiny": 5e-324,
        "s_big": 1.7976931348623157e308,
        "s_inf": float("inf"),
        "s_true": True,
        "s_false": False,
        "s_none": None,
        "s_str": "hello",
        "s_empty_str": "",
        "s_unicode": "ångström αβ",
        "s_path": Path("/tmp/some/where.zip"),
        "s_relpath": Path("rel/dir"),
        "n_f32": np.float32(1.5),
        "n_f64": np.float64(-2.25),
        "n_i64": np.int64(7),
        "n_u8": np.uint8(255),
        "n_bool": np.bool_(True),
        "n_f16": np.float16(0.5),
    }


def tensors():
    g = torch.Generator().manual_seed(0)
    return {
        "t_f32": torch.randn(2, 3, generator=g),
        "t_f64": torch.randn(3, generator=g, dtype=torch.float64),
        "t_bf16": torch.ones(3, dtype=torch.bfloat16),
        "t_i64": torch.arange(5),
        "t_bool": torch.tensor([True, False]),
        "t_c64": torch.tensor([1 + 2j, 3 - 1j], dtype=torch.complex64),
        "t_grad": torch.ones(2, 2, requires_grad=True),
        "t_0d": torch.tensor(3),
        "t_empty": torch.empty(0, 2),
        "t_param": torch.nn.Parameter(torch.full((2,), 0.25)),
    }


def containers():
    return {
        "c_list_num": [1, 2, 3],
        "c_tuple_num": (1.5, 2.5),
        "c_list_mix_num": [1, 2.5, True],
        "c_list_bool": [True, False, True],
        "c_list_np": [np.float32(1), np.int8(2)],
        "c_list_big": [2**63 - 1, -(2**63)],
        "c_list_one": [4],
        "c_list_empty": [],
        "c_tuple_empty": (),
        "c_dict_empty": {},
        "c_set_empty": set(),
        "c_list_str": ["a", "b", ""],
        "c_tuple_het": (1, "a", None, 2.5, Path("x/y"), True),
        "c_list_nested": [[1, 2], (3.0, 4.0), [], ["x", [None, (5,)]]],
        "c_list_dict": [{"a": 1}, {"b": [1, 2], "c": {"d": (1, "z")}}],
        "c_list_arr": [np.arange(3), np.empty((0, 2)), np.array(2.0), "s"],
        "c_tuple_tensor": (torch.ones(2), torch.zeros(1, dtype=torch.int32), np.ones(2)),
        "c_dict": {"x": 1, "y": "two", "z": None, "p": Path("/a/b"), "f": 0.5, "t": True},
        "c_dict_arr": {"arr": np.arange(4.0).reshape(2, 2), "ten": torch.arange(3), "e": np.empty((0,))},
        "c_dict_nested": {"l": [1, 2, 3], "t": ("a", 1), "d": {"dd": {"ddd": [None]}}, "s": {1, 2}},
        "c_set_num": {1, 2, 3},
        "c_set_float": {0.5, 1.5},
        "c_set_str": {"a", "b", "c"},
        "c_set_mixed": {1, "a", None},
        "c_set_tuple": {(1, 2), (3, "x")},
        "c_list_set": [{1, 2}, {"q"}, set()],
        "c_list_obj": [Leaf(v=1, a=np.ones(2)), Leaf(v="s", d={"k": (1, 2)})],
        "c_dict_obj": {"leaf": Leaf(q=[1.5, 2.5], n=None)},
        "c_list_mod": [torch.nn.Linear(1, 2), "after"],
        "c_list_log": ["x", logging.getLogger("c01.demo.inner")],
    }


def others():
    torch.manual_seed(0)
    return {
        "o_leaf": Leaf(a=1, b=np.array([1.0, 2.0]), c=Leaf(deep=(1, "x"), e=np.empty((0, 1)))),
        "o_mod": torch.nn.Sequential(torch.nn.Linear(2, 3), torch.nn.ReLU(), torch.nn.Linear(3, 1)),
        "o_rng": np.random.default_rng(1),
        "o_logger": logging.getLogger("c01.demo"),
        "o_complex": 1 + 2j,
        "o_bytes": b"\x00\x01abc",
    }


def big_graph():
    d = {}
    for part in (scalars(), arrays(), tensors(), containers(), others()):
        d.update(part)
    return Node(**d)


def mid_graph():
    return Node(
        i=1,
        f=2.5,
        n=None,
        s="txt",
        p=Path("a/b.c"),
        ns=np.float32(0.25),
        a=np.arange(6, dtype=np.int16).reshape(2, 3),
        a0=np.array(1.5, dtype=np.float32),
        ae=np.empty((2, 0), dtype=np.uint8),
        t=torch.ones(2, requires_grad=True),
        l=[1, 2, 3],
        tup=("a", [1.5, 2.5], {"k": {3, 4}}),
        st={"x", "y"},
        d={"arr": np.ones(2), "n": None, "leaf": Leaf(z=(1, 2))},
        leaf=Leaf(q=[np.zeros(1), None]),
    )


# --------------------------------------------------------------------------------------
# Part A: the property
# --------------------------------------------------------------------------------------
def part_a(td):
    n = 0
    big = big_graph()
    first_loaded = None
    for store, ext, as_path in (("dir", "", False), ("zip", ".zip", True)):
        tgt = os.path.join(td, f"A_big_{store}{ext}")
        with quiet():
            big.save(Path(tgt) if as_path else tgt, store=store)
            got = load(tgt if as_path else Path(tgt))
        assert type(got) is Node
        same(big, got, strict=False, where=f"big/{store}")
        n += 1
        if first_loaded is None:
            first_loaded = got
            # fixed point: saving the loaded object again and reloading changes nothing
            tgt2 = os.path.join(td, "A_big_again.zip")
            with quiet():
                got.save(tgt2, store="auto")
                got2 = load(tgt2)
            same(got, got2, strict=True, where="big/fixedpoint")
            n += 1
        else:
            same(first_loaded, got, strict=True, where=f"big/{store} vs dir")

    mid = mid_graph()
    ref = None
    k = 0
    for store, ext in (("dir", ""), ("zip", ".zip")):
        for level in [None] + list(range(10)):
            # alternate str / Path targets and the two write modes over the grid
            as_path = bool(k % 2)
            mode = "o" if (k // 2) % 2 else "w"
            tgt = os.path.join(td, f"A_mid_{k}{ext}")
            if mode == "o":
                # 'o' over an existing, different object
                with quiet():
                    Leaf(junk=np.ones(3), other="stale").save(tgt, store=store)
            with quiet():
                mid.save(Path(tgt) if as_path else tgt, mode=mode, store=store, compression_level=level)
                got = load(Path(tgt) if as_path else tgt)
            assert type(got) is Node
            same(mid, got, strict=False, where=f"mid/{store}/{level}/{mode}")
            if ref is None:
                ref = got
            else:
                same(ref, got, strict=True, where=f"mid/{store}/{level}/{mode} vs ref")
            k += 1
            n += 1
    # fixed point of the mid graph through the other store
    with quiet():
        ref.save(os.path.join(td, "A_mid_again.zip"))
        again = load(os.path.join(td, "A_mid_again.zip"))
    same(ref, again, strict=True, where="mid/fixedpoint")
    # write protection and invalid level are part of the observable behaviour
    tgt = os.path.join(td, "A_mid_0")
    r = outcome(lambda: mid.save(tgt, mode="w"))
    assert r[0] == "exc" and r[1] == "FileExistsError", r
    r = outcome(lambda: mid.save(os.path.join(td, "A_bad"), compression_level=10))
    assert r[0] == "exc" and r[1] == "ValueError", r
    return n


# --------------------------------------------------------------------------------------
# Part B: old == new, bit for bit
# --------------------------------------------------------------------------------------
def fresh_group(td, tag):
    p = os.path.join(td, tag)
    os.makedirs(p)
    return p, zarr.group(store=LocalStore(p), overwrite=True)


def part_b_write_ndarray(td):
    n = 0
    inputs = dict(arrays())
    inputs.update(
        {
            "list_in": [1, 2, 3],
            "nested_list_in": [[1.0, 2.0], [3.0, 4.0]],
            "scalar_in": 3.5,
            "npscalar_in": np.float32(2.0),
            "empty_list_in": [],
            "bool_in": True,
        }
    )
    for ci, comp in enumerate((None, BLOSC)):
        for name, arr in inputs.items():
            p1, g1 = fresh_group(td, f"B2_o_{ci}_{name}")
            p2, g2 = fresh_group(td, f"B2_n_{ci}_{name}")
            r1 = outcome(lambda: ORIG__write_ndarray(g1, name, arr, comp))
            r2 = outcome(lambda: AutoSerialize._write_ndarray(g2, name, arr, comp))
            assert r1 == r2, (name, r1, r2)
            assert_same_tree(p1, p2, f"_write_ndarray/{name}/{ci}")
            if r1[0] == "ok":
                same(
                    AutoSerialize._read_array_np(g1, name),
                    AutoSerialize._read_array_np(g2, name),
                    True,
                    name,
                )
            n += 1
    # writing twice under the same name must fail identically
    p1, g1 = fresh_group(td, "B2_o_dup")
    p2, g2 = fresh_group(td, "B2_n_dup")
    ORIG__write_ndarray(g1, "x", np.ones(2))
    AutoSerialize._write_ndarray(g2, "x", np.ones(2))
    r1 = outcome(lambda: ORIG__write_ndarray(g1, "x", np.array(1.0)))
    r2 = outcome(lambda: AutoSerialize._write_ndarray(g2, "x", np.array(1.0)))
    assert r1[:2] == r2[:2], (r1, r2)
    return n


def container_inputs():
    c = containers()
    c.update(
        {
            "x_modlist": torch.nn.ModuleList([torch.nn.Linear(1, 1), torch.nn.ReLU()]),
            "x_seq": torch.nn.Sequential(torch.nn.Linear(2, 2)),
            "x_paramlist": torch.nn.ParameterList([torch.nn.Parameter(torch.ones(2))]),
            "x_list_1000": list(range(1000)),
            "x_tuple_floats": tuple(float(i) / 7 for i in range(50)),
            "x_list_nan": [float("nan"), float("inf"), 1],
            "x_list_numstr": [1, "2"],
            "x_list_arr0d": [np.array(1.0), 2],
            "x_dict_intkeys": {1: "a", 2: [1, 2]},
            "x_list_rng": [np.random.default_rng(3), 1],
            "x_not_container": 5,
        }
    )
    return c


def part_b_serialize_container(td):
    n = 0
    owner = Node()
    for ci, comp in enumerate((None, BLOSC)):
        for name, val in container_inputs().items():
            if comp is not None and not wants_blosc(name):
                continue
            p1, g1 = fresh_group(td, f"B3_o_{ci}_{name}")
            p2, g2 = fresh_group(td, f"B3_n_{ci}_{name}")
            with quiet():
                r1 = outcome(lambda: ORIG__serialize_container(owner, val, g1, set(), (), comp))
                r2 = outcome(lambda: owner._serialize_container(val, g2, set(), (), comp))
            assert r1 == r2, (name, r1, r2)
            assert_same_tree(p1, p2, f"_serialize_container/{name}/{ci}")
            n += 1
    return n


def value_inputs():
    v = {}
    for part in (scalars(), arrays(), tensors(), containers(), others()):
        v.update(part)
    v.update(
        {
            "v_frozenset": frozenset({1, 2}),
            "v_rng_mt": np.random.Generator(np.random.MT19937(5)),
            "v_rng_philox": np.random.Generator(np.random.Philox(5)),
            "v_torch_gen": torch.Generator().manual_seed(1),
            "v_opt": torch.optim.SGD([torch.nn.Parameter(torch.ones(1))], lr=0.1),
            "v_range": range(3),
            "v_set_big": set(range(200)),
            "v_set_nested": {("a", (1, 2)), ("b", ())},
            "v_set_paths": {Path("a"), Path("b")},
            "v_set_np": {np.float32(1.5), np.float32(2.5)},
        }
    )
    return v


def part_b_serialize_value(td):
    n = 0
    owner = Node()
    for ci, comp in enumerate((None, BLOSC)):
        for name, val in value_inputs().items():
            if comp is not None and not wants_blosc(name):
                continue
            p1, g1 = fresh_group(td, f"B4_o_{ci}_{name}")
            p2, g2 = fresh_group(td, f"B4_n_{ci}_{name}")
            with quiet():
                r1 = outcome(lambda: ORIG__serialize_value(owner, val, g1, name, set(), (), comp))
                r2 = outcome(lambda: owner._serialize_value(val, g2, name, set(), (), comp))
            assert r1 == r2, (name, r1, r2)
            assert_same_tree(p1, p2, f"_serialize_value/{name}/{ci}")
            n += 1
    # skip lists are forwarded to nested objects identically
    val = {"keep": Leaf(a=1, drop=2, arr=np.ones(2)), "s": {Leaf(a=3, drop=4)} if False else [Leaf(a=3, drop=4)]}
    p1, g1 = fresh_group(td, "B4_o_skip")
    p2, g2 = fresh_group(td, "B4_n_skip")
    ORIG__serialize_value(owner, val, g1, "v", {"drop"}, (np.ndarray,), None)
    owner._serialize_value(val, g2, "v", {"drop"}, (np.ndarray,), None)
    assert_same_tree(p1, p2, "_serialize_value/skip")
    return n + 1


def part_b_deserialize_container(td):
    n = 0
    owner = Node()
    for name, val in container_inputs().items():
        if name == "x_not_container":
            continue
        p, g = fresh_group(td, f"B1_{name}")
        with quiet():
            owner._serialize_value(val, g, "c") if isinstance(
                val, (list, tuple, dict, set)
            ) else owner._serialize_container(val, g.require_group("c"))
        sub = cast(zarr.Group, zarr.open_group(store=LocalStore(p), mode="r")["c"])
        r1 = outcome(lambda: ORIG__deserialize_container(Node, sub))
        r2 = outcome(lambda: Node._deserialize_container(sub))
        assert r1[0] == r2[0], (name, r1, r2)
        if r1[0] == "ok":
            same(r1[1], r2[1], True, f"_deserialize_container/{name}")
            if name.startswith("c_"):  # the x_ inputs are outside the property's domain
                same(val, r2[1], False, f"_deserialize_container/{name}/prop")
        else:
            assert r1 == r2, (name, r1, r2)
        n += 1
    # malformed groups: identical failures
    p, g = fresh_group(td, "B1_bad")
    g.require_group("nokind")
    bad = g.require_group("badkind")
    bad.attrs["_container_type"] = "deque"
    gap = g.require_group("gap")
    gap.attrs["_container_type"] = "tuple"
    gap.attrs["0"] = 1
    gap.attrs["2"] = 3
    odd = g.require_group("odd")
    odd.attrs["_container_type"] = "tuple"
    odd.attrs["_sequence_encoding"] = "ndarray"  # marker without the 'values' array
    odd.attrs["0"] = "kept"
    unk = g.require_group("unk")
    unk.attrs["_container_type"] = "list"
    unk.require_group("0")
    for key in ("nokind", "badkind", "gap", "odd", "unk"):
        sub = cast(zarr.Group, g[key])
        r1 = outcome(lambda: ORIG__deserialize_container(Node, sub))
        r2 = outcome(lambda: Node._deserialize_container(sub))
        if r1[0] == "ok":
            assert r2[0] == "ok", (key, r1, r2)
            same(r1[1], r2[1], True, key)
        else:
            assert r1 == r2, (key, r1, r2)
        n += 1
    return n


def part_b_recursive_load(td):
    n = 0
    objs = {
        "big": big_graph(),
        "mid": mid_graph(),
        "empty": Node(),
        "leafy": Leaf(a=Leaf(b=Leaf(c=[1, 2, 3], arr=np.arange(3))), arr=np.arange(4.0), cplx=2j, raw=b"zz"),
    }
    skips = [
        (frozenset(), ()),
        (frozenset({"arr", "s_int", "a_f64", "c_dict", "o_leaf", "missing"}), ()),
        (frozenset(), (np.ndarray, torch.Tensor, complex, Leaf, dict)),
        (frozenset({"a"}), (list, bytes)),
    ]
    for name, obj in objs.items():
        p = os.path.join(td, f"B5_{name}")
        with quiet():
            obj.save(p, store="dir")
        root = zarr.open_group(store=LocalStore(p), mode="r")
        for si, (sn, st) in enumerate(skips):
            with quiet():
                r1 = outcome(lambda: ORIG__recursive_load(type(obj), root, sn, st))
                r2 = outcome(lambda: type(obj)._recursive_load(root, sn, st))
            assert r1[0] == "ok" and r2[0] == "ok", (name, si, r1, r2)
            same(r1[1], r2[1], True, f"_recursive_load/{name}/{si}")
            n += 1
    # malformed: unsupported version / unknown subgroup fail identically
    p, g = fresh_group(td, "B5_bad")
    g.attrs["_autoserialize"] = {"version": 2, "class_module": "__main__", "class_name": "Node"}
    r1 = outcome(lambda: ORIG__recursive_load(Node, g))
    r2 = outcome(lambda: Node._recursive_load(g))
    assert r1 == r2 and r1[0] == "exc", (r1, r2)
    g.attrs["_autoserialize"] = {"version": 1, "class_module": "__main__", "class_name": "Node"}
    g.require_group("mystery")
    with quiet():
        r1 = outcome(lambda: ORIG__recursive_load(Node, g))
        r2 = outcome(lambda: Node._recursive_load(g))
    assert r1 == r2 and r1[0] == "exc", (r1, r2)
    return n + 2


def main():
    with tempfile.TemporaryDirectory() as td:
        na = part_a(td)
        print(f"part A (property): {na} save/load configurations OK  [{time.perf_counter() - T0:.1f}s]")
        n2 = part_b_write_ndarray(td)
        print(f"part B _write_ndarray: {n2} old==new cases OK  [{time.perf_counter() - T0:.1f}s]")
        n3 = part_b_serialize_container(td)
        print(f"part B _serialize_container: {n3} old==new cases OK  [{time.perf_counter() - T0:.1f}s]")
        n4 = part_b_serialize_value(td)
        print(f"part B _serialize_value: {n4} old==new cases OK  [{time.perf_counter() - T0:.1f}s]")
        n1 = part_b_deserialize_container(td)
        print(f"part B _deserialize_container: {n1} old==new cases OK  [{time.perf_counter() - T0:.1f}s]")
        n5 = part_b_recursive_load(td)
        print(f"part B _recursive_load: {n5} old==new cases OK  [{time.perf_counter() - T0:.1f}s]")
    print("C01 demo: all checks passed")


if __name__ == "__main__":
    main()
    sys.exit(0)
