"""C16 equivalence demo (shared by the five behaviour-preserving patches).

Embeds verbatim copies of the ORIGINAL functions and asserts that the functions currently in
the tree return bit-identical results (values, dtypes, shapes, NaN patterns) on a spread of
inputs; additionally checks a few of the C16 identities (unit-modulus kernels, integer shift ==
roll, intensity preservation, adjointness of the scatter).
Run:  PYTHONPATH=<root>/src /venv/bin/python demo.py
"""

import itertools
import types

import numpy as np
import torch

from quantem.core.utils import array_funcs as af
from quantem.core.utils.utils import electron_wavelength_angstrom
from quantem.diffractive_imaging import ptycho_utils as pu
from quantem.diffractive_imaging.object_models import ObjectBase, ObjectPixelated
from quantem.diffractive_imaging.probe_models import ProbeBase
from quantem.diffractive_imaging.ptychography_base import PtychographyBase
from quantem.diffractive_imaging.ptycho_utils import sum_patches

torch.set_num_threads(1)  # tiny arrays: avoid thread oversubscription
torch.manual_seed(0)
RNG = np.random.default_rng(0)


# ----------------------------------------------------------------------------- originals
def ORIG_fourier_translation_operator(positions, shape, expand_dim=True, dtype=None):
    """Returns phase ramp for fourier-shifting array of shape `shape`."""
    nr, nc = shape[-2:]
    r = positions[..., 0][:, None, None]
    c = positions[..., 1][:, None, None]
    kr = af.match_device(np.fft.fftfreq(nr, d=1.0).astype(np.float32), positions)
    kc = af.match_device(np.fft.fftfreq(nc, d=1.0).astype(np.float32), positions)
    ramp_r = af.exp(-2.0j * np.pi * kr[None, :, None] * r)
    ramp_c = af.exp(-2.0j * np.pi * kc[None, None, :] * c)
    ramp = ramp_r * ramp_c
    if expand_dim:
        for _ in range(len(shape) - 2):
            ramp = ramp[:, None, ...]
    if dtype is not None:
        ramp = af.as_type(ramp, dtype)
    return ramp


def ORIG_fourier_shift_expand(array, positions, expand_dim=True):
    """Fourier-shift array by flat array of positions."""
    # the ramp must stay complex: casting it to a real array dtype would keep only its cosine part
    phase = ORIG_fourier_translation_operator(
        positions, array.shape, expand_dim, dtype=array.dtype if af.is_complex(array) else None
    )
    fourier_array = af.fft2(array)
    shifted_fourier_array = fourier_array * phase
    shifted_array = af.ifft2(shifted_fourier_array)
    if af.is_complex(array):
        return shifted_array
    else:
        return shifted_array.real


def ORIG_estimate_amplitudes(self, overlap_array, corner_centered=False):
    """Returns the estimated fourier amplitudes from real-valued `overlap_array`."""
    # overlap shape: (nprobes, batch_size, roi_shape[0], roi_shape[1])
    # incoherent sum of all probe components
    eps = 1e-9  # this is to avoid diverging gradients at sqrt(0)
    overlap_fft = torch.fft.fft2(overlap_array, norm="ortho")
    amps = torch.sqrt(torch.sum(torch.abs(overlap_fft + eps) ** 2, dim=0))
    if not corner_centered:  # default is shifted amplitudes matching exp data
        return torch.fft.fftshift(amps, dim=(-2, -1))
    else:
        return amps


def ORIG_compute_propagator_arrays(self, sampling, num_slices, slice_thicknesses):
    if num_slices == 1:
        return torch.tensor([])

    kr, kc = tuple(
        torch.fft.fftfreq(n, d, device=self.device) for n, d in zip(self.roi_shape, sampling)
    )
    k2 = (kr[:, None] ** 2 + kc[None] ** 2).to(torch.complex64)  # broadcasting to (Sr, Sc)
    probe_energy = self.probe_params["energy"]
    if probe_energy is None:
        raise ValueError("probe_model energy must be set to compute propagators.")
    wavelength = electron_wavelength_angstrom(probe_energy)
    propagators = torch.empty(
        (num_slices - 1, kr.shape[0], kc.shape[0]), dtype=torch.complex64, device=self.device
    )

    theta_r, theta_c = self.probe_tilt
    dz = torch.tensor(slice_thicknesses, device=self.device, dtype=k2.dtype)  # (T,)
    phase_factor = -1.0j * torch.pi * wavelength * dz[:, None, None]  # (T,1,1)
    propagators = torch.exp(phase_factor * k2)  # (T, Sr, Sc)
    if theta_r != 0:
        kr_term = 1.0j * (-2 * torch.pi * dz[:, None, None] * torch.tan(theta_r / 1e3))
        propagators = propagators * torch.exp(kr_term * kr[None, :, None])
    if theta_c != 0:
        kc_term = 1.0j * (-2 * torch.pi * dz[:, None, None] * torch.tan(theta_c / 1e3))
        propagators = propagators * torch.exp(kc_term * kc[None, None, :])

    return propagators


def ORIG_backward(self, gradient, obj_patches, shifted_probes, propagators, patch_indices):
    obj_shape = self._obj.shape[-2:]
    obj_gradient = torch.zeros_like(self._obj)
    for s in reversed(range(self.num_slices)):
        probe_slice = shifted_probes[s]
        obj_slice = obj_patches[s]
        probe_normalization = torch.zeros_like(self._obj[s])
        obj_update = torch.zeros_like(self._obj[s])
        for a0 in range(shifted_probes.shape[1]):
            probe = probe_slice[a0]
            grad = gradient[a0]
            probe_normalization += sum_patches(
                torch.abs(probe) ** 2, patch_indices, obj_shape
            ).max()

            if self.obj_type == "potential":
                obj_update += sum_patches(
                    torch.real(-1j * torch.conj(obj_slice) * torch.conj(probe) * grad),
                    patch_indices,
                    obj_shape,
                )
            else:
                obj_update += sum_patches(torch.conj(probe) * grad, patch_indices, obj_shape)

        obj_gradient[s] = obj_update / probe_normalization

        # back-transmit and back-propagate
        gradient *= torch.conj(obj_slice)
        if s > 0:
            gradient = self._propagate_array(gradient, torch.conj(propagators[s - 1]))

    self._obj.grad = -1 * obj_gradient.clone().detach()
    return gradient


# ----------------------------------------------------------------------------- helpers
def _np(a):
    if isinstance(a, torch.Tensor):
        return a.detach().resolve_conj().cpu().numpy()
    return np.asarray(a)


def same(a, b, what):
    """bit-for-bit equality incl. container type, dtype, shape, NaN payloads and signed zeros"""
    assert type(a) is type(b), (what, type(a), type(b))
    if isinstance(a, torch.Tensor):
        assert a.dtype == b.dtype, (what, a.dtype, b.dtype)
        assert a.is_conj() == b.is_conj(), (what, "conj bit")
    an, bn = _np(a), _np(b)
    assert an.dtype == bn.dtype, (what, an.dtype, bn.dtype)
    assert an.shape == bn.shape, (what, an.shape, bn.shape)
    assert np.ascontiguousarray(an).tobytes() == np.ascontiguousarray(bn).tobytes(), what


def crandn(*shape, dtype=torch.complex64):
    real = torch.float32 if dtype == torch.complex64 else torch.float64
    return torch.complex(torch.randn(*shape, dtype=real), torch.randn(*shape, dtype=real))


SHAPES = [(8, 8), (7, 9), (6, 5), (1, 4), (3, 16, 12), (2, 3, 5, 6)]
N_CHECKS = 0


# ----------------------------------------------------------------------------- 1/2: translation
def check_translation():
    global N_CHECKS
    for shape in SHAPES:
        for npos in (1, 3):
            pos64 = RNG.normal(scale=3.0, size=(npos, 2))
            pos64[0] = (2.0, -3.0)  # an integer shift
            for pos in (pos64, pos64.astype(np.float32)):
                variants = [
                    (pos, (None, "complex64", "complex128", np.complex64, torch.complex64)),
                    (torch.tensor(pos), (None, "complex64", "complex128", torch.complex64,
                                         torch.complex128, np.complex64)),
                ]
                for p, dtypes in variants:
                    for expand_dim, dt in itertools.product((True, False), dtypes):
                        new = pu.fourier_translation_operator(p, shape, expand_dim, dtype=dt)
                        old = ORIG_fourier_translation_operator(p, shape, expand_dim, dtype=dt)
                        same(new, old, ("fourier_translation_operator", shape, expand_dim, dt))
                        N_CHECKS += 1
                        # unit modulus -> intensity preserving
                        assert np.allclose(np.abs(_np(new)), 1.0, atol=1e-5)

    # fourier_shift_expand: old == new, integer shift == roll, energy preserved
    for shape in SHAPES:
        lead = shape[:-2]
        for kind in ("np_real", "np_cplx", "t_real", "t_cplx", "t_cplx128"):
            if kind == "np_real":
                arr = RNG.normal(size=shape).astype(np.float32)
            elif kind == "np_cplx":
                arr = (RNG.normal(size=shape) + 1j * RNG.normal(size=shape)).astype(np.complex64)
            elif kind == "t_real":
                arr = torch.randn(*shape)
            elif kind == "t_cplx":
                arr = crandn(*shape)
            else:
                arr = crandn(*shape, dtype=torch.complex128)
            npos = lead[0] if (len(lead) == 1) else 2
            pos = RNG.normal(scale=2.0, size=(npos, 2)).astype(np.float32)
            pos[0] = (1.0, -2.0)
            p = torch.tensor(pos) if kind.startswith("t_") else pos
            for expand_dim in (True, False):
                try:
                    old = ORIG_fourier_shift_expand(arr, p, expand_dim)
                except Exception as e_old:  # non-broadcastable combination: same failure required
                    try:
                        pu.fourier_shift_expand(arr, p, expand_dim)
                    except Exception as e_new:
                        assert type(e_old) is type(e_new) and str(e_old) == str(e_new)
                        N_CHECKS += 1
                        continue
                    raise AssertionError("original raised, edited did not")
                new = pu.fourier_shift_expand(arr, p, expand_dim)
                same(new, old, ("fourier_shift_expand", shape, kind, expand_dim))
                N_CHECKS += 1
                assert af.is_complex(new) == af.is_complex(arr)
                if "cplx" in kind:  # total intensity of every shifted image is preserved
                    e_in = (np.abs(_np(arr)) ** 2).sum(axis=(-2, -1))
                    e_out = (np.abs(_np(new)) ** 2).sum(axis=(-2, -1))
                    assert np.allclose(e_out, np.broadcast_to(e_in, e_out.shape), rtol=1e-3)
    # integer shift is a circular roll
    a = crandn(6, 7)
    out = pu.fourier_shift_expand(a, torch.tensor([[2.0, -3.0]]))[0]
    assert torch.allclose(out, torch.roll(a, (2, -3), dims=(0, 1)), atol=1e-4)


# ----------------------------------------------------------------------------- 3: amplitudes
def check_estimate_amplitudes():
    global N_CHECKS
    for nprobes, batch, roi in itertools.product((1, 2, 3), (1, 4), ((8, 8), (7, 10), (5, 5))):
        ov = crandn(nprobes, batch, *roi)
        ov[:, 0] = 0  # an all-zero pattern (sqrt(eps) regime)
        for cc in (False, True):
            new = PtychographyBase.estimate_amplitudes(None, ov, corner_centered=cc)
            old = ORIG_estimate_amplitudes(None, ov, corner_centered=cc)
            same(new, old, ("estimate_amplitudes", nprobes, batch, roi, cc))
            N_CHECKS += 1
        ov128 = crandn(nprobes, batch, *roi, dtype=torch.complex128)
        same(
            PtychographyBase.estimate_amplitudes(None, ov128),
            ORIG_estimate_amplitudes(None, ov128),
            "estimate_amplitudes c128",
        )
        # gradient flows identically
        g1 = ov.clone().requires_grad_(True)
        g2 = ov.clone().requires_grad_(True)
        PtychographyBase.estimate_amplitudes(None, g1).sum().backward()
        ORIG_estimate_amplitudes(None, g2).sum().backward()
        same(g1.grad, g2.grad, "estimate_amplitudes grad")
        N_CHECKS += 2


# ----------------------------------------------------------------------------- 4: propagators
def check_propagators():
    global N_CHECKS
    tilts = [(0.0, 0.0), (3.0, 0.0), (0.0, -2.5), (1.5, 4.0)]
    for roi, sampling, energy, tilt, nsl in itertools.product(
        ((8, 8), (7, 10), (12, 5)),
        ((0.2, 0.2), (0.31, 0.17)),
        (60e3, 80e3, 300e3),
        tilts,
        (1, 2, 4),
    ):
        stub = types.SimpleNamespace(
            device="cpu",
            roi_shape=np.array(roi),
            probe_params={"energy": energy},
            probe_tilt=torch.nn.Parameter(torch.tensor(tilt, dtype=torch.float32)),
        )
        for thick in (
            np.linspace(3.0, 11.0, max(nsl - 1, 1)),
            torch.linspace(2.0, 20.0, max(nsl - 1, 1)).numpy().tolist(),
        ):
            new = ProbeBase._compute_propagator_arrays(stub, sampling, nsl, thick)
            old = ORIG_compute_propagator_arrays(stub, sampling, nsl, thick)
            same(new, old, ("_compute_propagator_arrays", roi, sampling, energy, tilt, nsl))
            N_CHECKS += 1
            if nsl > 1:
                assert torch.allclose(new.abs(), torch.ones_like(new.abs()), atol=1e-5)
                # propagate then back-propagate is the identity
                wave = crandn(2, 3, *roi)
                fwd = PtychographyBase._propagate_array(None, wave, new[0])
                back = PtychographyBase._propagate_array(None, fwd, torch.conj(new[0]))
                assert torch.allclose(back, wave, atol=1e-4)
                assert torch.allclose(
                    (fwd.abs() ** 2).sum((-2, -1)), (wave.abs() ** 2).sum((-2, -1)), rtol=1e-3
                )
    # missing energy -> same error
    stub = types.SimpleNamespace(
        device="cpu", roi_shape=np.array((4, 4)), probe_params={"energy": None},
        probe_tilt=torch.zeros(2),
    )
    msgs = []
    for fn in (ProbeBase._compute_propagator_arrays, ORIG_compute_propagator_arrays):
        try:
            fn(stub, (0.1, 0.1), 2, [1.0])
        except ValueError as e:
            msgs.append(str(e))
    assert len(msgs) == 2 and msgs[0] == msgs[1]


# ----------------------------------------------------------------------------- 5: backward
class _ObjStub:
    _propagate_array = ObjectBase._propagate_array

    def __init__(self, obj, obj_type):
        self._obj = obj
        self.num_slices = obj.shape[0]
        self.obj_type = obj_type


def check_backward():
    global N_CHECKS
    for obj_type, nsl, nprobes, roi, objsz in itertools.product(
        ("complex", "pure_phase", "potential"), (1, 2, 3), (1, 2), ((4, 4), (5, 6)), ((9, 10),)
    ):
        batch = 5
        H, W = objsz
        r0 = torch.randint(0, H, (batch,))
        c0 = torch.randint(0, W, (batch,))
        r0[1] = r0[0]  # repeated patch
        c0[1] = c0[0]
        rr = (r0[:, None, None] + torch.arange(roi[0])[None, :, None]) % H  # wrap-around
        cc = (c0[:, None, None] + torch.arange(roi[1])[None, None, :]) % W
        patch_indices = rr * W + cc
        if obj_type == "potential":
            obj = torch.randn(nsl, H, W)
            patches = torch.exp(1j * obj.reshape(nsl, -1)[:, patch_indices])
        else:
            obj = torch.exp(1j * torch.randn(nsl, H, W)).to(torch.complex64)
            patches = obj.reshape(nsl, -1)[:, patch_indices]
        probes = crandn(nsl, nprobes, batch, *roi)
        grad0 = crandn(nprobes, batch, *roi)
        props = torch.exp(1j * torch.randn(max(nsl - 1, 0), *roi)).to(torch.complex64)

        s_new = _ObjStub(obj.clone(), obj_type)
        s_old = _ObjStub(obj.clone(), obj_type)
        g_new = ObjectPixelated.backward(
            s_new, grad0.clone(), patches.clone(), probes.clone(), props.clone(), patch_indices
        )
        g_old = ORIG_backward(
            s_old, grad0.clone(), patches.clone(), probes.clone(), props.clone(), patch_indices
        )
        same(g_new, g_old, ("backward gradient", obj_type, nsl, nprobes, roi))
        same(s_new._obj.grad, s_old._obj.grad, ("backward obj.grad", obj_type, nsl, nprobes, roi))
        N_CHECKS += 2

    # scatter is the adjoint of extraction: <sum_patches(p), o> == <p, o[idx]>
    H, W = 7, 8
    idx = torch.randint(0, H * W, (4, 3, 3))
    p = crandn(4, 3, 3, dtype=torch.complex128)
    o = crandn(H, W, dtype=torch.complex128)
    lhs = (sum_patches(p, idx, (H, W)) * o.conj()).sum()
    rhs = (p * o.reshape(-1)[idx].conj()).sum()
    assert torch.allclose(lhs, rhs, atol=1e-10)


if __name__ == "__main__":
    check_translation()
    check_estimate_amplitudes()
    check_propagators()
    check_backward()
    print(f"OK: {N_CHECKS} bit-for-bit comparisons passed")
