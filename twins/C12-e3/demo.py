"""Demo for C12 patch 3: aberration_surface_cartesian_basis builds the radial term once per label
and picks cos / sin through a small dispatch table instead of two duplicated elif branches.

Checks (a) bit-for-bit agreement (values, dtype, shape, gradients, exceptions) with a verbatim
copy of the original function and (b) the property: for every one of the 25 Cartesian labels the
basis function equals the polar aberration surface of the matching unit coefficient, and a full
Cartesian expansion reproduces the polar surface."""

import math
import random

import torch

from quantem.diffractive_imaging.complex_probe import (
    POLAR_SYMBOLS,
    aberration_surface,
    aberration_surface_cartesian_basis,
    cartesian_to_polar_aberrations,
    parse_cartesian_aberration_label,
    polar_to_cartesian_aberrations,
)
from quantem.diffractive_imaging.direct_ptycho_utils import ABERRATION_PRESETS


# ----------------------------------------------------------------------------- verbatim original
def aberration_surface_cartesian_basis_ORIG(alpha, phi, wavelength, cartesian_basis):
    k = 2 * math.pi / wavelength
    out = []

    for label in cartesian_basis:
        n, m, kind = parse_cartesian_aberration_label(label)
        pref = k / (n + 1)
        radial = alpha ** (n + 1)

        if kind is None:
            out.append(pref * radial)
        elif kind == "a":
            out.append(pref * radial * torch.cos(m * phi))
        elif kind == "b":
            out.append(pref * radial * torch.sin(m * phi))
        else:
            raise ValueError(f"Invalid aberration label: {label}")

    return torch.stack(out, dim=-1)


# ----------------------------------------------------------------------------- helpers
class _OneShot(list):
    """Marker: pass this basis to the function as a one-shot iterator."""


def run(fn, *args):
    try:
        return ("ok", fn(*args))
    except BaseException as e:  # noqa: BLE001
        return ("err", type(e), str(e))


def compare(*args):
    # a generator basis can only be consumed once: materialise it separately for each call
    def fresh(a):
        return tuple(iter(x) if isinstance(x, _OneShot) else x for x in a)

    rn = run(aberration_surface_cartesian_basis, *fresh(args))
    ro = run(aberration_surface_cartesian_basis_ORIG, *fresh(args))
    assert rn[0] == ro[0], (rn, ro)
    if rn[0] == "err":
        assert rn[1:] == ro[1:], (rn, ro)
    else:
        a, b = rn[1], ro[1]
        assert a.dtype == b.dtype and a.shape == b.shape and a.requires_grad == b.requires_grad
        assert torch.allclose(a, b, rtol=0.0, atol=0.0, equal_nan=True), (a - b).abs().max()
        if not a.is_complex():
            assert torch.equal(torch.signbit(a), torch.signbit(b))
    return rn


ALL = ABERRATION_PRESETS["all"]
assert len(ALL) == 25
rng = random.Random(3)
torch.manual_seed(3)
cases = 0


def grid(shape, dtype, amax=0.03):
    """alpha / phi on a (possibly non-square, possibly degenerate) polar grid incl. alpha = 0."""
    n = 1
    for s in shape:
        n *= s
    alpha = torch.linspace(0.0, amax, max(n, 1), dtype=dtype)[:n].reshape(shape)
    phi = ((torch.arange(n, dtype=dtype) * 0.7371) % (2 * math.pi) - math.pi).reshape(shape)
    return alpha, phi


# 1. old vs new: presets, single labels, shuffled / repeated labels, shapes, dtypes, wavelengths
shapes = [(), (1,), (5,), (7, 11), (11, 7), (1, 9), (2, 3, 4), (0,), (3, 0)]
for dtype in (torch.float32, torch.float64, torch.float16):
    for shape in shapes:
        alpha, phi = grid(shape, dtype)
        for wavelength in (0.0197, 0.0251, 1.0, -0.5, 1e-6):
            for name, basis in ABERRATION_PRESETS.items():
                compare(alpha, phi, wavelength, basis)
                cases += 1
            for label in ALL:
                compare(alpha, phi, wavelength, [label])
                cases += 1
            mixed = [rng.choice(ALL) for _ in range(rng.randint(1, 40))]
            compare(alpha, phi, wavelength, mixed)
            compare(alpha, phi, wavelength, tuple(mixed))
            compare(alpha, phi, wavelength, _OneShot(mixed))
            cases += 3

# integer / broadcasting / mismatched inputs
alpha_i = torch.arange(12).reshape(3, 4)
phi_f = torch.linspace(-3, 3, 12).reshape(3, 4)
compare(alpha_i, phi_f, 0.02, ALL)
compare(alpha_i, alpha_i, 0.02, ALL)
compare(torch.linspace(0, 1, 5)[:, None], torch.linspace(-3, 3, 7)[None, :], 0.02, ["C12_a", "C12_b"])
compare(torch.linspace(0, 1, 5)[:, None], torch.linspace(-3, 3, 7)[None, :], 0.02, ["C10", "C12_a"])  # stack shape mismatch
compare(torch.linspace(0, 1, 5), torch.linspace(-3, 3, 7), 0.02, ["C12_a"])  # broadcast error
compare(torch.tensor([float("nan"), float("inf"), -1.0, 0.0]), torch.tensor([0.0, float("inf"), -0.0, float("nan")]), 0.02, ALL)
compare(torch.tensor(0.01), torch.tensor(0.3), torch.tensor(0.02), ALL)  # tensor wavelength
compare(torch.linspace(0, 1, 4).to(torch.complex64), torch.linspace(0, 1, 4), 0.02, ALL)
cases += 8

# labels outside the usual set but accepted by the parser (m is not checked against n)
for label in ["C00", "C99_a", "C07_b", "X31_a", "C21", "C30_a", "C12_a_b", "C12_b_extra", "Q1234_a"]:
    r = compare(*grid((4, 5), torch.float64), 0.02, [label])
    assert r[0] == "ok", (label, r)
    cases += 1

# 2. failure cases: same exception type and message, also when raised half-way through the list
alpha, phi = grid((3, 4), torch.float32)
bad_lists = [
    [],
    ["C12_c"],
    ["C12_"],
    ["C12_A"],
    ["C10", "C12_a", "C12_x", "C21_a"],
    ["C10", "C1"],
    ["C10", ""],
    ["C10", "Cab"],
    ["C10", "C1b_a"],
    ["C10", None],
    ["C10", 12],
    [["C10"]],
    None,
    5,
]
for b in bad_lists:
    r = compare(alpha, phi, 0.02, b)
    assert r[0] == "err", (b, r)
    cases += 1
for args in [
    (alpha, phi, 0.0, ["C10"]),
    (alpha, phi, "0.02", ["C10"]),
    (alpha, phi, None, ["C10"]),
    ("alpha", phi, 0.02, ["C10"]),
    ("alpha", phi, 0.02, ["C10_z"]),  # original evaluates alpha ** (n + 1) before rejecting the label
    (alpha, "phi", 0.02, ["C12_a"]),
    (alpha, None, 0.02, ["C12_b"]),
    (None, phi, 0.02, ["C12_z"]),
    ([0.1, 0.2], [0.0, 0.1], 0.02, ["C10"]),
]:
    r = compare(*args)
    assert r[0] == "err", (args, r)
    cases += 1
# python floats for alpha with a pure radial label fail identically inside torch.stack
compare(0.01, 0.3, 0.02, ["C10", "C30"])
compare(0.01, torch.tensor(0.3), 0.02, ["C12_a"])
cases += 2

# 3. gradients w.r.t. alpha and phi are identical
for shape in [(6,), (4, 5)]:
    a0, p0 = grid(shape, torch.float64)
    a0 = a0 + 1e-3
    w = torch.randn(*shape, 25, dtype=torch.float64)
    grads = []
    for fn in (aberration_surface_cartesian_basis, aberration_surface_cartesian_basis_ORIG):
        a = a0.clone().requires_grad_(True)
        p = p0.clone().requires_grad_(True)
        (fn(a, p, 0.0197, ALL) * w).sum().backward()
        grads.append((a.grad, p.grad))
    assert torch.equal(grads[0][0], grads[1][0]) and torch.equal(grads[0][1], grads[1][1])
    cases += 1

# 4. the property.  Every basis label is the polar surface of the matching unit coefficient ...
alpha, phi = grid((7, 11), torch.float64)
for wavelength in (0.0197, 0.0370):
    B = aberration_surface_cartesian_basis(alpha, phi, wavelength, ALL)
    assert B.shape == (7, 11, 25) and B.dtype == torch.float64
    for j, label in enumerate(ALL):
        n, m, kind = parse_cartesian_aberration_label(label)
        unit_cart = {label: torch.tensor(1.0, dtype=torch.float64)}
        polar = cartesian_to_polar_aberrations(unit_cart)
        polar = {k: v.to(torch.float64) for k, v in polar.items()}
        chi = aberration_surface(alpha, phi, wavelength, polar)
        scale = max(chi.abs().max().item(), 1e-300)
        assert torch.allclose(B[..., j], chi, rtol=0, atol=1e-9 * scale), (label, (B[..., j] - chi).abs().max())
        # closed form
        ang = 1.0 if kind is None else (torch.cos(m * phi) if kind == "a" else torch.sin(m * phi))
        ref = 2 * math.pi / wavelength * alpha ** (n + 1) / (n + 1) * ang
        assert torch.allclose(B[..., j], ref, rtol=1e-12, atol=1e-12 * scale)
        cases += 1
    # ... and a full random polar coefficient set is reproduced by its Cartesian expansion
    for _ in range(30):
        polar = {}
        for s in POLAR_SYMBOLS:
            if rng.random() < 0.25:
                continue
            polar[s] = (
                torch.tensor(rng.uniform(-math.pi, math.pi), dtype=torch.float64)
                if s.startswith("phi")
                else torch.tensor(rng.uniform(-1, 1) * 10 ** rng.uniform(0, 4), dtype=torch.float64)
            )
        cart = polar_to_cartesian_aberrations(polar, dtype=torch.float64)
        coef = torch.stack([cart[k] for k in ALL])
        chi_c = B @ coef
        chi_p = aberration_surface(alpha, phi, wavelength, polar)
        scale = max(chi_p.abs().max().item(), 1.0)
        assert torch.allclose(chi_c, chi_p, rtol=0, atol=1e-10 * scale), (chi_c - chi_p).abs().max()
        cases += 1

# 5. repeated calls give identical results and inputs are not modified
a_snap, p_snap = alpha.clone(), phi.clone()
B1 = aberration_surface_cartesian_basis(alpha, phi, 0.0197, ALL)
B2 = aberration_surface_cartesian_basis(alpha, phi, 0.0197, ALL)
assert torch.equal(B1, B2) and torch.equal(alpha, a_snap) and torch.equal(phi, p_snap)
# columns of the result do not alias the inputs or each other
B1[..., 0] += 1.0
assert torch.equal(alpha, a_snap) and torch.equal(B1[..., 1], B2[..., 1])

print(f"PASS ({cases} cases)")
