"""C16 / patch 3: index_add scatter (sum_patches / sum_patches_base).

Checks (a) the current implementation is bit-identical to a verbatim copy of the original
functions (dtypes, shapes, values, gradients, exceptions) and (b) scattering patches back into
the object grid is the exact adjoint of extracting them, for repeated and wrap-around indices.
"""

import warnings
from types import SimpleNamespace

import numpy as np
import torch

from quantem.core.utils import array_funcs as af
from quantem.diffractive_imaging import ptycho_utils as pu
from quantem.diffractive_imaging.object_models import ObjectBase
from quantem.diffractive_imaging.ptychography_base import PtychographyBase

warnings.filterwarnings("ignore")


# ---------------------------------------------------------------- verbatim originals
def orig_sum_patches_base(patches, indices, obj_shape):
    flat_weights = patches.reshape(-1)
    flat_indices = indices.reshape(-1)
    out = af.match_device(
        torch.zeros(
            int(torch.prod(torch.tensor(obj_shape))), dtype=patches.dtype, device=patches.device
        ),
        patches,
    )
    out.index_add_(0, flat_indices, flat_weights)
    return out.reshape(obj_shape)


def orig_sum_patches(patches, indices, obj_shape):
    if torch.is_complex(patches):
        real = orig_sum_patches_base(patches.real, indices, obj_shape)
        imag = orig_sum_patches_base(patches.imag, indices, obj_shape)
        return real + 1.0j * imag
    else:
        return orig_sum_patches_base(patches, indices, obj_shape)


# ---------------------------------------------------------------- helpers
def same(a, b, what):
    assert isinstance(a, torch.Tensor) and isinstance(b, torch.Tensor), what
    assert a.dtype == b.dtype, (what, a.dtype, b.dtype)
    assert a.shape == b.shape, (what, a.shape, b.shape)
    assert a.device == b.device and a.requires_grad == b.requires_grad, what
    assert np.array_equal(a.detach().numpy(), b.detach().numpy(), equal_nan=True), what


def same_outcome(f_old, f_new, what):
    """Both succeed with identical results or both fail with the same exception type."""
    e_old = e_new = r_old = r_new = None
    try:
        r_old = f_old()
    except Exception as e:  # noqa: BLE001
        e_old = e
    try:
        r_new = f_new()
    except Exception as e:  # noqa: BLE001
        e_new = e
    assert type(e_old) is type(e_new), (what, repr(e_old), repr(e_new))
    if e_old is None:
        same(r_old, r_new, what)
    return e_old is None


def patch_indices(obj_shape, roi, corners):
    """Flat wrap-around indices of roi-shaped patches whose top-left corners are `corners`."""
    R, C = obj_shape
    rr = (corners[:, 0, None] + np.arange(roi[0])[None]) % R  # (N, r)
    cc = (corners[:, 1, None] + np.arange(roi[1])[None]) % C  # (N, c)
    return rr[:, :, None] * C + cc[:, None, :]  # (N, r, c)


rng = np.random.default_rng(163)
CASES = [  # obj_shape, roi, number of patches
    ((9, 11), (4, 5), 7),
    ((8, 8), (8, 8), 3),  # patch == whole grid
    ((5, 13), (3, 7), 20),  # heavy overlap
    ((1, 6), (1, 4), 5),
    ((12, 7), (5, 3), 1),
    ((6, 6), (2, 2), 0),  # empty index set
]
DTYPES = [torch.float32, torch.float64, torch.complex64, torch.complex128, torch.int64, torch.int32]

n_cmp = 0
for obj_shape, roi, n in CASES:
    corners = rng.integers(-20, 40, size=(n, 2))
    if n > 2:
        corners[1] = corners[0]  # an exactly repeated patch
        corners[2] = (obj_shape[0] - 1, obj_shape[1] - 1)  # wraps around both edges
    idx_np = patch_indices(obj_shape, roi, corners)
    for idx_dt in (torch.int32, torch.int64):
        idx = torch.tensor(idx_np, dtype=idx_dt).reshape(n, *roi)
        for dt in DTYPES:
            if dt.is_complex:
                vals = rng.normal(size=idx_np.shape) + 1j * rng.normal(size=idx_np.shape)
            elif dt.is_floating_point:
                vals = rng.normal(size=idx_np.shape)
            else:
                vals = rng.integers(-50, 50, size=idx_np.shape)
            p = torch.tensor(vals).to(dt)
            shapes = [
                tuple(obj_shape),
                torch.Size(obj_shape),
                list(obj_shape),
                tuple(np.asarray(obj_shape)),  # numpy integers, as passed by _get_probe_overlap
                (1, *obj_shape),
                (obj_shape[0] * obj_shape[1],),
            ]
            for shp in shapes:
                old = orig_sum_patches(p, idx, shp)
                new = pu.sum_patches(p, idx, shp)
                same(old, new, ("sum_patches", obj_shape, roi, n, dt, type(shp)))
                assert tuple(new.shape) == tuple(int(s) for s in shp)
                n_cmp += 1
                if not dt.is_complex:
                    same(
                        orig_sum_patches_base(p, idx, shp),
                        pu.sum_patches_base(p, idx, shp),
                        ("sum_patches_base", obj_shape, dt),
                    )
                    n_cmp += 1
            # non-contiguous / lazily conjugated / extra leading mode axis
            if n > 0:
                pt = torch.tensor(np.ascontiguousarray(np.swapaxes(vals, -1, -2))).to(dt).swapaxes(-1, -2)
                same(orig_sum_patches(pt, idx, obj_shape), pu.sum_patches(pt, idx, obj_shape), "strided")
                if dt.is_complex:
                    pc = torch.conj(p)
                    same(orig_sum_patches(pc, idx, obj_shape), pu.sum_patches(pc, idx, obj_shape), "conj")
                n_cmp += 1

# non-finite values survive identically
p = torch.tensor([[complex(np.inf, 1.0), complex(2.0, np.nan)], [complex(-0.0, -0.0), 1j]])
idx = torch.tensor([[0, 3], [3, 5]])
same(orig_sum_patches(p, idx, (2, 3)), pu.sum_patches(p, idx, (2, 3)), "non-finite")

# gradients flow back to the patches identically
for dt in (torch.float64, torch.complex128):
    idx = torch.tensor(patch_indices((7, 5), (3, 4), rng.integers(0, 9, size=(6, 2))))
    base = torch.tensor(rng.normal(size=idx.shape) + 1j * rng.normal(size=idx.shape)).to(dt)
    w = torch.tensor(rng.normal(size=(7, 5)) + 1j * rng.normal(size=(7, 5))).to(dt)
    pa, pb = base.clone().requires_grad_(True), base.clone().requires_grad_(True)
    ra, rb = orig_sum_patches(pa, idx, (7, 5)), pu.sum_patches(pb, idx, (7, 5))
    same(ra, rb, "requires_grad result")
    (ra * w).abs().sum().backward()
    (rb * w).abs().sum().backward()
    assert torch.equal(pa.grad, pb.grad), "patch gradients differ"

# odd / bad inputs: identical outcome (same result, or same exception type)
good_p = torch.ones(2, 2, 2)
good_i = torch.tensor([[[0, 1], [3, 4]], [[1, 2], [4, 5]]])
outcomes = []
for what, (p, i, s) in {
    "scalar obj_shape": (good_p, good_i, 6),
    "empty obj_shape": (torch.ones(3), torch.zeros(3, dtype=torch.int64), ()),
    "zero-sized grid, no patches": (torch.ones(0), torch.zeros(0, dtype=torch.int64), (0, 4)),
    "float obj_shape": (good_p, good_i, (2.0, 3.0)),
    "ndarray obj_shape": (good_p, good_i, np.array([2, 3])),
    "tensor obj_shape": (good_p, good_i, torch.tensor([2, 3])),
    "tuple of 0-d tensors": (good_p, good_i, (torch.tensor(2), torch.tensor(3))),
    "index out of range": (good_p, good_i + 10, (2, 3)),
    "negative index": (good_p, good_i - 3, (2, 3)),
    "float indices": (good_p, good_i.double(), (2, 3)),
    "size mismatch": (good_p, good_i[:1], (2, 3)),
    "numpy patches": (np.ones((2, 2, 2)), good_i, (2, 3)),
    "numpy indices": (good_p, good_i.numpy(), (2, 3)),
    "list patches": ([1.0, 2.0], torch.tensor([0, 1]), (2, 3)),
    "None shape": (good_p, good_i, None),
    "string shape": (good_p, good_i, "23"),
    "negative dim": (good_p, good_i, (-2, -3)),
}.items():
    ok = same_outcome(
        lambda: orig_sum_patches(p, i, s), lambda: pu.sum_patches(p, i, s), "sum_patches: " + what
    )
    ok_b = same_outcome(
        lambda: orig_sum_patches_base(p, i, s),
        lambda: pu.sum_patches_base(p, i, s),
        "sum_patches_base: " + what,
    )
    outcomes.append((what, ok, ok_b))
assert any(ok for _, ok, _ in outcomes) and any(not ok for _, ok, _ in outcomes)

# ---------------------------------------------------------------- adjointness <A x, p> == <x, A^H p>
for obj_shape, roi, n in CASES:
    if n == 0:
        continue
    corners = rng.integers(-30, 30, size=(n, 2))
    idx = torch.tensor(patch_indices(obj_shape, roi, corners))
    x = torch.tensor(rng.normal(size=(1, *obj_shape)) + 1j * rng.normal(size=(1, *obj_shape)))
    p = torch.tensor(rng.normal(size=idx.shape) + 1j * rng.normal(size=idx.shape))
    Ax = ObjectBase._get_obj_patches(None, x, idx)[0]  # gather
    assert torch.equal(Ax, x.reshape(-1)[idx]), "extraction"
    AHp = pu.sum_patches(p, idx, obj_shape)  # scatter
    lhs = torch.sum(torch.conj(Ax) * p)
    rhs = torch.sum(torch.conj(x[0]) * AHp)
    assert torch.allclose(lhs, rhs, rtol=1e-12, atol=1e-10), ("adjoint", obj_shape, roi, n)
    # real patches: multiplicity count, total preserved
    counts = pu.sum_patches(torch.ones(idx.shape, dtype=torch.float64), idx, obj_shape)
    assert counts.sum().item() == idx.numel()
    assert torch.equal(counts, torch.bincount(idx.reshape(-1), minlength=counts.numel()).reshape(obj_shape).double())

# caller: batched probe-overlap accumulation (verbatim original vs current method)
from quantem.core.utils.utils import generate_batches  # noqa: E402


def orig_get_probe_overlap(self, max_batch_size=None):
    prb = self.probe_model.probe[0]
    num_dps = int(np.prod(self.gpts))
    shifted_probes = prb.expand(num_dps, *self.roi_shape)

    batch_size = num_dps if max_batch_size is None else int(max_batch_size)
    probe_overlap = torch.zeros(
        tuple(self.obj_shape_full[-2:]), dtype=self._dtype_real, device=self.device
    )
    for start, end in generate_batches(num_dps, max_batch=batch_size):
        probe_overlap += orig_sum_patches(
            torch.abs(shifted_probes[start:end]) ** 2,
            self.dset.patch_indices[start:end],
            tuple(self.obj_shape_full[-2:]),
        )
    return self._to_numpy(probe_overlap)


class StubPtycho:
    """Only what _get_probe_overlap touches; obj_shape_full is recomputed on every access."""

    def __init__(self, probe, gpts, roi, rot_shape, pad, idx, num_slices):
        self.probe_model = SimpleNamespace(probe=probe)
        self.gpts, self.roi_shape = gpts, np.array(roi)
        self._rot, self._pad, self._ns = np.array(rot_shape), np.array(pad), num_slices
        self._dtype_real, self.device = torch.float32, "cpu"
        self.dset = SimpleNamespace(patch_indices=idx)
        self.n_shape_reads = 0

    @property
    def obj_shape_full(self):
        self.n_shape_reads += 1
        return np.concatenate([[self._ns], (self._rot.copy() + 2 * self._pad).astype("int")])

    def _to_numpy(self, t):
        return t.detach().cpu().numpy()


for roi, gpts, rot_shape, pad, ns in [
    ((4, 5), (3, 4), (6, 8), (2, 2), 1),
    ((3, 3), (5, 2), (7, 5), (1, 3), 3),
    ((6, 2), (1, 7), (4, 9), (0, 1), 2),
]:
    full_shape = tuple(int(v) for v in (np.array(rot_shape) + 2 * np.array(pad)))
    corners = np.stack(
        np.meshgrid(np.arange(gpts[0]) * 2, np.arange(gpts[1]) * 3, indexing="ij"), -1
    ).reshape(-1, 2)
    idx = torch.tensor(patch_indices(full_shape, roi, corners), dtype=torch.int32)
    probe = torch.tensor(rng.normal(size=(2, *roi)) + 1j * rng.normal(size=(2, *roi))).to(
        torch.complex64
    )
    model = StubPtycho(probe, gpts, roi, rot_shape, pad, idx, ns)
    for bs in (None, 1, 5, len(idx), 4 * len(idx)):
        old = orig_get_probe_overlap(model, bs)
        new = PtychographyBase._get_probe_overlap(model, bs)
        assert old.dtype == new.dtype == np.float32 and old.shape == new.shape == full_shape
        assert np.array_equal(old, new), ("probe overlap", roi, gpts, bs)
    full = PtychographyBase._get_probe_overlap(model, None)
    assert np.isclose(full.sum(), len(idx) * float((probe[0].abs() ** 2).sum()), rtol=1e-5)

print(f"PASS ({n_cmp} old/new scatter comparisons bit-identical; "
      f"{sum(ok for _, ok, _ in outcomes)} odd inputs accepted identically, "
      f"{sum(not ok for _, ok, _ in outcomes)} rejected identically; adjoint identity holds)")
