"""Shared demo for the five C12 behaviour-preserving edits.

Embeds verbatim copies of the ORIGINAL (worktree HEAD) versions of the five edited
functions and asserts that the functions imported from the tree under test return
bit-identical results on a spread of inputs; additionally asserts parts of the C12
property itself (polar surface == Cartesian-basis expansion through the conversion,
analytic gradient == autograd gradient, fit round trip).

Run:  PYTHONPATH=<root>/src /venv/bin/python demo.py
"""

import math
from collections import defaultdict
from typing import Mapping

import torch

import quantem.diffractive_imaging.complex_probe as cp
import quantem.diffractive_imaging.direct_ptycho_utils as dpu
from quantem.diffractive_imaging.complex_probe import (
    POLAR_SYMBOLS,
    aberration_surface_polar_gradients,
    spatial_frequencies,
)
from quantem.diffractive_imaging.direct_ptycho_utils import ABERRATION_PRESETS, _torch_polar

torch.manual_seed(1234)


# --------------------------------------------------------------------------------------
# verbatim ORIGINAL copies
# --------------------------------------------------------------------------------------
def orig_aberration_surface(
    alpha: torch.Tensor,
    phi: torch.Tensor,
    wavelength: float,
    aberration_coefs: Mapping[str, float | torch.Tensor],
):
    """ """

    pi = math.pi
    alpha2 = alpha.square()
    chi = torch.zeros_like(alpha)

    # coefs = standardize_aberration_coefs(aberration_coefs)
    coefs = aberration_coefs

    def get(name, default=0.0):
        val = coefs.get(name, default)
        return val

    if any(k in coefs for k in ("C10", "C12", "phi12")):
        chi = chi + 0.5 * alpha2 * (get("C10") + get("C12") * torch.cos(2 * (phi - get("phi12"))))

    if any(k in coefs for k in ("C21", "phi21", "C23", "phi23")):
        chi = chi + (1 / 3) * alpha2 * alpha * (
            get("C21") * torch.cos(phi - get("phi21"))
            + get("C23") * torch.cos(3 * (phi - get("phi23")))
        )

    if any(k in coefs for k in ("C30", "C32", "phi32", "C34", "phi34")):
        chi = chi + (1 / 4) * alpha2.square() * (
            get("C30")
            + get("C32") * torch.cos(2 * (phi - get("phi32")))
            + get("C34") * torch.cos(4 * (phi - get("phi34")))
        )

    if any(k in coefs for k in ("C41", "phi41", "C43", "phi43", "C45", "phi45")):
        chi = chi + (1 / 5) * alpha2.square() * alpha * (
            get("C41") * torch.cos(phi - get("phi41"))
            + get("C43") * torch.cos(3 * (phi - get("phi43")))
            + get("C45") * torch.cos(5 * (phi - get("phi45")))
        )

    if any(k in coefs for k in ("C50", "C52", "phi52", "C54", "phi54", "C56", "phi56")):
        chi = chi + (1 / 6) * alpha2 * alpha2 * alpha2 * (
            get("C50")
            + get("C52") * torch.cos(2 * (phi - get("phi52")))
            + get("C54") * torch.cos(4 * (phi - get("phi54")))
            + get("C56") * torch.cos(6 * (phi - get("phi56")))
        )

    chi = 2 * pi / wavelength * chi
    return chi


def orig_aberration_surface_cartesian_gradients(
    alpha: torch.Tensor,
    phi: torch.Tensor,
    aberration_coefs: Mapping[str, float | torch.Tensor],
) -> tuple[torch.Tensor, torch.Tensor]:
    """
    Compute dchi/dx and dchi/dy from the polar derivatives.
    """
    dchi_dk, dchi_dphi = aberration_surface_polar_gradients(alpha, phi, aberration_coefs)
    cos_phi = torch.cos(phi)
    sin_phi = torch.sin(phi)

    dchi_dx = cos_phi * dchi_dk - sin_phi * dchi_dphi
    dchi_dy = sin_phi * dchi_dk + cos_phi * dchi_dphi

    return dchi_dx, dchi_dy


def orig_polar_to_cartesian_aberrations(polar, max_order=5, device=None, dtype=None):
    polar = defaultdict(lambda: torch.tensor(0.0, device=device, dtype=dtype), polar)
    cart = {}

    for n in range(1, max_order + 1):
        for s in range(0, n + 2):
            m = 2 * s - n - 1
            if m < 0:
                continue
            name = f"C{n}{m}"
            if m == 0:
                cart[name] = polar[name]
            else:
                phi = polar[f"phi{n}{m}"]
                C = polar[name]
                cart[f"{name}_a"] = C * torch.cos(m * phi)
                cart[f"{name}_b"] = C * torch.sin(m * phi)

    return cart


def orig_parse_cartesian_aberration_label(label: str) -> tuple[int, int, str | None]:
    """
    Parse 'Cnm', 'Cnm_a', 'Cnm_b'
    Returns (n, m, kind) where kind ∈ {None, 'a', 'b'}
    """

    base, *rest = label.split("_")
    kind = rest[0] if rest else None
    n = int(base[1])
    m = int(base[2])

    return n, m, kind


def orig_fit_aberrations_from_shifts(
    shifts_ang: torch.Tensor,
    bf_mask: torch.Tensor,
    wavelength: float,
    gpts: tuple[int, int],
    sampling: tuple[float, float],
) -> dict[str, float]:
    """ """
    device = shifts_ang.device

    # Get spatial frequencies at BF positions
    kxa, kya = spatial_frequencies(gpts, sampling, device=device)
    kvec = torch.dstack((kxa[bf_mask], kya[bf_mask])).view((-1, 2))
    basis = kvec * wavelength

    # Least-squares fit: shifts = basis @ M
    M = torch.linalg.lstsq(basis.cpu(), shifts_ang.cpu(), rcond=None)[0]
    # Decompose M = R @ A (rotation × aberration)
    M_rotation, M_aberration = _torch_polar(M)

    # Extract rotation angle
    rotation_rad = -torch.arctan2(M_rotation[1, 0], M_rotation[0, 0])

    # Handle angle wrapping and sign conventions
    if 2 * torch.abs(torch.remainder(rotation_rad + math.pi, 2 * math.pi) - math.pi) > math.pi:
        rotation_rad = torch.remainder(rotation_rad, 2 * math.pi) - math.pi
        M_aberration = -M_aberration

    # Extract aberration coefficients from symmetric matrix
    a = M_aberration[0, 0]
    b = (M_aberration[1, 0] + M_aberration[0, 1]) / 2  # Symmetrize
    c = M_aberration[1, 1]

    # Defocus (isotropic component)
    C10 = (a + c) / 2

    # 2-fold astigmatism (anisotropic component)
    C12a = (a - c) / 2
    C12b = b
    C12 = torch.sqrt(C12a**2 + C12b**2)
    phi12 = torch.arctan2(C12b, C12a) / 2

    return {
        "C10": C10.item(),
        "C12": C12.item(),
        "phi12": phi12.item(),
        "rotation_angle": rotation_rad.item(),
    }


# --------------------------------------------------------------------------------------
# helpers
# --------------------------------------------------------------------------------------
def bits_equal(a: torch.Tensor, b: torch.Tensor) -> bool:
    """dtype, shape and bit pattern identical (NaN-safe)."""
    if a.dtype != b.dtype or a.shape != b.shape:
        return False
    if a.is_complex():
        a, b = torch.view_as_real(a), torch.view_as_real(b)
    int_dtype = {4: torch.int32, 8: torch.int64, 2: torch.int16}[a.element_size()]
    return torch.equal(a.contiguous().view(int_dtype), b.contiguous().view(int_dtype))


def float_bits(x: float) -> bytes:
    import struct

    return struct.pack("<d", x)


def random_polar(dtype, as_tensor, subset=None):
    names = POLAR_SYMBOLS if subset is None else subset
    out = {}
    for name in names:
        if name.startswith("phi"):
            v = (torch.rand((), dtype=torch.float64) * 2 - 1).item() * math.pi
        else:
            n = int(name[1])
            v = torch.randn((), dtype=torch.float64).item() * 10.0 ** (n + 1)
        out[name] = torch.tensor(v, dtype=dtype) if as_tensor else v
    return out


def grids(dtype):
    out = []
    # regular FFT grid
    kx, ky = spatial_frequencies((24, 20), (0.31, 0.37), rotation_angle=0.3)
    k, phi = cp.polar_coordinates(kx, ky)
    out.append(((k * 0.0197).to(dtype), phi.to(dtype)))
    # random 1-D points, including the origin and large angles
    alpha = torch.cat([torch.zeros(1), torch.rand(63) * 0.05]).to(dtype)
    phi = torch.cat([torch.zeros(1), (torch.rand(63) * 2 - 1) * math.pi]).to(dtype)
    out.append((alpha, phi))
    # non-finite entries
    alpha = torch.tensor([0.0, 1e-3, float("inf"), float("nan"), 2e-2], dtype=dtype)
    phi = torch.tensor([0.0, float("inf"), 0.3, 1.0, float("nan")], dtype=dtype)
    out.append((alpha, phi))
    return out


SUBSETS = [
    None,
    (),
    ("C10",),
    ("C12", "phi12"),
    ("C10", "C12", "phi12"),
    ("C21", "phi21", "C23", "phi23"),
    ("C30", "C34", "phi34"),
    ("C41", "phi41", "C45", "phi45"),
    ("C50", "C52", "phi52", "C56", "phi56"),
    ("phi32",),
]


# --------------------------------------------------------------------------------------
# old == new, bit for bit
# --------------------------------------------------------------------------------------
def check_surface_and_gradients():
    n = 0
    for dtype in (torch.float32, torch.float64):
        for alpha, phi in grids(dtype):
            for subset in SUBSETS:
                for as_tensor in (False, True):
                    coefs = random_polar(dtype, as_tensor, subset)
                    for wavelength in (0.0197, 0.0251, 1.0):
                        new = cp.aberration_surface(alpha, phi, wavelength, coefs)
                        old = orig_aberration_surface(alpha, phi, wavelength, coefs)
                        assert bits_equal(new, old), ("aberration_surface", dtype, subset)
                        n += 1
                    new = cp.aberration_surface_cartesian_gradients(alpha, phi, coefs)
                    old = orig_aberration_surface_cartesian_gradients(alpha, phi, coefs)
                    assert isinstance(new, tuple) and len(new) == 2
                    assert bits_equal(new[0], old[0]) and bits_equal(new[1], old[1]), (
                        "cartesian_gradients",
                        dtype,
                        subset,
                    )
                    # keyword call form as used by direct_ptychography._return_lateral_shifts
                    new_kw = cp.aberration_surface_cartesian_gradients(
                        alpha, phi, aberration_coefs=coefs
                    )
                    assert bits_equal(new_kw[0], old[0]) and bits_equal(new_kw[1], old[1])
                    n += 1
    # a mapping that is not a dict and that counts look-ups: same access pattern
    class Counting(dict):
        def __init__(self, *a):
            super().__init__(*a)
            self.log = []

        def get(self, key, default=None):
            self.log.append((key, default))
            return super().get(key, default)

    alpha, phi = grids(torch.float32)[1]
    c_new, c_old = Counting(random_polar(torch.float32, False)), None
    c_old = Counting(dict(c_new))
    cp.aberration_surface(alpha, phi, 0.02, c_new)
    orig_aberration_surface(alpha, phi, 0.02, c_old)
    assert c_new.log == c_old.log and len(c_new.log) == 25
    # exceptions are the same type
    for bad in (None, 3):
        errs = []
        for fn in (cp.aberration_surface, orig_aberration_surface):
            try:
                fn(alpha, phi, 0.02, bad)
                errs.append(None)
            except Exception as e:  # noqa: BLE001
                errs.append(type(e))
        assert errs[0] is errs[1] and errs[0] is not None
    return n


def check_polar_to_cartesian():
    n = 0
    for dtype in (torch.float32, torch.float64):
        for subset in SUBSETS:
            polar = random_polar(dtype, True, subset)
            for max_order in (0, 1, 2, 3, 4, 5):
                for kwargs in ({}, {"dtype": dtype}, {"device": "cpu", "dtype": torch.float64}):
                    new = cp.polar_to_cartesian_aberrations(dict(polar), max_order, **kwargs)
                    old = orig_polar_to_cartesian_aberrations(dict(polar), max_order, **kwargs)
                    assert list(new.keys()) == list(old.keys()), (subset, max_order)
                    for key in new:
                        assert bits_equal(new[key], old[key]), (key, subset, max_order)
                    n += 1
    # the full set of labels is exactly the 'all' preset, in order
    full = cp.polar_to_cartesian_aberrations(random_polar(torch.float32, True))
    assert list(full.keys()) == ABERRATION_PRESETS["all"]
    # input mapping is not mutated
    polar = random_polar(torch.float32, True, ("C10",))
    cp.polar_to_cartesian_aberrations(polar)
    assert list(polar.keys()) == ["C10"]
    return n


def check_parse_label():
    labels = list(ABERRATION_PRESETS["all"]) + [
        "C12_c",
        "C12_a_b",
        "C12_",
        "C345",
        "C56_b",
        "C1",
        "",
        "Cxy",
        "_a",
        "C12__a",
    ]
    n = 0
    for label in labels:
        res = []
        for fn in (cp.parse_cartesian_aberration_label, orig_parse_cartesian_aberration_label):
            try:
                res.append(("ok", fn(label)))
            except Exception as e:  # noqa: BLE001
                res.append(("err", type(e), str(e)))
        assert res[0] == res[1], (label, res)
        n += 1
    assert cp.parse_cartesian_aberration_label("C10") == (1, 0, None)
    assert cp.parse_cartesian_aberration_label("C23_b") == (2, 3, "b")
    return n


def make_shifts(gpts, sampling, wavelength, bf_mask, C10, C12, phi12, rotation, dtype):
    kxa, kya = spatial_frequencies(gpts, sampling, rotation_angle=rotation)
    k, phi = cp.polar_coordinates(kxa, kya)
    coefs = {"C10": C10, "C12": C12, "phi12": phi12}
    dx, dy = orig_aberration_surface_cartesian_gradients(k * wavelength, phi, coefs)
    return (torch.stack((dx[bf_mask], dy[bf_mask]), -1) / 2 / math.pi).to(dtype)


def check_fit():
    import numpy as np

    n = 0
    gpts, sampling = (32, 28), (0.4, 0.45)
    kxa, kya = spatial_frequencies(gpts, sampling)
    for wavelength in (0.0197, 0.0251, np.float64(0.0197), torch.tensor(0.0335)):
        bf_mask = torch.sqrt(kxa**2 + kya**2) * float(wavelength) <= 0.012
        assert bf_mask.sum() > 10
        for dtype in (torch.float32, torch.float64):
            for C10, C12, phi12, rot in [
                (-200.0, 30.0, 0.4, 0.25),
                (150.0, 0.0, 0.0, 0.0),
                (-500.0, 120.0, -1.1, -0.7),
                (80.0, 75.0, 1.3, 1.2),
                (-120.0, 10.0, 0.2, 2.9),
                (300.0, 50.0, -0.6, -2.5),
            ]:
                shifts = make_shifts(
                    gpts, sampling, float(wavelength), bf_mask, C10, C12, phi12, rot, dtype
                )
                if dtype == torch.float64:
                    # lstsq needs matching dtypes: basis is float32 -> expect identical failure
                    errs = []
                    for fn in (dpu.fit_aberrations_from_shifts, orig_fit_aberrations_from_shifts):
                        try:
                            fn(shifts, bf_mask, wavelength, gpts, sampling)
                            errs.append(None)
                        except Exception as e:  # noqa: BLE001
                            errs.append(type(e))
                    assert errs[0] is errs[1]
                    continue
                for noise in (0.0, 0.05):
                    s = shifts + noise * torch.randn_like(shifts)
                    new = dpu.fit_aberrations_from_shifts(s, bf_mask, wavelength, gpts, sampling)
                    old = orig_fit_aberrations_from_shifts(s, bf_mask, wavelength, gpts, sampling)
                    assert list(new.keys()) == list(old.keys())
                    for key in new:
                        assert float_bits(new[key]) == float_bits(old[key]), (key, new, old)
                    n += 1
                # property: round trip within the identifiable domain |rot| < pi/2
                if abs(rot) < math.pi / 2:
                    res = dpu.fit_aberrations_from_shifts(
                        shifts, bf_mask, wavelength, gpts, sampling
                    )
                    assert abs(res["C10"] - C10) < 1e-2 * max(1.0, abs(C10)), (res, C10)
                    assert abs(res["C12"] - C12) < 1e-2 * max(1.0, abs(C10)), (res, C12)
                    assert abs(res["rotation_angle"] - rot) < 1e-3, (res, rot)
                    if C12 > 1.0:
                        d = (res["phi12"] - phi12 + math.pi / 2) % math.pi - math.pi / 2
                        assert abs(d) < 1e-2, (res, phi12)
    return n


# --------------------------------------------------------------------------------------
# property spot checks on the tree under test
# --------------------------------------------------------------------------------------
def check_property():
    dtype = torch.float64
    wavelength = 0.0197
    alpha = (torch.rand(200, dtype=dtype) * 0.03).requires_grad_(False)
    phi = (torch.rand(200, dtype=dtype) * 2 - 1) * math.pi
    polar = random_polar(dtype, True)

    # polar surface == Cartesian-basis expansion with converted coefficients
    cart = cp.polar_to_cartesian_aberrations(polar, dtype=dtype)
    labels = list(cart.keys())
    basis = cp.aberration_surface_cartesian_basis(alpha, phi, wavelength, labels)
    assert basis.shape == (200, 25)
    chi_cart = basis @ torch.stack([cart[k] for k in labels])
    chi_polar = cp.aberration_surface(alpha, phi, wavelength, polar)
    assert torch.allclose(chi_cart, chi_polar, rtol=1e-9, atol=1e-9 * chi_polar.abs().max())

    # conversion round trip describes the same function
    back = cp.cartesian_to_polar_aberrations(cart)
    chi_back = cp.aberration_surface(alpha, phi, wavelength, back)
    assert torch.allclose(chi_back, chi_polar, rtol=1e-9, atol=1e-9 * chi_polar.abs().max())

    # analytic Cartesian gradient == wavelength * autograd gradient of the surface
    ax = (alpha * torch.cos(phi)).clone().requires_grad_(True)
    ay = (alpha * torch.sin(phi)).clone().requires_grad_(True)
    a = torch.sqrt(ax**2 + ay**2)
    p = torch.atan2(ay, ax)
    chi = cp.aberration_surface(a, p, wavelength, polar)
    gx, gy = torch.autograd.grad(chi.sum(), (ax, ay))
    dx, dy = cp.aberration_surface_cartesian_gradients(alpha, phi, polar)
    scale = max(gx.abs().max(), gy.abs().max()) * wavelength
    assert torch.allclose(dx, wavelength * gx, rtol=1e-7, atol=1e-9 * scale)
    assert torch.allclose(dy, wavelength * gy, rtol=1e-7, atol=1e-9 * scale)

    # defocus alias means C10 = -defocus
    std = cp.standardize_aberration_coefs({"defocus": 123.0, "Cs": 5.0})
    assert std["C10"].item() == -123.0 and std["C30"].item() == 5.0


if __name__ == "__main__":
    counts = {
        "surface+gradients": check_surface_and_gradients(),
        "polar_to_cartesian": check_polar_to_cartesian(),
        "parse_label": check_parse_label(),
        "fit": check_fit(),
    }
    check_property()
    print("OK", counts)
