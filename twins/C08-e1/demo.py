"""C08 demo 1 -- existence check / mode handling of AutoSerialize.save.

Runs the save() found on PYTHONPATH and a verbatim copy of the ORIGINAL save() side by side on the
same scenarios (both stores, both modes, no / good / foreign-file / foreign-directory pre-existing
target, fault injected at every write operation, bad arguments) and asserts

 * the property: a failing save never leaves a loadable partial object, write-once ('w') never
   modifies an existing target, nothing but the target is ever altered (siblings, temp directory);
 * old == new: same outcome (exception type and text), same sequence of write operations, same
   filesystem state afterwards.

Usage: PYTHONPATH=<root>/src /venv/bin/python demo.py
"""

import contextlib
import functools
import gzip
import io
import os
import shutil
import sys
import tempfile
import zipfile
from pathlib import Path
from typing import Literal, Sequence, Union
from zipfile import ZipFile

import numpy as np
import torch
import zarr
from zarr.core.attributes import Attributes
from zarr.storage import LocalStore

from quantem.core.io.serialize import AutoSerialize, load

# (store, mode, pre-existing target) combinations whose fault position is swept exhaustively;
# the other combinations are sampled
FULL_SWEEP = {
    ("zip", "o", "good"),
    ("dir", "o", "good"),
}
SAMPLE_STEP = 6
BAD_ARGUMENT_MATRIX = True


def BIG_POSITIONS(n):
    """Fault positions tried on the wide object graph."""
    return [1, n // 2, n - 1]


# --------------------------------------------------------------------------------------------
# Verbatim copy of the ORIGINAL AutoSerialize.save (worktree HEAD), as a free function
# --------------------------------------------------------------------------------------------
def orig_save(
    self,
    path: str | Path,
    mode: Literal["w", "o"] = "w",
    store: Literal["auto", "zip", "dir"] = "auto",
    skip: Union[str, type, Sequence[Union[str, type]]] = (),
    compression_level: int | None = 4,
) -> None:
    # Validate compression level
    if compression_level is not None:
        if not (0 <= compression_level <= 9):
            raise ValueError(f"compression_level must be between 0 and 9, got {compression_level}")
        compressors = [
            {
                "name": "blosc",
                "configuration": {
                    "cname": "zstd",
                    "clevel": int(compression_level),
                    "shuffle": "bitshuffle",
                },
            }
        ]
    else:
        compressors = None

    path = str(path)
    # Auto-infer storage format if needed
    if store == "auto":
        store = "zip" if path.endswith(".zip") else "dir"

    # Ensure .zip extension if requested
    if store == "zip" and not path.endswith(".zip"):
        print(f"Warning: appending .zip to path '{path}'")
        path += ".zip"

    # Handle overwrite vs. write protection
    if os.path.exists(path):
        if mode == "o":
            if os.path.isdir(path):
                shutil.rmtree(path)
            else:
                os.remove(path)
        else:
            raise FileExistsError(f"File '{path}' already exists. Use mode='o' to overwrite.")

    # Normalize skip argument (split to names and types)
    if isinstance(skip, (str, type)):
        skip = [skip]
    skip_names = {s for s in skip if isinstance(s, str)}
    skip_types = tuple(s for s in skip if isinstance(s, type))

    def write_skip_metadata(root):
        # Store skip info as attributes for correct deserialization
        root.attrs["_autoserialize_skip_names"] = list(skip_names)
        root.attrs["_autoserialize_skip_types"] = [
            f"{t.__module__}.{t.__qualname__}" for t in skip_types
        ]

    # Main branch: choose between zip and directory storage
    if store == "zip":
        # Always use tempdir for safe atomic write
        with tempfile.TemporaryDirectory() as tmpdir:
            store_obj = LocalStore(tmpdir)
            root = zarr.group(store=store_obj, overwrite=True)
            self._recursive_save(self, root, skip_names, skip_types, compressors)
            write_skip_metadata(root)
            # Zip up all files in tempdir
            try:
                with ZipFile(path, mode="w") as zf:
                    for dirpath, _, filenames in os.walk(tmpdir):
                        for filename in filenames:
                            full_path = os.path.join(dirpath, filename)
                            rel_path = os.path.relpath(full_path, tmpdir)
                            zf.write(full_path, arcname=rel_path)
            except BaseException:
                # Never leave a partial (but readable) archive behind
                if os.path.exists(path):
                    os.remove(path)
                raise
    elif store == "dir":
        # Directory mode requires no extension
        if os.path.splitext(path)[1]:
            raise ValueError(
                f"Expected a directory path for store='dir', but got file-like path '{path}'"
            )
        try:
            os.makedirs(path, exist_ok=True)
            store_obj = LocalStore(path)
            root = zarr.group(store=store_obj, overwrite=True)
            self._recursive_save(self, root, skip_names, skip_types, compressors)
            write_skip_metadata(root)
        except BaseException:
            # The target did not exist (or was removed above): never leave a partial,
            # but loadable, object behind when serialisation fails part-way
            shutil.rmtree(path, ignore_errors=True)
            raise
    else:
        raise ValueError(f"Unknown store type: {store}")


def new_save(self, *args, **kwargs):
    # whatever save() the tree on PYTHONPATH provides
    return AutoSerialize.save(self, *args, **kwargs)


# --------------------------------------------------------------------------------------------
# Object graphs
# --------------------------------------------------------------------------------------------
class Leaf(AutoSerialize):
    def __init__(self, n):
        self.arr = np.arange(n * 3, dtype=np.float32).reshape(n, 3)
        self.tag = f"leaf{n}"


class Small(AutoSerialize):
    """Small graph: swept exhaustively over every fault position."""

    def __init__(self, seed=0):
        self.a = 3 + seed
        self.arr = np.arange(15, dtype=np.int16).reshape(3, 5) + seed
        self.child = Leaf(2 + seed)
        self.name = "small"


class Big(AutoSerialize):
    """Wider graph: every serializer branch that writes values, arrays and bytes."""

    def __init__(self, seed=0):
        self.a = 3 + seed
        self.none = None
        self.arr = np.arange(21, dtype=np.float64).reshape(3, 7) * (seed + 1)
        self.scalar_arr = np.array(7.0)
        self.empty = np.zeros((4, 0, 2), dtype=np.uint8)
        self.t = torch.arange(6.0).reshape(2, 3) + seed
        self.ints = (1, 2, 3 + seed)
        self.mixed = [1.5, "a", np.ones(2)]
        self.d = {"k": True, "leaf": Leaf(1)}
        self.s = {1, 2, 5}
        self.child = Leaf(4)
        self.p = Path("/some/where")
        self.blob = complex(1, 2 + seed)  # dill fallback


class Unpicklable:
    def __reduce_ex__(self, protocol):
        raise TypeError("refuses to be pickled")


class Poisoned(AutoSerialize):
    """Carries an attribute nothing can serialise (even dill refuses), at a chosen position."""

    def __init__(self, position):
        fields = [("a", 1), ("arr", np.arange(6).reshape(2, 3)), ("child", Leaf(2)), ("z", "end")]
        bad = Unpicklable() if position % 2 else (i for i in range(3))
        fields.insert(position, ("bad", bad))
        for key, val in fields:
            setattr(self, key, val)


def same(x, y):
    if type(x) is not type(y):
        return False
    if isinstance(x, np.ndarray):
        return x.dtype == y.dtype and x.shape == y.shape and np.array_equal(x, y)
    if isinstance(x, torch.Tensor):
        return x.dtype == y.dtype and x.shape == y.shape and bool(torch.equal(x, y))
    if isinstance(x, AutoSerialize):
        return same(x.__dict__, y.__dict__)
    if isinstance(x, dict):
        return set(x) == set(y) and all(same(x[k], y[k]) for k in x)
    if isinstance(x, (list, tuple)):
        return len(x) == len(y) and all(same(p, q) for p, q in zip(x, y))
    return x == y


# --------------------------------------------------------------------------------------------
# Fault injection on the serializer's write operations and the zip assembly
# --------------------------------------------------------------------------------------------
class Boom(Exception):
    pass


class Injector:
    """Counts write operations; raises `exc` just before operation number `fail_at`."""

    def __init__(self):
        self.armed = False
        self.fail_at = None
        self.exc = Boom
        self.trace = []

    def hit(self, label):
        if not self.armed:
            return
        k = len(self.trace)
        self.trace.append(label)
        if self.fail_at is not None and k == self.fail_at:
            raise self.exc(f"injected at op {k}: {label}")


INJ = Injector()

# gzip.compress stamps the current time into its header: pin it so that two runs of the same
# scenario (old save / new save) produce byte-identical fallback blobs
gzip.compress = functools.partial(gzip.compress, mtime=0)


def _wrap_method(cls, name, labeller, after=False):
    """Count calls of cls.name as write operations (labeller -> None: not a write operation).

    after=False: the injected fault replaces the operation; after=True: the operation is carried
    out and the fault is raised once it is complete (a failure reported late).
    """
    original = getattr(cls, name)

    def wrapper(self, *args, **kwargs):
        label = labeller(self, *args, **kwargs) if INJ.armed else None
        if label is None:
            return original(self, *args, **kwargs)
        if after:
            result = original(self, *args, **kwargs)
            INJ.hit(label)
            return result
        INJ.hit(label)
        return original(self, *args, **kwargs)

    wrapper.__name__ = name
    setattr(cls, name, wrapper)


def _wrap_module_func(module, name, labeller):
    original = getattr(module, name)

    def wrapper(*args, **kwargs):
        INJ.hit(labeller(*args, **kwargs))
        return original(*args, **kwargs)

    wrapper.__name__ = name
    setattr(module, name, wrapper)


def _zip_mode(self, file=None, mode="r", *a, **kw):
    return "zipopen" if mode == "w" else None


_wrap_method(Attributes, "__setitem__", lambda self, key, value: f"attr:{key}")
_wrap_method(zarr.Group, "require_group", lambda self, name, **kw: f"group:{name}")
_wrap_method(
    zarr.Group, "create_array", lambda self, name=None, **kw: f"create:{name}:{kw.get('shape')}"
)
_wrap_method(zarr.Array, "__setitem__", lambda self, sel, value: "data")
_wrap_module_func(zarr, "group", lambda *a, **kw: f"zarr.group:overwrite={kw.get('overwrite')}")
# zip assembly: creating the archive (fault after the file exists), adding a member (fault instead
# of the member), closing the archive (fault after the archive is complete on disk)
_wrap_method(zipfile.ZipFile, "__init__", _zip_mode, after=True)
_wrap_method(
    zipfile.ZipFile,
    "write",
    lambda self, filename, arcname=None, *a, **kw: f"zipwrite:{arcname}",
)
_wrap_method(
    zipfile.ZipFile,
    "close",
    lambda self: "zipclose" if (self.fp is not None and self.mode == "w") else None,
    after=True,
)


# --------------------------------------------------------------------------------------------
# Filesystem snapshots
# --------------------------------------------------------------------------------------------
def snapshot(root):
    """{relative path: description}; zip archives are described by their ordered members."""
    snap = {}
    for dirpath, dirnames, filenames in os.walk(root):
        for d in dirnames:
            snap[os.path.relpath(os.path.join(dirpath, d), root) + "/"] = "dir"
        for f in filenames:
            full = os.path.join(dirpath, f)
            rel = os.path.relpath(full, root)
            data = Path(full).read_bytes()
            if zipfile.is_zipfile(full):
                with ZipFile(full) as zf:
                    snap[rel] = ("zip", tuple((n, zf.read(n)) for n in zf.namelist()))
            else:
                snap[rel] = ("raw", data)
    return snap


def under(snap, name):
    return {k: v for k, v in snap.items() if k == name or k.startswith(name + "/")}


def not_under(snap, name):
    return {k: v for k, v in snap.items() if not (k == name or k.startswith(name + "/"))}


# --------------------------------------------------------------------------------------------
# One scenario
# --------------------------------------------------------------------------------------------
def run_scenario(
    save_fn,
    make_obj,
    target_name,
    *,
    store="auto",
    mode="w",
    pre=None,
    fail_at=None,
    exc=Boom,
    save_kwargs=None,
    final_name=None,
    as_path_object=False,
):
    """Run one save in a fresh sandbox; check the property; return a comparable record."""
    save_kwargs = dict(save_kwargs or {})
    final_name = final_name or target_name
    with tempfile.TemporaryDirectory() as top:
        work = os.path.join(top, "work")
        scratch = os.path.join(top, "scratch")
        os.mkdir(work)
        os.mkdir(scratch)
        # siblings that must never change
        Path(work, "sibling.txt").write_text("keep me")
        os.mkdir(os.path.join(work, "sibdir"))
        Path(work, "sibdir", "f.bin").write_bytes(b"\x00\x01\x02")
        if os.path.isdir(os.path.dirname(os.path.join(work, final_name))):
            Path(work, final_name + "_neighbour").write_text("neighbour")
            if final_name.endswith(".zip"):
                Path(work, final_name[: -len(".zip")] + ".txt").write_text("same stem")

        target = os.path.join(work, target_name)
        final = os.path.join(work, final_name)
        earlier = None
        if pre == "good":
            earlier = make_obj(seed=5) if make_obj in (Small, Big) else Small(seed=5)
            with contextlib.redirect_stdout(io.StringIO()):
                orig_save(earlier, final, store="zip" if final.endswith(".zip") else "dir")
        elif pre == "file":
            Path(final).write_bytes(b"not an archive at all")
        elif pre == "dir":
            os.mkdir(final)
            Path(final, "stranger.dat").write_bytes(b"foreign content")
        elif pre is not None:
            raise AssertionError(pre)

        before = snapshot(work)
        obj = make_obj()
        old_tmp = tempfile.tempdir
        tempfile.tempdir = scratch
        INJ.trace = []
        INJ.fail_at = fail_at
        INJ.exc = exc
        INJ.armed = True
        out = io.StringIO()
        try:
            with contextlib.redirect_stdout(out):
                save_fn(
                    obj,
                    Path(target) if as_path_object else target,
                    mode=mode,
                    store=store,
                    **save_kwargs,
                )
            outcome = ("ok", "")
        except BaseException as e:  # noqa: BLE001 - KeyboardInterrupt is injected on purpose
            outcome = (type(e).__name__, str(e).replace(top, "<TOP>"))
        finally:
            INJ.armed = False
            tempfile.tempdir = old_tmp
        trace = list(INJ.trace)
        after = snapshot(work)
        leftovers = os.listdir(scratch)

        # ---- the property ----
        ctx = f"[{save_fn.__name__} {make_obj.__name__} {target_name} store={store} mode={mode} pre={pre} k={fail_at} -> {outcome}]"
        assert leftovers == [], f"{ctx} temp files left behind: {leftovers}"
        assert not_under(after, final_name) == not_under(before, final_name), (
            f"{ctx} a path other than the target was altered"
        )
        if mode != "o" and pre is not None:
            # write-once: existing target untouched, nothing written at all
            assert outcome[0] in ("FileExistsError", "ValueError"), ctx
            assert after == before, f"{ctx} write-once modified an existing target"
            assert trace == [], f"{ctx} write-once performed writes {trace}"
        if outcome[0] == "ok":
            with contextlib.redirect_stdout(io.StringIO()):
                back = load(final)
            if "skip" not in save_kwargs:
                assert same(back.__dict__, obj.__dict__), f"{ctx} save does not round-trip"
            else:
                assert set(back.__dict__) <= set(obj.__dict__), ctx
        elif os.path.lexists(final):
            # failed save: whatever sits at the target must not load to a partial object
            try:
                with contextlib.redirect_stdout(io.StringIO()):
                    back = load(final)
            except BaseException:  # noqa: BLE001
                back = None
            if back is not None:
                complete = [obj.__dict__] + ([earlier.__dict__] if earlier is not None else [])
                assert any(same(back.__dict__, c) for c in complete), (
                    f"{ctx} a PARTIAL object is loadable after a failed save: "
                    f"{sorted(back.__dict__)}"
                )
                # a failing save never completes the new object
                if earlier is not None:
                    assert same(back.__dict__, earlier.__dict__), ctx
        return {
            "outcome": outcome,
            "trace": trace,
            "after": after,
            "stdout": out.getvalue().replace(top, "<TOP>"),
        }


N_SCENARIOS = 0


def both(make_obj, target_name, **kw):
    """Run old and new on the same scenario and require identical observable behaviour."""
    global N_SCENARIOS
    N_SCENARIOS += 1
    old = run_scenario(orig_save, make_obj, target_name, **kw)
    new = run_scenario(new_save, make_obj, target_name, **kw)
    ctx = f"{make_obj.__name__} {target_name} {kw}"
    assert old["outcome"] == new["outcome"], f"{ctx}: outcome {old['outcome']} != {new['outcome']}"
    assert old["trace"] == new["trace"], f"{ctx}: write sequences differ"
    assert old["stdout"] == new["stdout"], f"{ctx}: printed text differs"
    assert old["after"].keys() == new["after"].keys(), (
        f"{ctx}: files differ {sorted(set(old['after']) ^ set(new['after']))}"
    )
    assert old["after"] == new["after"], f"{ctx}: file contents differ"
    return new


def count_ops(make_obj, target_name, **kw):
    rec = both(make_obj, target_name, **kw)
    assert rec["outcome"][0] == "ok", rec["outcome"]
    return len(rec["trace"])


def stride(n, step):
    ks = set(range(0, n, step)) | {0, 1, n - 2, n - 1}
    return sorted(k for k in ks if 0 <= k < n)


# --------------------------------------------------------------------------------------------
# Sweeps
# --------------------------------------------------------------------------------------------
def main():
    targets = {"zip": "obj.zip", "dir": "objdir"}
    all_pres = [None, "good", "file", "dir"]

    # 1. mode x pre-existing x store, without and with a fault at position k
    for store, name in targets.items():
        n_small = count_ops(Small, name, store=store)
        assert n_small >= 12, n_small
        for mode in ("w", "o"):
            for pre in all_pres:
                rec = both(Small, name, store=store, mode=mode, pre=pre)
                if pre is None or mode == "o":
                    assert rec["outcome"][0] == "ok", rec["outcome"]
                else:
                    assert rec["outcome"][0] == "FileExistsError", rec["outcome"]
                if mode == "w" and pre is not None:
                    ks = [0]  # refused before any write: the fault position is irrelevant
                elif (store, mode, pre) in FULL_SWEEP:
                    ks = range(n_small)
                else:
                    ks = stride(n_small, SAMPLE_STEP)
                for k in ks:
                    rec = both(Small, name, store=store, mode=mode, pre=pre, fail_at=k)
                    if pre is None or mode == "o":
                        assert rec["outcome"][0] == "Boom", (k, rec["outcome"])
                        # the current implementation always leaves the target absent
                        assert not under(rec["after"], name), (store, mode, pre, k)

    # 2. auto store inference, Path objects, appended extension, odd names
    both(Small, "auto_dir", store="auto")
    both(Small, "auto.zip", store="auto", as_path_object=True)
    both(Small, "noext", store="zip", final_name="noext.zip")
    both(Small, "noext", store="zip", final_name="noext.zip", pre="good")
    both(Small, "noext", store="zip", final_name="noext.zip", pre="good", mode="o")
    both(Small, "noext", store="zip", final_name="noext.zip", pre="dir", mode="o", fail_at=3)
    both(Small, "weird name.v2.zip", store="auto", pre="file", mode="o")
    both(Small, "UPPER.ZIP", store="auto")  # not '.zip' -> dir store -> extension error
    both(Small, "UPPER.ZIP", store="auto", pre="file", mode="o")
    rec = both(Small, "no_such_parent/obj.zip", store="zip")  # the archive cannot be created
    assert rec["outcome"][0] == "FileNotFoundError", rec["outcome"]

    # 3. bad arguments, with and without an existing target (including what is removed first)
    matrix = (
        [(None, "w"), (None, "o"), ("good", "w"), ("good", "o"), ("dir", "o"), ("dir", "x")]
        if BAD_ARGUMENT_MATRIX
        else [(None, "w"), ("good", "o"), ("dir", "w")]
    )
    for pre, mode in matrix:
        both(Small, "objdir", store="bogus", mode=mode, pre=pre)
        both(Small, "thing.dat", store="dir", mode=mode, pre="file" if pre else None)
        both(Small, "obj.zip", store="zip", mode=mode, pre=pre, save_kwargs={"skip": 5})
        both(Small, "obj.zip", mode=mode, pre=pre, save_kwargs={"compression_level": 11})
        both(Small, "objdir", mode=mode, pre=pre, save_kwargs={"compression_level": -1})
    both(Small, "obj.zip", save_kwargs={"compression_level": None})
    both(Small, "objdir", save_kwargs={"compression_level": 0}, pre="good", mode="o")
    both(Small, "objdir", save_kwargs={"skip": "arr"})
    both(Small, "obj.zip", save_kwargs={"skip": ["name", Leaf]}, pre="good", mode="o")
    both(Small, "objdir", save_kwargs={"skip": np.ndarray}, pre="dir", mode="o")

    # 4. unserialisable attribute at every position, both stores, several pre-existing states
    for position in range(5):
        maker = lambda seed=0, position=position: Poisoned(position)  # noqa: E731
        maker.__name__ = f"Poisoned{position}"
        for store, name in targets.items():
            combos = [("w", None), ("o", "good")]
            if position % 2:
                combos.append(("w", "good"))
            else:
                combos.append(("o", "dir") if store == "zip" else ("o", "file"))
            for mode, pre in combos:
                rec = both(maker, name, store=store, mode=mode, pre=pre)
                if mode == "w" and pre:
                    assert rec["outcome"][0] == "FileExistsError"
                else:
                    assert rec["outcome"] == ("TypeError", rec["outcome"][1]), rec["outcome"]
                    assert not under(rec["after"], name)

    # 5. the wide graph (every serializer branch): sampled fault positions, BaseException faults
    for store, name in targets.items():
        n_big = count_ops(Big, name, store=store)
        assert n_big > 40, n_big
        for k in BIG_POSITIONS(n_big):
            rec = both(Big, name, store=store, mode="w", fail_at=k)
            assert rec["outcome"][0] == "Boom" and not under(rec["after"], name)
        both(Big, name, store=store, mode="o", pre="good", fail_at=n_big // 2)
        both(Big, name, store=store, mode="o", pre="good", fail_at=n_big - 1)
        both(Big, name, store=store, mode="o", fail_at=n_big - 1, exc=KeyboardInterrupt)
        both(Big, name, store=store, mode="o", pre="file", fail_at=n_big // 3, exc=SystemExit)

    # 6. multi-step sequences on one path with the tree's own save: ok, fail, ok, protected
    with tempfile.TemporaryDirectory() as top:
        for name in ("seq.zip", "seqdir"):
            path = os.path.join(top, name)
            with contextlib.redirect_stdout(io.StringIO()):
                Small(1).save(path)
                try:
                    Poisoned(2).save(path)
                    raise AssertionError("expected FileExistsError")
                except FileExistsError:
                    pass
                assert same(load(path).__dict__, Small(1).__dict__)
                try:
                    Poisoned(2).save(path, mode="o")
                    raise AssertionError("expected TypeError")
                except TypeError:
                    pass
                assert not os.path.lexists(path)
                Small(2).save(path, mode="o")
                Small(3).save(path, mode="o")
                assert same(load(path).__dict__, Small(3).__dict__)
                try:
                    Small(4).save(path, mode="w")
                    raise AssertionError("expected FileExistsError")
                except FileExistsError:
                    pass
                assert same(load(path).__dict__, Small(3).__dict__)
        assert sorted(os.listdir(top)) == ["seq.zip", "seqdir"]

    print(f"PASS ({N_SCENARIOS} scenarios, old and new save() agree and the property holds)")


if __name__ == "__main__":
    main()
    sys.exit(0)
