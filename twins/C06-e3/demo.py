"""Demo for C06 patch 3: Dataset.pad (symmetric floor/ceil padding to an output shape) and
Dataset.crop (per-axis (start, stop) slicing).

Checks, on a spread of shapes (1..4-D, odd/even), dtypes, output shapes, pad widths and modes:
  * pad / crop agree exactly with verbatim copies of the ORIGINAL implementations
    (array + dtype, untouched metadata, names, raised exceptions, in-place and out-of-place);
  * the property: padding to an output shape uses (floor, ceil) of half the excess on each
    axis (never negative), and cropping those pad widths returns the original data exactly;
    same for explicit pad widths.
"""

import itertools

import numpy as np

from quantem.core.datastructures.dataset import Dataset


# --------------------------------------------------------------------------------------
# verbatim copies of the ORIGINAL Dataset.pad / Dataset.crop bodies (free functions)
# --------------------------------------------------------------------------------------
def pad_original(self, pad_width=None, output_shape=None, modify_in_place=False, **kwargs):
    if pad_width is not None:
        if output_shape is not None:
            raise ValueError("pad_width and output_shape cannot both be specified.")
        padded_array = np.pad(self.array, pad_width=pad_width, **kwargs)
    elif output_shape is not None:
        if len(output_shape) != self.ndim:
            raise ValueError("output_shape must be a tuple of length ndim.")
        padded_array = np.pad(
            self.array,
            pad_width=[
                (
                    max(0, int(np.floor((output_shape[i] - self.shape[i]) / 2))),
                    max(0, int(np.ceil((output_shape[i] - self.shape[i]) / 2))),
                )
                for i in range(self.ndim)
            ],
            **kwargs,
        )
    else:
        raise ValueError("pad_width or output_shape must be specified.")

    if modify_in_place:
        self._array = padded_array
        return None

    new_dataset = self.copy()
    new_dataset.array = padded_array
    new_dataset.name = self.name + " (padded)"
    return new_dataset


def crop_original(self, crop_widths, axes=None, modify_in_place=False):
    if axes is None:
        if len(crop_widths) != self.ndim:
            raise ValueError("crop_widths must match number of dimensions when axes is None.")
        axes = tuple(range(self.ndim))
    elif isinstance(axes, int | float):
        axes = (int(axes),)
        crop_widths = (crop_widths[0],)  # Take first crop_width for single axis
    else:
        axes = tuple(int(a) for a in axes)

    if len(crop_widths) != len(axes):
        raise ValueError("Length of crop_widths must match length of axes.")

    full_slices = []
    crop_dict = dict(zip(axes, crop_widths))
    for axis, _ in enumerate(self.shape):
        if axis in crop_dict:
            before, after = crop_dict[axis]
            start = before
            stop = after if after != 0 else None
            full_slices.append(slice(start, stop))
        else:
            full_slices.append(slice(None))

    if modify_in_place is False:
        dataset = self.copy()
        dataset.array = dataset.array[tuple(full_slices)]
        return dataset

    self.array = self.array[tuple(full_slices)]
    return None


# --------------------------------------------------------------------------------------
rng = np.random.default_rng(777)


def make_array(shape, dtype):
    dtype = np.dtype(dtype)
    if dtype.kind in "iu":
        return rng.integers(1, 50, size=shape).astype(dtype)
    if dtype.kind == "c":
        return (rng.normal(size=shape) + 1j * rng.normal(size=shape)).astype(dtype)
    return rng.normal(size=shape).astype(dtype)


def make_ds(shape, dtype):
    nd = len(shape)
    return Dataset.from_array(
        make_array(shape, dtype),
        name="demo",
        origin=rng.normal(size=nd) * 3.0,
        sampling=rng.uniform(0.1, 2.5, size=nd),
        units=["nm"] * nd,
    )


def same_dataset(a, b):
    assert type(a) is type(b)
    assert a.array.dtype == b.array.dtype, (a.array.dtype, b.array.dtype)
    assert a.array.shape == b.array.shape, (a.array.shape, b.array.shape)
    assert np.array_equal(a.array, b.array)
    assert np.array_equal(a.sampling, b.sampling) and np.array_equal(a.origin, b.origin)
    assert a.name == b.name and a.units == b.units


def run(fn, *args, **kwargs):
    try:
        return ("ok", fn(*args, **kwargs))
    except Exception as exc:  # noqa: BLE001 - exceptions are compared
        return ("err", (type(exc), str(exc)))


def compare(ds, new_name, old_fn, *args, **kw):
    """library method vs embedded original, out-of-place and in-place."""
    kn, rn = run(getattr(ds, new_name), *args, **kw)
    ko, ro = run(old_fn, ds, *args, **kw)
    assert kn == ko, (new_name, args, kw, kn, rn, ko, ro)
    if kn == "err":
        assert rn == ro, (rn, ro)
    else:
        same_dataset(rn, ro)

    d1, d2 = ds.copy(), ds.copy()
    k1, r1 = run(getattr(d1, new_name), *args, modify_in_place=True, **kw)
    k2, r2 = run(old_fn, d2, *args, modify_in_place=True, **kw)
    assert k1 == k2 == kn, (new_name, args, kw, k1, r1, k2, r2)
    if k1 == "err":
        assert r1 == r2
    else:
        assert r1 is None and r2 is None
        assert np.array_equal(d1.array, rn.array) and d1.array.dtype == rn.array.dtype
    same_dataset(d1, d2)
    return kn, rn


def expected_widths(shape, output_shape):
    """Independent integer-arithmetic oracle for the symmetric floor/ceil split."""
    res = []
    for n, m in zip(shape, output_shape):
        d = m - n
        res.append((0, 0) if d <= 0 else (d // 2, d - d // 2))
    return res


n_cases = 0
shapes = [(1,), (6,), (7,), (5, 9), (6, 4), (1, 8), (3, 5, 4), (2, 3, 4, 5)]
dtypes = [np.int32, np.uint8, np.float32, np.float64, np.complex64, np.complex128]
pad_modes = [
    {},
    {"mode": "constant", "constant_values": 7},
    {"mode": "edge"},
    {"mode": "wrap"},
    {"mode": "reflect"},
]
for shape in shapes:
    nd = len(shape)
    for dtype in dtypes:
        ds = make_ds(shape, dtype)
        out_shapes = [
            shape,
            tuple(n + 1 for n in shape),
            tuple(n + 2 for n in shape),
            tuple(n + 3 + (i % 2) for i, n in enumerate(shape)),
            tuple(max(1, n - 2) if i % 2 else n + 5 for i, n in enumerate(shape)),  # mixed smaller/larger
            tuple(max(1, n - 1) for n in shape),  # all smaller -> no padding
        ] + [tuple(int(n + rng.integers(-2, 7)) for n in shape) for _ in range(3)]
        for out_shape in out_shapes:
            for kw in pad_modes:
                kind, padded = compare(ds, "pad", pad_original, output_shape=out_shape, **kw)
                assert kind == "ok"
                widths = expected_widths(shape, out_shape)
                assert padded.shape == tuple(n + b + a for n, (b, a) in zip(shape, widths))
                assert padded.shape == tuple(max(n, m) for n, m in zip(shape, out_shape))
                # metadata untouched by pad
                assert np.array_equal(padded.origin, ds.origin)
                assert np.array_equal(padded.sampling, ds.sampling)
                # pad -> crop the pad widths returns the original data exactly
                crop_widths = tuple((b, -a) for b, a in widths)
                kind, back = compare(padded, "crop", crop_original, crop_widths)
                assert kind == "ok"
                assert back.array.dtype == ds.array.dtype
                assert np.array_equal(back.array, ds.array)
                # default zero padding: everything outside is zero, counts preserved
                if not kw:
                    assert padded.array.sum() == ds.array.sum() or np.isclose(
                        padded.array.sum(), ds.array.sum()
                    )
                n_cases += 1

        # explicit pad widths: scalar, pair, per-axis, then crop back (all axes and axis subsets)
        per_axis = tuple((int(rng.integers(0, 4)), int(rng.integers(0, 4))) for _ in shape)
        for pw in (2, (1, 3), per_axis, 0):
            kind, padded = compare(ds, "pad", pad_original, pw)
            assert kind == "ok"
            norm = (
                [(pw, pw)] * nd
                if isinstance(pw, int)
                else ([pw] * nd if isinstance(pw[0], int) else list(pw))
            )
            kind, back = compare(padded, "crop", crop_original, tuple((b, -a) for b, a in norm))
            assert kind == "ok" and np.array_equal(back.array, ds.array)
            n_cases += 1

        # crop on axis subsets, in arbitrary axis order, equals plain slicing
        for r in range(1, nd + 1):
            for axes in itertools.combinations(range(nd), r):
                perm = rng.permutation(len(axes))
                axes_p = tuple(axes[i] for i in perm)
                cw = []
                for a in axes_p:
                    start = int(rng.integers(0, shape[a]))
                    stop = int(rng.integers(start, shape[a] + 1))
                    stop = rng.choice([stop, stop - shape[a], 0])  # positive, negative or 0 (= to end)
                    cw.append((start, int(stop)))
                kind, out = compare(ds, "crop", crop_original, tuple(cw), axes=axes_p)
                assert kind == "ok"
                idx = [slice(None)] * nd
                for a, (b, e) in zip(axes_p, cw):
                    idx[a] = slice(b, e if e != 0 else None)
                assert np.array_equal(out.array, ds.array[tuple(idx)])
                n_cases += 1

# odd argument forms and failures: old and new must agree in every detail
ds3 = make_ds((5, 6, 7), np.float64)
pad_edge = [
    ((), dict()),  # neither given
    ((2,), dict(output_shape=(9, 9, 9))),  # both given
    ((), dict(output_shape=(9, 9))),  # wrong length
    ((), dict(output_shape=(9, 9, 9, 9))),
    ((), dict(output_shape=[8, 9, 10])),  # list
    ((), dict(output_shape=np.array([8, 9, 10]))),  # ndarray
    ((), dict(output_shape=(8.0, 9.5, 10.2))),  # floats
    ((), dict(output_shape=(np.int64(8), 3, 12))),
    ((), dict(output_shape=(0, 0, 0))),
    ((), dict(output_shape=(-4, 6, 8))),
    ((), dict(output_shape=("a", 6, 8))),  # TypeError inside the width computation
    ((), dict(output_shape=(float("nan"), 6, 8))),
    ((), dict(output_shape=(9, 9, 9), mode="nonsense")),
    ((), dict(output_shape=(9, 9, 9), bogus_kwarg=1)),
    ((-1,), dict()),  # numpy rejects negative widths
    (((1, 2), (3, 4)), dict()),  # wrong number of per-axis widths
    ((((1, 2), (0, 0), (2, 1)),), dict(mode="edge")),
    ((np.array([[1, 2], [0, 0], [2, 1]]),), dict()),
    ((0,), dict()),
]
for args, kw in pad_edge:
    compare(ds3, "pad", pad_original, *args, **kw)
    n_cases += 1

crop_edge = [
    ((((1, 4), (0, 0)),), dict()),  # wrong length with axes=None
    ((((1, 4),),), dict(axes=1)),  # scalar axis
    ((((1, 4), (2, 3)),), dict(axes=2.0)),  # scalar float axis: first width is taken
    ((((1, 4), (2, 3)),), dict(axes=(0,))),  # mismatch
    ((((1, 4), (2, 3)),), dict(axes=(0, 0))),  # duplicate axis: last wins
    ((((1, 4),),), dict(axes=(-1,))),  # negative axis is ignored
    ((((1, 4),),), dict(axes=(7,))),  # out-of-range axis is ignored
    ((((1, 4, 5), (0, 0), (0, 0)),), dict()),  # bad width tuple
    (((3, (0, 0), (0, 0)),), dict()),  # non-iterable width
    (([[1, -1], [0, 0], [2, 0]],), dict()),  # lists
    ((((4, 2), (0, 0), (0, 0)),), dict()),  # empty result
    ((((None, None), (None, 3), (1, None)),), dict()),
    (((), ), dict(axes=())),  # nothing to crop
    ((((1.5, 3), (0, 0), (0, 0)),), dict()),  # float index -> TypeError from numpy
]
for args, kw in crop_edge:
    compare(ds3, "crop", crop_original, *args, **kw)
    n_cases += 1

# multi-step: pad, pad again, crop twice
ds = make_ds((5, 8), np.int32)
p1 = ds.pad(output_shape=(8, 9))
p2 = p1.pad(output_shape=(13, 14), mode="edge")
w2 = expected_widths(p1.shape, (13, 14))
w1 = expected_widths(ds.shape, (8, 9))
b1 = p2.crop(tuple((b, -a) for b, a in w2))
assert np.array_equal(b1.array, p1.array)
b0 = b1.crop(tuple((b, -a) for b, a in w1))
assert np.array_equal(b0.array, ds.array)

print(f"C06/3 demo PASS ({n_cases} cases)")
