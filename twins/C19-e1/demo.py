"""C19 / change 1: ``set._assign`` written as a loop instead of a recursion.

Checks
 1. the configuration store is a last-writer-wins nested map (random histories of
    set / update_defaults / refresh / get on the live global store, compared with a
    flat dictionary reference model; '-'/'_' spellings, dotted, keyword and mapping
    forms, context-manager form, rejected devices);
 2. the ``set`` class of the installed tree behaves exactly like a verbatim copy of the
    ORIGINAL class (same resulting dictionaries incl. key spelling and order, same
    rollback record, same exceptions, same state after a failure half-way).
"""

import copy
import os
import random
import tempfile
import warnings

_tmp = tempfile.TemporaryDirectory()
os.environ["QUANTEM_CONFIG"] = _tmp.name  # no user configuration is picked up

from quantem.core import config as cfg  # noqa: E402

# --------------------------------------------------------------------------------------
# verbatim copy of the original class (executed in a copy of the module namespace so
# that check_key_val / canonical_name / config resolve to the module's objects)
# --------------------------------------------------------------------------------------
ORIGINAL_SET = '''
class set:
    """Temporarily set configuration values within a context manager"""

    def __init__(
        self,
        arg: Union[Mapping, None] = None,
        config: dict = config,
        **kwargs,
    ):
        self.config: dict = config
        self._record: list[tuple[Literal["insert", "replace"], tuple[str, ...], Any]] = []

        if arg is not None:
            if not isinstance(arg, (Mapping)):
                raise TypeError(f"arg must be a dictionary, got {type(arg).__name__}")
            for key, value in arg.items():
                key, value = check_key_val(key, value)
                self._assign(key.split("."), value, config)
        if kwargs:
            for key, value in kwargs.items():
                key = key.replace("__", ".")
                key, value = check_key_val(key, value)
                self._assign(key.split("."), value, config)

    def __enter__(self):
        return self.config

    def __exit__(self, exc_type, exc_value, traceback):
        for op, path, value in reversed(self._record):
            d = self.config
            if op == "replace":
                for key in path[:-1]:
                    d = d.setdefault(key, {})
                d[path[-1]] = value
            else:  # insert
                for key in path[:-1]:
                    try:
                        d = d[key]
                    except KeyError:
                        break
                else:
                    d.pop(path[-1], None)

    def _assign(
        self,
        keys: Sequence[str],
        value: Any,
        d: dict,
        path: tuple[str, ...] = (),
        record: bool = True,
    ) -> None:
        key = canonical_name(keys[0], d)

        path = path + (key,)

        if len(keys) == 1:
            if record:
                if key in d:
                    self._record.append(("replace", path, d[key]))
                else:
                    self._record.append(("insert", path, None))
            d[key] = value
        else:
            if key not in d:
                if record:
                    self._record.append(("insert", path, None))
                d[key] = {}
                # No need to record subsequent operations after an insert
                record = False
            self._assign(keys[1:], value, d[key], path, record=record)
'''
_ns = dict(vars(cfg))
exec(ORIGINAL_SET, _ns)
OldSet = _ns["set"]
NewSet = cfg.set


# --------------------------------------------------------------------------------------
# helpers
# --------------------------------------------------------------------------------------
def canon(path):
    return tuple(p.replace("-", "_") for p in path)


def flatten(d, prefix=()):
    out = {}
    for k, v in d.items():
        if isinstance(v, dict):
            out.update(flatten(v, prefix + (k,)))
        else:
            p = canon(prefix + (k,))
            assert p not in out, f"two spellings of {p} stored side by side"
            out[p] = v
    return out


def outcome(fn):
    try:
        return ("ok", fn())
    except Exception as e:  # noqa: BLE001
        return ("exc", type(e).__name__, str(e))


# --------------------------------------------------------------------------------------
# part 2: old class == new class
# --------------------------------------------------------------------------------------
def start_dicts():
    yield {}
    yield {"a": 1, "b-c": {"d_e": 2, "f": {"g-h": 3}}, "x_y": {"z": None}}
    yield {"a": {"b": {"c": {"d": 0}}}, "s": "text", "n": 5, "l": [1, 2]}
    yield copy.deepcopy(dict(cfg.config))


SPELL = ["a", "b-c", "b_c", "x_y", "x-y", "d_e", "d-e", "f", "g-h", "g_h", "z", "s", "n", "l",
         "new-key", "new_key", "", "q"]


def random_key(rng):
    return ".".join(rng.choice(SPELL) for _ in range(rng.randint(1, 4)))


def random_value(rng, i):
    r = rng.random()
    if r < 0.6:
        return f"v{i}"
    if r < 0.7:
        return None
    if r < 0.8:
        return [i, i + 1]
    if r < 0.9:
        return {"m-n": i, "o": {"p_q": i}}
    return i


def compare_sets(start, calls):
    """run the same sequence of set(...) calls with both classes"""
    c_old, c_new = copy.deepcopy(start), copy.deepcopy(start)
    stack = []
    for arg, kwargs, keep in calls:
        r_old = outcome(lambda: OldSet(copy.deepcopy(arg), config=c_old, **copy.deepcopy(kwargs)))
        r_new = outcome(lambda: NewSet(copy.deepcopy(arg), config=c_new, **copy.deepcopy(kwargs)))
        assert r_old[0] == r_new[0], (arg, kwargs, r_old, r_new)
        if r_old[0] == "exc":
            assert r_old == r_new, (r_old, r_new)
        else:
            assert r_old[1]._record == r_new[1]._record, (arg, kwargs)
            if keep:
                stack.append((r_old[1], r_new[1]))
        # identical content, spelling and insertion order, also after a failure half-way
        assert repr(c_old) == repr(c_new), (arg, kwargs, c_old, c_new)
    # unwind as nested context managers would
    for s_old, s_new in reversed(stack):
        # (unwinding can itself fail when a later call replaced a group by a scalar)
        e_old = outcome(lambda: s_old.__exit__(None, None, None))
        e_new = outcome(lambda: s_new.__exit__(None, None, None))
        assert e_old == e_new, (e_old, e_new)
        assert repr(c_old) == repr(c_new)
    return c_old


def part2():
    rng = random.Random(1901)
    n = 0
    for start in start_dicts():
        for _ in range(150):
            calls = []
            for i in range(rng.randint(1, 6)):
                arg = None
                kwargs = {}
                form = rng.random()
                if form < 0.55:
                    arg = {random_key(rng): random_value(rng, i) for _ in range(rng.randint(1, 3))}
                elif form < 0.8:
                    kwargs = {
                        random_key(rng).replace(".", "__").replace("-", "_") or "k": random_value(rng, i)
                    }
                elif form < 0.9:
                    arg = {random_key(rng): random_value(rng, i)}
                    kwargs = {"a__b__c": i, "x_y__z": i}
                elif form < 0.95:
                    arg = {"device": rng.choice(["cpu", "CPU", "tpu", -1, 1.5, "cuda:99", None])}
                else:
                    arg = rng.choice([[("a", 1)], "a", 3])  # not a mapping
                calls.append((arg, kwargs, rng.random() < 0.5))
                n += 1
            compare_sets(start, calls)

    # direct calls of the helper: explicit path / record arguments, tuple keys, bad input
    for keys, d in [
        (("a",), {}),
        (["a", "b", "c"], {}),
        (("a", "b"), {"a": {"b": 1}}),
        (("b_c", "d-e"), {"b-c": {"d_e": 2}}),
        (("a", "b"), {"a": "scalar"}),
        (("a", "b"), {"a": 7}),
        (("a", "b", "c"), {"a": None}),
        ((), {"a": 1}),
        ([], {}),
    ]:
        for record in (True, False):
            for path in ((), ("root",)):
                so, sn = OldSet(config={}), NewSet(config={})
                do, dn = copy.deepcopy(d), copy.deepcopy(d)
                ro = outcome(lambda: so._assign(keys, "V", do, path, record=record))
                rn = outcome(lambda: sn._assign(keys, "V", dn, path, record=record))
                assert ro == rn, (keys, d, ro, rn)
                assert repr(do) == repr(dn) and so._record == sn._record, (keys, d)
                n += 1
    return n


# --------------------------------------------------------------------------------------
# part 1: last-writer-wins reference model on the live store
# --------------------------------------------------------------------------------------
LEAVES = [
    ("dtype_real",), ("dtype-complex",), ("verbose",), ("precision",),
    ("cupy", "fft-cache-size"), ("mkl", "threads"), ("viz", "cmap"),
    ("viz", "real_space_units"), ("viz", "colors", "set"), ("warnings", "suppress-all-"),
    ("extra-group", "first_leaf"), ("extra-group", "second-leaf"),
    ("extra-group", "deep", "er", "leaf"), ("solo_key",),
]
BAD_DEVICES = ["tpu", "cuda:99", -1, 1.5, "cuda:x", "quantum"]


def respell(path, rng):
    out = []
    for p in path:
        r = rng.random()
        out.append(p.replace("-", "_") if r < 0.4 else p.replace("_", "-") if r < 0.8 else p)
    return out


class Model:
    def __init__(self):
        self.cfg = flatten(cfg.config)
        self.dflt = [flatten(cfg.merge(*cfg.defaults))]

    def merged(self):
        out = {}
        for d in self.dflt:
            out.update(d)
        return out

    def set(self, path, value):
        self.cfg[canon(path)] = value

    def update_defaults(self, flat):
        cur = self.merged()
        for p, v in flat.items():
            if p not in self.cfg or (p in cur and cur[p] == self.cfg[p]):
                self.cfg[p] = v
        self.dflt.append(dict(flat))

    def refresh(self):
        self.cfg = self.merged()


def spell_like_store(path, rng):
    """spelling for a new set of defaults: levels that already exist in the store are
    spelled as they are stored, levels that do not exist yet are spelled at random"""
    out, d = [], cfg.config
    for p in path:
        found = [k for k in d if canon((k,)) == canon((p,))] if isinstance(d, dict) else []
        if found:
            out.append(found[0])
            d = d[found[0]]
        else:
            out.append(respell([p], rng)[0])
            d = None
    return tuple(out)


def nest(flat_items):
    out = {}
    for path, v in flat_items:
        d = out
        for p in path[:-1]:
            d = d.setdefault(p, {})
        d[path[-1]] = v
    return out


def check(model, rng):
    assert flatten(cfg.config) == model.cfg, (flatten(cfg.config), model.cfg)
    for path in rng.sample(LEAVES, 4):
        key = ".".join(respell(path, rng))
        want = model.cfg.get(canon(path), "<absent>")
        assert cfg.get(key, "<absent>") == want, (key, cfg.get(key, "<absent>"), want)
    assert cfg.get("device") == cfg.get_device() == model.cfg[("device",)]


def part1():
    rng = random.Random(19)
    uid = [0]

    def fresh(tag):
        uid[0] += 1
        return f"{tag}{uid[0]}"

    steps = 0
    for hist in range(40):
        cfg.refresh()
        model = Model()
        model.refresh()
        check(model, rng)
        for _ in range(rng.randint(5, 25)):
            op = rng.random()
            if op < 0.40:  # set, one of the three forms
                path = rng.choice(LEAVES)
                sp = respell(path, rng)
                val = fresh("u")
                form = rng.random()
                if form < 0.4:
                    cfg.set({".".join(sp): val})
                elif form < 0.7 and all(p.isidentifier() for p in (s.replace("-", "_") for s in sp)) \
                        and not any(s.endswith(("-", "_")) for s in sp):
                    cfg.set(**{"__".join(s.replace("-", "_") for s in sp): val})
                else:
                    other = rng.choice(LEAVES)
                    if canon(other) == canon(path):
                        cfg.set({".".join(sp): val})
                    else:
                        v2 = fresh("u")
                        cfg.set({".".join(respell(other, rng)): v2, ".".join(sp): val})
                        model.set(other, v2)
                model.set(path, val)
            elif op < 0.55:  # context manager form restores everything
                before = copy.deepcopy(cfg.config)
                paths = rng.sample(LEAVES, rng.randint(1, 3))
                with cfg.set({".".join(respell(p, rng)): fresh("t") for p in paths}):
                    for p in paths:
                        assert str(cfg.get(".".join(respell(p, rng)))).startswith("t")
                    if rng.random() < 0.5:
                        with cfg.set({"brand-new.group.leaf": 1, "device": "cpu"}):
                            assert cfg.get("brand_new.group.leaf") == 1
                        assert cfg.get("brand-new", None) is None
                assert cfg.config == before, (cfg.config, before)
            elif op < 0.70:  # new defaults, nested mapping, siblings must survive
                items = [(spell_like_store(p, rng), fresh("d")) for p in rng.sample(LEAVES, rng.randint(1, 4))]
                cfg.update_defaults(nest(items))
                model.update_defaults({canon(p): v for p, v in items})
            elif op < 0.80:
                cfg.refresh()
                model.refresh()
            elif op < 0.90:  # rejected devices leave the stored device alone
                dev = rng.choice(BAD_DEVICES)
                before = copy.deepcopy(cfg.config)
                try:
                    if rng.random() < 0.5:
                        cfg.set_device(dev)
                    else:
                        cfg.set(device=dev)
                except (RuntimeError, ValueError, TypeError):
                    pass
                else:
                    raise AssertionError(f"device {dev!r} accepted")
                assert cfg.config == before
            else:
                cfg.set_device(rng.choice(["cpu", "CPU", "cpu:0"]))
                model.set(("device",), "cpu")
            check(model, rng)
            steps += 1
        # refresh restores exactly the accumulated defaults
        cfg.refresh()
        model.refresh()
        check(model, rng)
        assert flatten(cfg.config) == flatten(cfg.merge(*cfg.defaults))
    return steps


if __name__ == "__main__":
    with warnings.catch_warnings():
        warnings.simplefilter("error")
        n2 = part2()
        n1 = part1()
    _tmp.cleanup()
    print(f"PASS: {n1} model-checked steps, {n2} old/new set comparisons")
