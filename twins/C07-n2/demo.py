"""C07 demo: torch radon / iradon / Fourier filter.

Embeds a verbatim copy of the ORIGINAL src/quantem/tomography/radon/radon.py and asserts that the
functions of the tree under test return bit-identical tensors (same shape, dtype, bits) and raise the
same exceptions, over a spread of sizes / batch sizes / angle sets / filters.  It additionally asserts
the property itself (agreement with scikit-image, batched == per-image, linearity, 0-degree column sums).

Run:  PYTHONPATH=<root>/src /venv/bin/python demo.py
"""

import types
import warnings

import numpy as np
import torch

import quantem.tomography.radon.radon as new

ORIG_SRC = r'''
"""
scikit-image's radon and iradon functions fully implemented in Torch.

Reference: van der Walt, S., et al. (2014). scikit-image: image processing in Python. PeerJ, 2, e453.
"""

import math

import torch
import torch.nn.functional as F


def radon_torch(images, theta=None, device=None):
    """
    Batched Radon transform implemented in PyTorch.
    images: torch.Tensor of shape [B, H, W]
    Returns: torch.Tensor of shape [B, N_angles, N_pixels]
    """
    if images.ndim == 2:
        images = images.unsqueeze(0)  # [1, H, W]
    B, H, W = images.shape

    if device is None:
        device = images.device

    if theta is None:
        theta = torch.arange(180, device=device)

    N_angles = len(theta)
    shape_min = min(H, W)
    radius = shape_min // 2
    center = torch.tensor([H // 2, W // 2], device=device)

    Y, X = torch.meshgrid(
        torch.arange(H, device=device),
        torch.arange(W, device=device),
        indexing="ij",
    )
    dist2 = (X - center[1]) ** 2 + (Y - center[0]) ** 2
    mask = dist2 <= radius**2
    images = images.clone()
    images *= mask  # broadcasting over batch

    # Crop to square
    excess = torch.tensor([H, W], device=device) - shape_min
    slices = tuple(
        slice(int((e.item() + 1) // 2), int((e.item() + 1) // 2 + shape_min))
        if e > 0
        else slice(None)
        for e in excess
    )
    images = images[:, slices[0], slices[1]]  # [B, N, N]
    N = images.shape[-1]
    center = N // 2

    radon_images = torch.zeros((B, N_angles, N), dtype=images.dtype, device=device)

    grid_y, grid_x = torch.meshgrid(
        torch.arange(N, dtype=torch.float32, device=device),
        torch.arange(N, dtype=torch.float32, device=device),
        indexing="ij",
    )
    coords = torch.stack((grid_x - center, grid_y - center), dim=-1)  # (N, N, 2)
    coords = coords.view(1, N, N, 2).expand(B, -1, -1, -1)  # [B, N, N, 2]

    for i, angle in enumerate(theta):
        angle_rad = torch.deg2rad(angle)
        rot = torch.tensor(
            [
                [torch.cos(angle_rad), torch.sin(angle_rad)],
                [-torch.sin(angle_rad), torch.cos(angle_rad)],
            ],
            device=device,
            dtype=torch.float32,
        )

        rot = rot.unsqueeze(0).expand(B, -1, -1)  # [B, 2, 2]
        coords_rot = torch.matmul(coords.view(B, -1, 2), rot.transpose(1, 2)).view(B, N, N, 2)
        coords_rot += center

        # Normalize to [-1, 1]
        grid = 2 * coords_rot / (N - 1) - 1  # [B, N, N, 2]

        # grid = grid.unsqueeze(1)  # [B, 1, N, N, 2]
        imgs = images.unsqueeze(1)  # [B, 1, N, N]

        sampled = F.grid_sample(
            imgs, grid, mode="bilinear", padding_mode="zeros", align_corners=True
        )
        projection = sampled.squeeze(1).sum(dim=1)  # [B, N]
        radon_images[:, i, :] = projection

    return radon_images.squeeze(0) if radon_images.shape[0] == 1 else radon_images


def iradon_torch(
    sinograms,
    theta=None,
    output_size=None,
    filter_name="ramp",
    circle=True,
    device=None,
):
    """
    Batched inverse Radon transform (filtered backprojection).
    sinograms: [B, N_angles, N_pixels] or [N_angles, N_pixels] (automatically batched)
    Returns: [B, output_size, output_size] or [output_size, output_size]
    """
    if sinograms.ndim == 2:
        sinograms = sinograms.unsqueeze(0)  # [1, A, P]
    B, A, N = sinograms.shape

    device = sinograms.device if device is None else device
    # default angles as in the reference: np.linspace(0, 180, A, endpoint=False)
    theta = theta if theta is not None else torch.linspace(0, 180, steps=A + 1, device=device)[:-1]

    if theta.shape[0] != A:
        raise ValueError("theta does not match number of projections")

    if output_size is None:
        output_size = N if circle else int(torch.floor(torch.sqrt(torch.tensor(N**2 / 2.0))))

    if circle:
        # as the reference (_sinogram_circle_to_square): embed the sinogram in the diagonal length,
        # keeping the rotation centre, before choosing the FFT size
        diagonal = int(math.ceil(math.sqrt(2) * N))
        pad = diagonal - N
        pad_before = diagonal // 2 - N // 2
        sinograms = F.pad(sinograms, (pad_before, pad - pad_before))
        N = diagonal

    # Padding for FFT
    padded_size = max(
        64, int(2 ** torch.ceil(torch.log2(torch.tensor(2 * N, dtype=torch.float32))))
    )
    pad_y = padded_size - N
    sinograms_padded = F.pad(sinograms, (0, pad_y))  # [B, A, padded]

    f_filter = get_fourier_filter_torch(padded_size, filter_name, device=device)  # [1, padded]
    spectrum = torch.fft.fft(sinograms_padded, dim=2)
    filtered = torch.real(torch.fft.ifft(spectrum * f_filter, dim=2))[:, :, :N]

    # Backprojection
    recon = torch.zeros((B, output_size, output_size), device=device)
    radius = output_size // 2

    y, x = torch.meshgrid(
        torch.arange(output_size, device=device) - radius,
        torch.arange(output_size, device=device) - radius,
        indexing="ij",
    )
    x = x.flatten()
    y = y.flatten()

    for i, angle in enumerate(torch.deg2rad(theta)):
        t = (x * torch.cos(angle) - y * torch.sin(angle)).reshape(1, output_size, output_size)
        t_idx = t + (N // 2)

        t0 = torch.floor(t_idx).long().clamp(0, N - 2)  # [1, H, W]
        t1 = t0 + 1
        w = t_idx - t0.float()

        t0 = t0.expand(B, -1, -1)  # [B, H, W]
        t1 = t1.expand(B, -1, -1)

        filtered_i = filtered[:, i, :]  # [B, N]
        val0 = torch.gather(filtered_i, 1, t0.view(B, -1)).view(B, output_size, output_size)
        val1 = torch.gather(filtered_i, 1, t1.view(B, -1)).view(B, output_size, output_size)

        # rays that leave the detector contribute nothing (np.interp(..., left=0, right=0))
        valid = (t_idx >= 0) & (t_idx <= N - 1)
        proj = ((1 - w) * val0 + w * val1) * valid
        recon += proj

    if circle:
        mask = (
            x.view(output_size, output_size) ** 2 + y.view(output_size, output_size) ** 2
            > radius**2
        )
        recon[:, mask] = 0.0

    recon *= torch.pi / (2 * A)
    return recon.squeeze(0) if recon.shape[0] == 1 else recon


def get_fourier_filter_torch(size, filter_name="ramp", device=None, dtype=torch.float32):
    """
    Construct the Fourier filter in PyTorch.
    """
    if size % 2 != 0:
        raise ValueError("Filter size must be even")

    n = torch.cat(
        [
            torch.arange(1, size // 2 + 1, 2, device=device),
            torch.arange(size // 2 - 1, 0, -2, device=device),
        ]
    )
    f = torch.zeros(size, device=device, dtype=dtype)
    f[0] = 0.25
    f[1::2] = -1.0 / (torch.pi * n.float()) ** 2

    fourier_filter = 2 * torch.real(torch.fft.fft(f))

    if filter_name == "ramp":
        pass
    elif filter_name == "shepp-logan":
        omega = torch.pi * torch.fft.fftfreq(size, device=device)[1:]
        fourier_filter[1:] *= torch.sin(omega) / omega
    elif filter_name == "cosine":
        # np.linspace(0, pi, size, endpoint=False) of the reference implementation
        freq = torch.linspace(0, torch.pi, steps=size + 1, device=device)[:-1]
        fourier_filter *= torch.fft.fftshift(torch.sin(freq))
    elif filter_name == "hamming":
        hamming = torch.hamming_window(size, periodic=False, dtype=dtype, device=device)
        fourier_filter *= torch.fft.fftshift(hamming)
    elif filter_name == "hann":
        hann = torch.hann_window(size, periodic=False, dtype=dtype, device=device)
        fourier_filter *= torch.fft.fftshift(hann)
    elif filter_name is None:
        fourier_filter[:] = 1.0
    else:
        raise ValueError(f"Unknown filter: {filter_name}")

    # Reshape filter for broadcasting with sinogram
    return fourier_filter.unsqueeze(0)  # Shape: [1, size] for broadcasting with [num_angles, size]
'''

orig = types.ModuleType("radon_orig")
exec(compile(ORIG_SRC, "radon_orig.py", "exec"), orig.__dict__)

torch.manual_seed(0)
torch.set_num_threads(2)  # small tensors: fewer threads is faster and keeps the run well under 60 s
CHECKS = 0


def same(a, b, what):
    global CHECKS
    CHECKS += 1
    assert type(a) is type(b), (what, type(a), type(b))
    assert a.shape == b.shape, (what, a.shape, b.shape)
    assert a.dtype == b.dtype, (what, a.dtype, b.dtype)
    assert a.device == b.device, (what, a.device, b.device)
    # bit-for-bit: compare the raw bytes (distinguishes -0.0 / +0.0, NaN payloads)
    ab = a.detach().contiguous().numpy().tobytes()
    bb = b.detach().contiguous().numpy().tobytes()
    assert ab == bb, (what, float((a - b).abs().max()))


def same_call(name, *args, **kwargs):
    # call old and new with identical (cloned) inputs; same result or same exception
    def run(mod):
        a = [x.clone() if isinstance(x, torch.Tensor) else x for x in args]
        k = {n: (v.clone() if isinstance(v, torch.Tensor) else v) for n, v in kwargs.items()}
        try:
            return ("ok", getattr(mod, name)(*a, **k), a)
        except Exception as e:  # noqa: BLE001
            return ("exc", (type(e), str(e)), a)

    ko, ro, ao = run(orig)
    kn, rn, an = run(new)
    assert ko == kn, (name, ko, kn, ro, rn)
    if ko == "exc":
        assert ro == rn, (name, ro, rn)
    else:
        same(ro, rn, name)
    # inputs must be left in the same state by both
    for x, y in zip(ao, an):
        if isinstance(x, torch.Tensor):
            assert torch.equal(x, y), name
    return ko, rn


def phantom(n, smooth=True):
    yy, xx = np.mgrid[:n, :n].astype(np.float64)
    c = n // 2
    if smooth:
        img = np.exp(-((xx - c - 0.13 * n) ** 2 + (yy - c + 0.08 * n) ** 2) / (2 * (0.12 * n) ** 2))
        img += 0.5 * np.exp(-((xx - c + 0.2 * n) ** 2 + (yy - c - 0.1 * n) ** 2) / (2 * (0.07 * n) ** 2))
    else:
        img = ((np.abs(xx - c - 2) < 0.2 * n) & (np.abs(yy - c + 1) < 0.15 * n)).astype(np.float64)
        img[c, c] += 3.0
    return img


FILTERS = ["ramp", "shepp-logan", "cosine", "hamming", "hann", None]

# ---------------------------------------------------------------- 1. old == new, bit for bit
for size in (2, 4, 8, 10, 64, 66, 128, 256):
    for fn in FILTERS:
        same_call("get_fourier_filter_torch", size, fn)
    same_call("get_fourier_filter_torch", size, "ramp", dtype=torch.float64)
    same_call("get_fourier_filter_torch", size, "hann", dtype=torch.float64)
for bad in (3, 7, 65):
    k, _ = same_call("get_fourier_filter_torch", bad, "ramp")
    assert k == "exc"
k, _ = same_call("get_fourier_filter_torch", 64, "bogus")
assert k == "exc"
for degenerate in (0, -2, -4):
    same_call("get_fourier_filter_torch", degenerate, "ramp")

ANGLE_SETS = [
    None,
    torch.tensor([0.0]),
    torch.tensor([0.0, 90.0, 180.0]),
    torch.tensor([0.0, 30.0, 45.0, 60.5, 90.0, 135.0, 179.0]),
    torch.linspace(0, 180, 13)[:-1],
    torch.arange(0, 180, 20),  # integer angles
    torch.rand(5, dtype=torch.float64) * 180,
]

for n in (5, 8, 16, 17, 31, 32):
    for b in (None, 1, 2, 3):
        for smooth in (True, False):
            base = torch.tensor(phantom(n, smooth), dtype=torch.float32)
            if b is None:
                imgs = base
            else:
                imgs = torch.stack([base * (j + 1) + 0.1 * torch.randn(n, n) for j in range(b)])
            for th in ANGLE_SETS:
                if th is None and n > 17:
                    continue
                k, sino = same_call("radon_torch", imgs, theta=th)
                assert k == "ok"
                if th is None:
                    continue
                for fn in (FILTERS if (b in (None, 2) and smooth) else ["ramp", "hann"]):
                    for circle in (True, False):
                        k, _ = same_call("iradon_torch", sino, theta=th, filter_name=fn, circle=circle)
                        assert k == "ok", (n, b, fn, circle)
                same_call("iradon_torch", sino, theta=th, output_size=n + 3)
                same_call("iradon_torch", sino, theta=th, output_size=max(1, n - 3), circle=False)
            # default theta of iradon (13 projections)
            s13 = torch.randn(13, n) if b is None else torch.randn(b, 13, n)
            same_call("iradon_torch", s13)
            same_call("iradon_torch", s13, filter_name=None, circle=False)

# non-square and float64 images, explicit device, error paths
same_call("radon_torch", torch.rand(2, 12, 9), theta=torch.tensor([0.0, 33.0, 90.0]))
same_call("radon_torch", torch.rand(2, 9, 12), theta=torch.tensor([0.0, 33.0, 90.0]))
same_call("radon_torch", torch.rand(9, 9, dtype=torch.float64), theta=torch.tensor([10.0, 80.0]))
same_call("radon_torch", torch.rand(3, 9, 9), theta=torch.tensor([10.0, 80.0]), device=torch.device("cpu"))
same_call("radon_torch", torch.rand(3, 9, 9), theta=torch.zeros(0))
same_call("radon_torch", torch.rand(2, 3, 9, 9), theta=torch.tensor([10.0]))  # 4-D: same exception
same_call("radon_torch", torch.rand(3, 9, 9), theta=[10.0, 20.0])  # list of floats: same exception
same_call("radon_torch", torch.rand(3, 9, 9), theta=[torch.tensor(10.0), torch.tensor(20.0)])
same_call("iradon_torch", torch.rand(4, 9), theta=torch.tensor([0.0, 1.0, 2.0]))  # mismatch
same_call("iradon_torch", torch.rand(4, 9), theta=torch.tensor([0.0, 1.0, 2.0, 3.0]), filter_name="bogus")
same_call("iradon_torch", torch.rand(2, 3, 4, 9))
same_call("iradon_torch", torch.rand(0, 9), theta=torch.zeros(0))
same_call("iradon_torch", torch.rand(2, 4, 9), theta=torch.tensor([0.0, 45.0, 90.0, 135.0]), device="cpu")

# ---------------------------------------------------------------- 2. the property itself
from skimage.transform import iradon as sk_iradon  # noqa: E402
from skimage.transform import radon as sk_radon  # noqa: E402
from skimage.transform.radon_transform import _get_fourier_filter  # noqa: E402

for size in (64, 128, 256):
    for fn in FILTERS:
        ref = _get_fourier_filter(size, fn)[:, 0]
        got = new.get_fourier_filter_torch(size, fn)[0].numpy()
        assert got.shape == ref.shape
        assert np.abs(got - ref).max() <= 2e-5 * max(1.0, np.abs(ref).max()), (size, fn)

for n in (16, 17, 32, 33):
    th = torch.tensor([0.0, 20.0, 45.0, 77.5, 90.0, 120.0, 163.0])
    img = phantom(n, True)
    cc, rr = np.mgrid[:n, :n]
    disc = (cc - n // 2) ** 2 + (rr - n // 2) ** 2 <= (n // 2) ** 2
    img = img * disc
    t_img = torch.tensor(img, dtype=torch.float32)
    sino = new.radon_torch(t_img, theta=th)  # [A, N]
    with warnings.catch_warnings():
        warnings.simplefilter("ignore")
        ref = sk_radon(img, theta=th.numpy().astype(np.float64), circle=True)  # [N, A]
    err = np.abs(sino.numpy().T - ref).max()
    assert err <= 2e-2 * max(1.0, np.abs(ref).max()), ("radon vs skimage", n, err)
    # 0 degrees == column sums of the disc-masked image
    assert np.abs(sino[0].numpy() - img.sum(axis=0)).max() <= 1e-4 * max(1.0, img.sum(axis=0).max())
    for fn in FILTERS:
        rec = new.iradon_torch(torch.tensor(ref.T.copy(), dtype=torch.float32), theta=th, filter_name=fn)
        rref = sk_iradon(ref, theta=th.numpy().astype(np.float64), filter_name=fn, circle=True)
        e = np.abs(rec.numpy() - rref).max()
        assert e <= 1e-3 * max(1.0, np.abs(rref).max()), ("iradon vs skimage", n, fn, e)
    # batched == per-image; linearity
    batch = torch.stack([t_img, 2 * t_img.flip(0), t_img.flip(1) + 0.25 * t_img])
    sb = new.radon_torch(batch, theta=th)
    for j in range(3):
        assert torch.allclose(sb[j], new.radon_torch(batch[j], theta=th), atol=1e-5, rtol=1e-5)
    rb = new.iradon_torch(sb, theta=th, filter_name="hann")
    for j in range(3):
        assert torch.allclose(rb[j], new.iradon_torch(sb[j], theta=th, filter_name="hann"), atol=1e-5, rtol=1e-5)
    lin = new.radon_torch(2.0 * batch[0] - 3.0 * batch[1], theta=th)
    assert torch.allclose(lin, 2.0 * sb[0] - 3.0 * sb[1], atol=1e-3, rtol=1e-4)
    lin = new.iradon_torch(2.0 * sb[0] - 3.0 * sb[1], theta=th)
    assert torch.allclose(
        lin, 2.0 * new.iradon_torch(sb[0], theta=th) - 3.0 * new.iradon_torch(sb[1], theta=th), atol=1e-4, rtol=1e-4
    )

print(f"C07 demo OK ({CHECKS} bit-for-bit comparisons)")
