"""C08 demo: failed saves leave no loadable partial object; write-once never overwrites.

Differential + property check for the serializer's save path
(quantem.core.io.serialize.AutoSerialize.save / _recursive_save / _serialize_value / _write_bytes).

The script embeds a VERBATIM copy of the ORIGINAL source of those four functions, installs either
the embedded original or the function currently in the tree, and runs both through the same spread
of scenarios (object graphs x stores x modes x pre-existing targets x skip lists x compression
levels x an exception injected at every position k among the zarr attribute / array / group writes
and the zip assembly).  For every scenario it asserts

  * old == new bit for bit: the exception (type and message), everything printed, the exact
    sequence of low-level write operations with their payload digests, and the resulting content of
    the whole sandbox directory (zip archives compared member by member);
  * the property itself on the code in the tree: after a failing save the target is absent,
    unreadable, or loads to a complete object; in write-once mode an existing target is untouched
    (content and mtime); no path other than the target is altered.

Invoked as:  PYTHONPATH=<root>/src /venv/bin/python demo.py      (CPU only, offline, < 60 s)
Writes only below a tempfile.TemporaryDirectory.
"""

import contextlib
import gzip
import hashlib
import io
import os
import re
import shutil
import sys
import tempfile
import zipfile
from pathlib import Path

import attrs
import numpy as np
import torch
import zarr
from zarr.core.attributes import Attributes

import quantem.core.io.serialize as S
from quantem.core.io.serialize import AutoSerialize, load

# --------------------------------------------------------------------------------------------
# Verbatim copy of the ORIGINAL functions (class-body indentation kept)
# --------------------------------------------------------------------------------------------
ORIGINAL_SOURCE = r'''
    @staticmethod
    def _write_bytes(
        group: zarr.Group,
        name: str,
        data: bytes,
        compressors=None,
    ) -> None:
        # Handle empty bytes
        if not data:
            ds = group.create_array(name=name, shape=(0,), dtype="uint8", compressors=compressors)
            return

        buf_arr = np.frombuffer(data, dtype="uint8")
        # Handle scalar arrays (0-dimensional) properly
        if buf_arr.ndim == 0:
            ds = group.create_array(name=name, shape=(), dtype="uint8", compressors=compressors)
            ds[()] = buf_arr.item()
        else:
            ds = group.create_array(
                name=name, shape=buf_arr.shape, dtype="uint8", compressors=compressors
            )
            ds[:] = buf_arr

    def save(
        self,
        path: str | Path,
        mode: Literal["w", "o"] = "w",
        store: Literal["auto", "zip", "dir"] = "auto",
        skip: Union[str, type, Sequence[Union[str, type]]] = (),
        compression_level: int | None = 4,
    ) -> None:
        """
        Save the current object to disk using Zarr serialization.

        Parameters
        ----------
        path : str or Path
            Target file path. Use '.zip' extension for zip format, otherwise a directory.
        mode : {'w', 'o'}
            'w' = write only if file doesn't exist, 'o' = overwrite if it does.
        store : {'auto', 'zip', 'dir'}
            Storage format. 'auto' infers from file extension.
        skip : str, type, or list of (str or type)
            Attribute names/types to skip (by name or type) during serialization.
        compression_level : int or None
            If set (0–9), applies Zstandard compression with Blosc backend at that level.
            Level 0 disables compression. Raises ValueError if > 9.

        Notes
        -----
        Skipped attribute names and types are also stored in the file metadata for correct
        round-trip skipping during load().
        """
        # Validate compression level
        if compression_level is not None:
            if not (0 <= compression_level <= 9):
                raise ValueError(
                    f"compression_level must be between 0 and 9, got {compression_level}"
                )
            compressors = [
                {
                    "name": "blosc",
                    "configuration": {
                        "cname": "zstd",
                        "clevel": int(compression_level),
                        "shuffle": "bitshuffle",
                    },
                }
            ]
        else:
            compressors = None

        path = str(path)
        # Auto-infer storage format if needed
        if store == "auto":
            store = "zip" if path.endswith(".zip") else "dir"

        # Ensure .zip extension if requested
        if store == "zip" and not path.endswith(".zip"):
            print(f"Warning: appending .zip to path '{path}'")
            path += ".zip"

        # Handle overwrite vs. write protection
        if os.path.exists(path):
            if mode == "o":
                if os.path.isdir(path):
                    shutil.rmtree(path)
                else:
                    os.remove(path)
            else:
                raise FileExistsError(f"File '{path}' already exists. Use mode='o' to overwrite.")

        # Normalize skip argument (split to names and types)
        if isinstance(skip, (str, type)):
            skip = [skip]
        skip_names = {s for s in skip if isinstance(s, str)}
        skip_types = tuple(s for s in skip if isinstance(s, type))

        def write_skip_metadata(root):
            # Store skip info as attributes for correct deserialization
            root.attrs["_autoserialize_skip_names"] = list(skip_names)
            root.attrs["_autoserialize_skip_types"] = [
                f"{t.__module__}.{t.__qualname__}" for t in skip_types
            ]

        # Main branch: choose between zip and directory storage
        if store == "zip":
            # Always use tempdir for safe atomic write
            with tempfile.TemporaryDirectory() as tmpdir:
                store_obj = LocalStore(tmpdir)
                root = zarr.group(store=store_obj, overwrite=True)
                self._recursive_save(self, root, skip_names, skip_types, compressors)
                write_skip_metadata(root)
                # Zip up all files in tempdir
                try:
                    with ZipFile(path, mode="w") as zf:
                        for dirpath, _, filenames in os.walk(tmpdir):
                            for filename in filenames:
                                full_path = os.path.join(dirpath, filename)
                                rel_path = os.path.relpath(full_path, tmpdir)
                                zf.write(full_path, arcname=rel_path)
                except BaseException:
                    # Never leave a partial (but readable) archive behind
                    if os.path.exists(path):
                        os.remove(path)
                    raise
        elif store == "dir":
            # Directory mode requires no extension
            if os.path.splitext(path)[1]:
                raise ValueError(
                    f"Expected a directory path for store='dir', but got file-like path '{path}'"
                )
            try:
                os.makedirs(path, exist_ok=True)
                store_obj = LocalStore(path)
                root = zarr.group(store=store_obj, overwrite=True)
                self._recursive_save(self, root, skip_names, skip_types, compressors)
                write_skip_metadata(root)
            except BaseException:
                # The target did not exist (or was removed above): never leave a partial,
                # but loadable, object behind when serialisation fails part-way
                shutil.rmtree(path, ignore_errors=True)
                raise
        else:
            raise ValueError(f"Unknown store type: {store}")

    def _serialize_value(
        self,
        value: Any,
        group: zarr.Group,
        name: str,
        skip_names: set[str] = set(),
        skip_types: tuple[type, ...] = (),
        compressors=None,
    ) -> None:
        """
        Unified method to serialize any value type to a Zarr group.
        This eliminates duplication between _recursive_save and _serialize_container.
        """
        # --- Serialization handlers by type ---
        if isinstance(value, torch.Tensor):
            # Save entire tensor with torch.save to preserve requires_grad, grad_fn, etc.
            # This is more robust than converting to numpy which loses gradient information
            subgroup = group.require_group(name)
            subgroup.attrs["_torch_tensor"] = True
            subgroup.attrs["_tensor_shape"] = list(value.shape)
            subgroup.attrs["_tensor_dtype"] = str(value.dtype)
            subgroup.attrs["_tensor_device"] = str(value.device)
            subgroup.attrs["_tensor_requires_grad"] = bool(value.requires_grad)

            buffer = io.BytesIO()
            torch.save(value, buffer)
            buffer.seek(0)
            byte_arr = np.frombuffer(buffer.read(), dtype="uint8")
            self._write_bytes(subgroup, "tensor", byte_arr.tobytes(), compressors=None)

        elif isinstance(value, torch.optim.Optimizer):
            # Save entire optimizer with torch.save for robustness
            subgroup = group.require_group(name)
            subgroup.attrs["_torch_optimizer"] = True
            subgroup.attrs["class_name"] = value.__class__.__name__

            buffer = io.BytesIO()
            torch.save(value, buffer)
            buffer.seek(0)
            byte_arr = np.frombuffer(buffer.read(), dtype="uint8")
            self._write_bytes(subgroup, "optimizer", byte_arr.tobytes(), compressors=None)

        elif hasattr(value, "step") and hasattr(value, "get_last_lr"):
            # Handle LR schedulers with torch.save for robustness
            subgroup = group.require_group(name)
            subgroup.attrs["_torch_scheduler"] = True
            subgroup.attrs["class_name"] = value.__class__.__name__

            buffer = io.BytesIO()
            torch.save(value, buffer)
            buffer.seek(0)
            byte_arr = np.frombuffer(buffer.read(), dtype="uint8")
            self._write_bytes(subgroup, "scheduler", byte_arr.tobytes(), compressors=None)

        elif hasattr(value, "add_scalar") and hasattr(value, "add_image"):
            # Handle PyTorch loggers (SummaryWriter, etc.) - save basic info only
            subgroup = group.require_group(name)
            subgroup.attrs["_torch_logger"] = True
            subgroup.attrs["class_name"] = value.__class__.__name__

            # Store basic logger information that can be reconstructed
            if hasattr(value, "log_dir"):
                subgroup.attrs["log_dir"] = str(value.log_dir)
            if hasattr(value, "comment"):
                subgroup.attrs["comment"] = str(value.comment) if value.comment else ""
            if hasattr(value, "max_queue"):
                subgroup.attrs["max_queue"] = int(value.max_queue)
            if hasattr(value, "flush_secs"):
                subgroup.attrs["flush_secs"] = int(value.flush_secs)
            if hasattr(value, "filename_suffix"):
                subgroup.attrs["filename_suffix"] = (
                    str(value.filename_suffix) if value.filename_suffix else ""
                )
        elif hasattr(value, "log") and hasattr(value, "info"):
            # Handle other logging objects (like Python's logging.Logger)
            subgroup = group.require_group(name)
            subgroup.attrs["_python_logger"] = True
            subgroup.attrs["class_name"] = value.__class__.__name__

            # Store logger name and level if available
            if hasattr(value, "name"):
                subgroup.attrs["logger_name"] = str(value.name)
            if hasattr(value, "level"):
                subgroup.attrs["logger_level"] = int(value.level)

        elif isinstance(value, torch.nn.Module) or (
            hasattr(value, "__module__") and ("torch" in str(value.__module__))
        ):
            # Save entire torch module with torch.save for robustness
            subgroup = group.require_group(name)
            subgroup.attrs["_torch_whole_module"] = True
            buffer = io.BytesIO()
            torch.save(value, buffer)
            buffer.seek(0)
            byte_arr = np.frombuffer(buffer.read(), dtype="uint8")
            self._write_bytes(subgroup, "module", byte_arr.tobytes(), compressors=None)

        elif isinstance(value, np.ndarray):
            # Save as native array
            if name not in group:
                self._write_ndarray(group, name, value, compressors)

        elif isinstance(value, (int, float, str, bool, type(None))):
            # Scalars saved as attributes
            group.attrs[name] = value
        elif (
            hasattr(value, "dtype")
            and hasattr(value, "item")
            and not isinstance(value, (complex, np.complexfloating))
        ):
            # Handle numpy scalar types (np.float32, np.int64, etc.); complex scalars are not
            # JSON-representable and take the fallback below, like Python complex numbers
            group.attrs[name] = value.item()
        elif hasattr(value, "__fspath__") or str(type(value)).startswith("<class 'pathlib."):
            # Handle pathlib.Path objects and other path-like objects
            group.attrs[name] = str(value)
            group.attrs[f"{name}.is_path"] = True

        elif self._is_autoserialize_instance(value):
            # Nested AutoSerialize subtree
            subgroup = group.require_group(name)
            self._recursive_save(value, subgroup, skip_names, skip_types, compressors)

        elif isinstance(value, (list, tuple, dict)):
            # Save containers recursively (with nested AutoSerialize support)
            subgroup = group.require_group(name)
            self._serialize_container(value, subgroup, skip_names, skip_types, compressors)

        elif isinstance(value, set):
            # Convert set to list for serialization, store type info
            subgroup = group.require_group(name)
            # Convert set items to list and serialize
            list_value = list(value)
            self._serialize_container(list_value, subgroup, skip_names, skip_types, compressors)
            # Tag after the list has been written: _serialize_container tags the group as "list"
            subgroup.attrs["_container_type"] = "set"

        elif hasattr(value, "bit_generator"):
            # NumPy random generator - save state through bit_generator
            subgroup = group.require_group(name)
            subgroup.attrs["_numpy_rng"] = True
            # Get state from the bit_generator
            rng_state = value.bit_generator.state
            if hasattr(rng_state, "tolist"):
                subgroup.attrs["_rng_state"] = rng_state.tolist()
            else:
                subgroup.attrs["_rng_state"] = rng_state
            subgroup.attrs["_rng_type"] = value.__class__.__name__
            subgroup.attrs["_bit_generator_type"] = value.bit_generator.__class__.__name__

        elif hasattr(value, "get_state") and hasattr(value, "set_state"):
            # PyTorch generator - skip for now as state structure is complex
            # Just store a marker that this was a generator
            subgroup = group.require_group(name)
            subgroup.attrs["_torch_rng_skipped"] = True
            subgroup.attrs["_rng_type"] = "torch.Generator"
            # Don't try to save the state - it's not essential for core functionality

        else:
            # Fallback: dill-serialize + gzip-compress
            print(f"falling back in serialize for {name} of type {type(value)}")
            serialized = dill.dumps(value)
            compressed = gzip.compress(serialized)
            self._write_bytes(group, name, compressed, compressors)

    def _recursive_save(
        self,
        obj,
        group: zarr.Group,
        skip_names: set[str] = set(),
        skip_types: tuple[type, ...] = (),
        compressors=None,
    ) -> None:
        # Store class identity and version metadata at group root if not already set
        if "_autoserialize" not in group.attrs:
            group.attrs["_autoserialize"] = {
                "version": 1,
                "class_module": obj.__class__.__module__,
                "class_name": obj.__class__.__qualname__,
            }

        # Support both attrs and plain Python classes
        attrs_fields = getattr(obj.__class__, "__attrs_attrs__", None)
        if attrs_fields is not None:
            items = [(field.name, getattr(obj, field.name)) for field in attrs_fields]
        else:
            items = obj.__dict__.items()

        for attr_name, attr_value in items:
            # Skip any attributes matching names/types in skip lists
            if attr_name in skip_names or isinstance(attr_value, skip_types):
                continue

            # Use unified serialization method
            self._serialize_value(
                attr_value, group, attr_name, skip_names, skip_types, compressors
            )

'''

EDITED = ["_write_bytes", "save", "_serialize_value", "_recursive_save"]

_ns = dict(vars(S))
exec(compile("class _Reference:\n" + ORIGINAL_SOURCE, "<original serialize.py>", "exec"), _ns)
REFERENCE = {n: _ns["_Reference"].__dict__[n] for n in EDITED}
CURRENT = {n: AutoSerialize.__dict__[n] for n in EDITED}


@contextlib.contextmanager
def implementation(which):
    table = REFERENCE if which == "old" else CURRENT
    try:
        for n, f in table.items():
            setattr(AutoSerialize, n, f)
        yield
    finally:
        for n, f in CURRENT.items():
            setattr(AutoSerialize, n, f)


# --------------------------------------------------------------------------------------------
# Fault injection / tracing of the low-level write operations
# --------------------------------------------------------------------------------------------
def sha(b):
    return hashlib.sha1(bytes(b)).hexdigest()[:16]


def digest(value):
    try:
        a = np.asarray(value)
        if a.dtype != object:
            return (str(a.dtype), a.shape, sha(np.ascontiguousarray(a).tobytes()))
    except Exception:
        pass
    return repr(value)


class Injector:
    def __init__(self, k=None, when="before", exc=RuntimeError):
        self.k, self.when, self.exc = k, when, exc
        self.n = 0
        self.depth = 0
        self.trace = []

    def call(self, op, summary, fn, *a, **kw):
        if self.depth:
            return fn(*a, **kw)
        idx = self.n
        self.n += 1
        self.trace.append((op,) + tuple(summary))
        if self.k == idx and self.when == "before":
            raise self.exc(f"injected before op {idx}")
        self.depth += 1
        try:
            r = fn(*a, **kw)
        finally:
            self.depth -= 1
        if self.k == idx and self.when == "after":
            raise self.exc(f"injected after op {idx}")
        return r


@contextlib.contextmanager
def traced(inj):
    o_attr = Attributes.__setitem__
    o_create = zarr.Group.create_array
    o_set = zarr.Array.__setitem__
    o_req = zarr.Group.require_group
    o_zw = zipfile.ZipFile.write
    o_group = zarr.group
    o_gz = gzip.compress

    def w_gz(data, *a, **kw):
        # gzip headers carry the wall-clock time: pin it so that two runs are comparable bit for bit
        kw.setdefault("mtime", 0)
        return o_gz(data, *a, **kw)

    def w_attr(self, key, value):
        return inj.call(
            "attrs.set", (getattr(self._obj, "path", "?"), key, repr(value)), o_attr, self, key, value
        )

    def w_create(self, name, **kw):
        summ = (self.path, name, repr(kw.get("shape")), str(kw.get("dtype")), repr(kw.get("compressors")))
        return inj.call("create_array", summ, o_create, self, name=name, **kw)

    def w_set(self, sel, value):
        return inj.call("array.set", (self.path, repr(sel), digest(value)), o_set, self, sel, value)

    def w_req(self, name, **kw):
        return inj.call("require_group", (self.path, name, repr(kw)), o_req, self, name, **kw)

    def w_zw(self, filename, arcname=None, *a, **kw):
        with open(filename, "rb") as fh:
            d = sha(fh.read())
        return inj.call("zip.write", (arcname, d, repr(a), repr(kw)), o_zw, self, filename, arcname, *a, **kw)

    def w_group(*a, **kw):
        return inj.call("zarr.group", (repr(sorted(k for k in kw)), repr(kw.get("overwrite"))), o_group, *a, **kw)

    try:
        Attributes.__setitem__ = w_attr
        zarr.Group.create_array = w_create
        zarr.Array.__setitem__ = w_set
        zarr.Group.require_group = w_req
        zipfile.ZipFile.write = w_zw
        zarr.group = w_group
        gzip.compress = w_gz
        yield inj
    finally:
        Attributes.__setitem__ = o_attr
        zarr.Group.create_array = o_create
        zarr.Array.__setitem__ = o_set
        zarr.Group.require_group = o_req
        zipfile.ZipFile.write = o_zw
        zarr.group = o_group
        gzip.compress = o_gz


def split_trace(trace):
    """Zarr-level operations in order; the zip members as a multiset (os.walk order is not ours)."""
    return [t for t in trace if t[0] != "zip.write"], sorted(t for t in trace if t[0] == "zip.write")


# --------------------------------------------------------------------------------------------
# Object graphs
# --------------------------------------------------------------------------------------------
class Child(AutoSerialize):
    def __init__(self, tag):
        self.tag = tag
        self.grid = np.arange(6, dtype=np.float32).reshape(2, 3) * (len(tag) + 1)
        self.ratio = np.float64(0.25)


class Unpicklable:
    def __reduce__(self):
        raise TypeError("this attribute cannot be serialised")


class Node(AutoSerialize):
    def __init__(self, variant="full"):
        torch.manual_seed(7)
        self.count = 3
        self.arr = np.linspace(0.0, 1.0, 12).reshape(3, 4)
        if variant == "tiny":
            return
        self.numbers = [1, 2.5, 3]
        if variant == "bad":
            self.broken = Unpicklable()  # raises inside dill.dumps, part-way through
            self.after = "never written"
            return
        self.scale = np.float32(1.5)
        self.where = Path("some") / "place.txt"
        self.table = {"x": None, "seq": ("a", 1)}
        self.tags = {"p"}
        self.child = Child("kid")
        self.z = 1 + 2j  # dill fallback -> _write_bytes
        self.tensor = torch.arange(5, dtype=torch.float32).requires_grad_(True)  # -> _write_bytes
        self.layer = torch.nn.Linear(2, 2)  # -> _write_bytes
        if variant == "rich":
            self.empty = np.zeros((0, 3), dtype=np.int16)
            self.mixed = ["a", np.arange(3), {"k": Child("in list")}]


class Earlier(AutoSerialize):
    """What an earlier successful save left at the target."""

    def __init__(self):
        self.marker = "earlier"
        self.data = np.arange(4)


@attrs.define(slots=False, eq=False)
class AttrsNode(AutoSerialize):
    a: int = 1
    b: str = "two"
    arr: np.ndarray = attrs.field(factory=lambda: np.arange(4.0))
    child: Child = attrs.field(factory=lambda: Child("attrs"))
    seq: tuple = (1, 2, 3)


def canon(v):
    if AutoSerialize._is_autoserialize_instance(v):
        return ("obj", type(v).__qualname__, sorted((k, canon(x)) for k, x in vars(v).items()))
    if isinstance(v, torch.nn.Module):
        return ("module", type(v).__name__, canon(dict(v.state_dict())))
    if isinstance(v, torch.Tensor):
        return ("tensor", str(v.dtype), tuple(v.shape), bool(v.requires_grad), digest(v.detach().numpy()))
    if isinstance(v, np.ndarray):
        return ("ndarray",) + tuple(digest(v))
    if isinstance(v, (list, tuple)):
        return (type(v).__name__, [canon(x) for x in v])
    if isinstance(v, dict):
        return ("dict", sorted((str(k), canon(x)) for k, x in v.items()))
    if isinstance(v, (set, frozenset)):
        return ("set", sorted(repr(canon(x)) for x in v))
    return (type(v).__name__, repr(v))


# --------------------------------------------------------------------------------------------
# Sandbox helpers
# --------------------------------------------------------------------------------------------
def snapshot(root="."):
    out = {}
    for dirpath, dirnames, filenames in os.walk(root):
        dirnames.sort()
        for d in dirnames:
            out[os.path.relpath(os.path.join(dirpath, d), root)] = ("D",)
        for f in sorted(filenames):
            p = os.path.join(dirpath, f)
            with open(p, "rb") as fh:
                raw = fh.read()
            if f.endswith(".zip") and zipfile.is_zipfile(p):
                with zipfile.ZipFile(p) as zf:
                    out[os.path.relpath(p, root)] = (
                        "Z",
                        tuple(sorted((n, sha(zf.read(n))) for n in zf.namelist())),
                    )
            else:
                out[os.path.relpath(p, root)] = ("F", sha(raw))
    return out


def raw_state(path):
    """Exact bytes + mtimes of a target (file or tree), for the write-once check."""
    if not os.path.lexists(path):
        return None
    if os.path.isfile(path):
        st = os.stat(path)
        return ("F", sha(open(path, "rb").read()), st.st_mtime_ns, st.st_size)
    items = []
    for dirpath, dirnames, filenames in os.walk(path):
        dirnames.sort()
        for f in sorted(filenames):
            p = os.path.join(dirpath, f)
            st = os.stat(p)
            items.append((os.path.relpath(p, path), sha(open(p, "rb").read()), st.st_mtime_ns))
        items.append((os.path.relpath(dirpath, path), "D"))
    return ("T", tuple(items))


def under(rel, target):
    return rel == target or rel.startswith(target + os.sep)


TMP_RE = re.compile(re.escape(tempfile.gettempdir()) + r"[^\s'\"]*")


def norm(text):
    return TMP_RE.sub("<TMP>", text)


def final_target(path, store):
    p = str(path)
    if store == "auto":
        store = "zip" if p.endswith(".zip") else "dir"
    if store == "zip" and not p.endswith(".zip"):
        p += ".zip"
    return p


def try_load(target):
    if not os.path.lexists(target):
        return ("absent",)
    try:
        with contextlib.redirect_stdout(io.StringIO()):
            obj = load(target)
    except BaseException as e:  # noqa: BLE001 - "unreadable" is an accepted outcome
        return ("unreadable", type(e).__name__)
    return ("loaded", canon(obj))


def make_pre(kind, target):
    """Create the pre-existing target (a copy of what the ORIGINAL implementation saved earlier)."""
    if kind == "none":
        return
    if kind == "valid":
        if target.endswith(".zip"):
            shutil.copy2(os.path.join(TEMPLATES, "earlier.zip"), target)
        else:
            shutil.copytree(os.path.join(TEMPLATES, "earlier"), target)
    elif kind == "junkfile":
        with open(target, "wb") as fh:
            fh.write(b"not an archive at all")
    elif kind == "emptydir":
        os.makedirs(target)
    else:
        raise AssertionError(kind)


def make_templates(root):
    global TEMPLATES
    TEMPLATES = os.path.join(root, "templates")
    os.makedirs(TEMPLATES)
    with implementation("old"), contextlib.redirect_stdout(io.StringIO()):
        Earlier().save(os.path.join(TEMPLATES, "earlier"), store="dir")
        Earlier().save(os.path.join(TEMPLATES, "earlier.zip"), store="zip")


TEMPLATES = None
SANDBOX_ROOT = None
N_CASES = 0


def run_one(which, factory, path, kwargs, pre, k, when, exc_cls):
    """One save() in a fresh sandbox; returns everything observable."""
    store = kwargs.get("store", "auto")
    target = final_target(path, store)
    sb = tempfile.mkdtemp(dir=SANDBOX_ROOT)
    cwd = os.getcwd()
    os.chdir(sb)
    try:
        # siblings that no save may touch
        with open("sibling.txt", "w") as fh:
            fh.write("leave me alone")
        shutil.copytree(os.path.join(TEMPLATES, "earlier"), "sibling_dir")
        shutil.copy2(os.path.join(TEMPLATES, "earlier.zip"), "sibling.zip")
        if target != str(path):
            os.makedirs(str(path))  # e.g. a directory "t" next to the real target "t.zip"
            with open(os.path.join(str(path), "keep"), "w") as fh:
                fh.write("x")
        make_pre(pre, target)
        before = snapshot()
        raw_before = raw_state(target)
        obj = factory()
        inj = Injector(k, when, exc_cls)
        out = io.StringIO()
        err = None
        with implementation(which), traced(inj), contextlib.redirect_stdout(out):
            try:
                obj.save(path, **kwargs)
            except BaseException as e:  # noqa: BLE001
                err = (type(e).__name__, norm(str(e)))
        after = snapshot()
        raw_after = raw_state(target)
        loaded = try_load(target)
        return {
            "err": err,
            "stdout": norm(out.getvalue()),
            "trace": split_trace(inj.trace),
            "nops": inj.n,
            "before": before,
            "after": after,
            "raw_before": raw_before,
            "raw_after": raw_after,
            "loaded": loaded,
            "target": target,
        }
    finally:
        os.chdir(cwd)


EXPECTED_CACHE = {}


def expected_complete(factory, fkey, kwargs):
    """Canonical form of a complete object written by a successful save (same skip list)."""
    key = (fkey, repr(kwargs.get("skip", ())))
    if key not in EXPECTED_CACHE:
        sb = tempfile.mkdtemp(dir=SANDBOX_ROOT)
        p = os.path.join(sb, "ok")
        try:
            with implementation("old"), contextlib.redirect_stdout(io.StringIO()):
                factory().save(p, store="dir", skip=kwargs.get("skip", ()), compression_level=None)
            EXPECTED_CACHE[key] = try_load(p)
        except BaseException:  # the graph is not serialisable at all
            EXPECTED_CACHE[key] = None
    return EXPECTED_CACHE[key]


EARLIER_CANON = ("loaded", canon(Earlier()))


def check_property(r, kwargs, pre, exp_new, label):
    target = r["target"]
    mode = kwargs.get("mode", "w")
    # (3) nothing but the target is altered
    b = {p: v for p, v in r["before"].items() if not under(p, target)}
    a = {p: v for p, v in r["after"].items() if not under(p, target)}
    assert a == b, f"{label}: a path other than the target was altered"
    # (2) write-once never modifies an existing target
    if mode == "w" and pre != "none":
        assert r["err"] is not None, f"{label}: write-once save onto an existing target succeeded"
        assert r["raw_after"] == r["raw_before"], f"{label}: write-once modified the target"
    # (1) no loadable partial object
    if r["err"] is not None:
        st = r["loaded"]
        ok = st[0] in ("absent", "unreadable") or st == exp_new or (pre == "valid" and st == EARLIER_CANON)
        assert ok, f"{label}: failed save left a loadable partial object: {st}"
    else:
        assert r["loaded"] == exp_new, f"{label}: successful save does not load back completely"


def compare(factory, fkey, path, kwargs, pre="none", k=None, when="before", exc_cls=RuntimeError):
    global N_CASES
    label = f"{fkey} path={path!r} kw={kwargs} pre={pre} k={k}/{when}/{exc_cls.__name__}"
    old = run_one("old", factory, path, kwargs, pre, k, when, exc_cls)
    new = run_one("new", factory, path, kwargs, pre, k, when, exc_cls)
    for field in ("err", "stdout", "trace", "nops", "before", "after", "loaded", "target"):
        assert old[field] == new[field], f"{label}: old != new in {field}:\n{old[field]}\n{new[field]}"
    assert (old["raw_before"] == old["raw_after"]) == (new["raw_before"] == new["raw_after"]), label
    exp_new = expected_complete(factory, fkey, kwargs)
    check_property(new, kwargs, pre, exp_new, label)
    check_property(old, kwargs, pre, exp_new, label + " [original]")
    N_CASES += 1
    return new


# --------------------------------------------------------------------------------------------
# _write_bytes compared directly (it is a static helper)
# --------------------------------------------------------------------------------------------
def check_write_bytes():
    comp = [{"name": "blosc", "configuration": {"cname": "zstd", "clevel": 4, "shuffle": "bitshuffle"}}]
    payloads = [b"", b"\x00", b"a", b"abc" * 100, bytes(range(256)), bytearray(b"xyz"), memoryview(b"12345")]
    fo = REFERENCE["_write_bytes"].__func__
    fn = CURRENT["_write_bytes"].__func__
    n = 0
    for data in payloads:
        for compressors in (None, comp):
            total = None
            for k in [None] + list(range(3)):
                for when in ("before", "after"):
                    res = []
                    for f in (fo, fn):
                        root = zarr.group(store=zarr.storage.MemoryStore(), overwrite=True)
                        inj = Injector(k, when)
                        err = None
                        with traced(inj):
                            try:
                                ret = f(root, "blob", data, compressors)
                            except RuntimeError as e:
                                ret, err = None, str(e)
                        if "blob" in root:
                            arr = root["blob"]
                            content = (arr.shape, str(arr.dtype), digest(arr[...]) if arr.shape != (0,) else "empty")
                        else:
                            content = None
                        res.append((ret, err, inj.trace, content))
                    assert res[0] == res[1], f"_write_bytes differs for {bytes(data)[:8]!r} k={k}: {res}"
                    if k is None:
                        total = len(res[0][2])
                        if len(bytes(data)):
                            assert res[0][3][0] == (len(bytes(data)),)
                            assert res[0][3][2][2] == sha(bytes(data))
                    n += 1
            assert total in (1, 2)
    return n


# --------------------------------------------------------------------------------------------
def main():
    global SANDBOX_ROOT
    with tempfile.TemporaryDirectory() as root:
        SANDBOX_ROOT = root
        make_templates(root)
        n_wb = check_write_bytes()

        full = lambda: Node("full")  # noqa: E731
        tiny = lambda: Node("tiny")  # noqa: E731
        bad = lambda: Node("bad")  # noqa: E731
        att = lambda: AttrsNode()  # noqa: E731

        # ---- 1. stores x modes x pre-existing targets, no injected fault
        for path, store in [("t.zip", "auto"), ("t", "auto"), ("t", "zip"), ("t.zip", "dir"),
                            ("t.zarr", "dir"), ("t", "dir"), ("t", "bogus"), (Path("t.zip"), "auto")]:
            for mode in ("w", "o"):
                for pre in ("none", "valid", "junkfile", "emptydir"):
                    compare(tiny, "tiny", path, {"mode": mode, "store": store}, pre)

        # ---- 2. skip lists and compression levels (validated before the mode check)
        rich = lambda: Node("rich")  # noqa: E731
        skips = (["arr", torch.Tensor, "child"], (Child, "z", "tags", np.ndarray), [str])
        for i, skip in enumerate(skips):
            compare(rich, "rich", ("t.zip", "t")[i % 2], {"skip": skip})
        for level in (None, 0, 10, -1):
            for path, pre, mode in (("t.zip", "none", "w"), ("t", "valid", "o"), ("t", "valid", "w")):
                compare(tiny, "tiny", path, {"compression_level": level, "mode": mode}, pre)
        for path in ("t.zip", "t"):
            compare(att, "attrs", path, {"skip": ["b", np.ndarray]})

        # ---- 3. an unserialisable attribute part-way through the graph
        for path in ("t.zip", "t"):
            for mode, pre in (("w", "none"), ("o", "valid"), ("w", "valid")):
                r = compare(bad, "bad", path, {"mode": mode}, pre)
                if mode == "w" and pre != "none":
                    assert r["err"][0] == "FileExistsError" and r["loaded"] == EARLIER_CANON
                else:
                    assert r["err"][0] == "TypeError" and r["loaded"] == ("absent",), r

        # ---- 4. an exception injected at position k of the write sequence.  Over the
        #         configurations of the "full" graph every k of the zarr phase and of the zip
        #         assembly is hit at least once.
        plans = {
            # (graph, path): [(mode, pre, zarr-phase stride, offset, zip-phase stride, offset)]
            ("full", "t"): [("w", "none", 3, 0, 0, 0), ("o", "valid", 3, 1, 0, 0)],
            ("full", "t.zip"): [("w", "none", 3, 2, 3, 0), ("o", "valid", 11, 5, 3, 1)],
            ("attrs", "t"): [("w", "none", 3, 1, 0, 0)],
            ("attrs", "t.zip"): [("o", "valid", 5, 2, 4, 1)],
        }
        factories = {"full": full, "attrs": att}
        for (fkey, path), plan in plans.items():
            factory = factories[fkey]
            base = compare(factory, fkey, path, {})
            nops = base["nops"]
            nzarr = len(base["trace"][0])
            assert base["err"] is None and nops > 10 and (nzarr == nops or path.endswith(".zip"))
            for mode, pre, s1, o1, s2, o2 in plan:
                ks = set(range(o1, nzarr, s1)) | {0, nzarr - 1, nops - 1}
                if s2:
                    ks |= set(range(nzarr + o2, nops, s2))
                for k in sorted(ks):
                    when = "before" if (k % 3) else "after"
                    exc_cls = KeyboardInterrupt if k % 7 == 3 else RuntimeError
                    r = compare(factory, fkey, path, {"mode": mode}, pre, k, when, exc_cls)
                    assert r["err"] is not None and r["err"][1].startswith("injected"), r["err"]
                    assert r["loaded"] == ("absent",), (k, when, r["loaded"])
                # the very last write done, then the failure: still nothing loadable
                r = compare(factory, fkey, path, {"mode": mode}, pre, nops - 1, "after")
                assert r["err"] is not None and r["loaded"] == ("absent",), r["loaded"]
            # write-once onto an existing target: nothing is even attempted
            r = compare(factory, fkey, path, {"mode": "w"}, "valid", 0, "before")
            assert r["err"][0] == "FileExistsError" and r["nops"] == 0
            assert r["loaded"] == EARLIER_CANON

        print(f"C08 demo OK: {N_CASES} save scenarios and {n_wb} _write_bytes calls, old == new, property holds")


if __name__ == "__main__":
    main()
    sys.exit(0)
