"""C11 demo: ragged Vector keeps its structural invariants under any operation history.

The script embeds VERBATIM copies of the ORIGINAL (pre-edit) versions of the functions the
five behaviour-preserving patches touch

    validators.validate_vector_data, _FieldView.flatten,
    Vector.__setitem__, Vector.add_fields, Vector.remove_fields

and drives the installed quantem Vector ("new") and a subclass that uses the embedded
originals ("old") through the same random operation histories (1..3 fixed dimensions,
1..3 fields, ragged row counts incl. zero rows and unset cells, int / slice / fancy
indices, field arithmetic, flatten / set_flattened, add / remove fields, copy, data
setter, error paths).  After every step it asserts

  * old == new bit-for-bit (results, raised exception type + message, printed text,
    shape / fields / units / name, every cell's dtype, shape and bytes, aliasing of the
    stored cell with the assigned array), and
  * in the "clean" histories, the C11 invariants themselves on the new Vector.

Exit code 0 on success.  CPU only, no files written.
"""

import contextlib
import copy as _copy
import io
import sys
import warnings
from typing import Any, List, Tuple, Union

import numpy as np
from numpy.typing import ArrayLike, NDArray  # noqa: F401  (used by the verbatim copies)

from quantem.core.datastructures.vector import Vector
from quantem.core.datastructures.vector import _FieldView as _NewFieldView
from quantem.core.utils.validators import validate_vector_data as new_validate_vector_data

warnings.simplefilter("ignore")
np.seterr(all="ignore")


# --------------------------------------------------------------------------------------
# verbatim ORIGINAL: quantem/core/utils/validators.py :: validate_vector_data
# --------------------------------------------------------------------------------------
def validate_vector_data(data: list[Any], shape: tuple[int, ...], num_fields: int) -> list[Any]:
    """
    Validate that the data structure matches the expected shape and number of fields.

    Parameters
    ----------
    data : list[Any]
        The nested list structure containing the vector's data
    shape : tuple[int, ...]
        The expected shape of the vector
    num_fields : int
        The expected number of fields

    Returns
    -------
    list[Any]
        The validated data structure

    Raises
    ------
    ValueError
        If the data structure doesn't match the expected shape,
        or if any array doesn't have the correct number of fields
    TypeError
        If data is not a list or contains invalid data types
    """
    # Check if data is a list
    if not isinstance(data, list):
        raise TypeError("Data must be a list")

    # Check if the length of data matches the expected shape
    if len(data) != shape[0]:
        raise ValueError(f"Expected {shape[0]} items in data, got {len(data)}")

    validated_data = []

    for idx, item in enumerate(data):
        # Convert item to numpy array if it's a list
        if isinstance(item, list):
            item = np.array(item)

        # Check if the item is a numpy array
        if not isinstance(item, np.ndarray):
            raise TypeError(
                f"Data element at index {idx} must be a numpy array or convertible to one"
            )

        # Check if the number of fields matches
        if item.shape[1] != num_fields:
            raise ValueError(
                f"Data element at index {idx} must have {num_fields} fields, got {item.shape[1]}"
            )

        validated_data.append(item)

    return validated_data


orig_validate_vector_data = validate_vector_data


# --------------------------------------------------------------------------------------
# verbatim ORIGINAL: quantem/core/datastructures/vector.py :: _FieldView.flatten
# --------------------------------------------------------------------------------------
class OrigFieldView(_NewFieldView):
    def flatten(self) -> NDArray:
        def collect(arr: Any) -> List[NDArray]:
            if isinstance(arr, np.ndarray):
                return [arr[:, self.field_index]]
            elif isinstance(arr, list):
                result = []
                for sub in arr:
                    result.extend(collect(sub))
                return result
            else:
                return []

        arrays = collect(self.vector._data)
        if not arrays:
            return np.empty((0,), dtype=float)
        return np.concatenate(arrays, axis=0)


# the verbatim Vector.__setitem__ below refers to the module-level name `_FieldView`
_FieldView = OrigFieldView


# --------------------------------------------------------------------------------------
# verbatim ORIGINAL: Vector.__setitem__, Vector.add_fields, Vector.remove_fields
# --------------------------------------------------------------------------------------
class OrigVector(Vector):
    def __setitem__(
        self,
        idx: Union[Tuple[Union[int, slice, List[int]], ...], int, slice, List[int], str],
        value: Union[NDArray, List[NDArray]],
    ) -> None:
        """Set data at specified indices."""
        if isinstance(idx, str):
            if idx not in self._fields:
                raise KeyError(f"Field '{idx}' not found.")
            field_view = _FieldView(self, idx)
            field_view.set_flattened(value)
            return

        # Normalize idx to tuple
        normalized: Tuple[Any, ...] = (idx,) if not isinstance(idx, tuple) else idx

        # Convert lists/arrays to ndarray
        idx_converted: Tuple[Union[int, slice, np.ndarray[Any, np.dtype[Any]]], ...] = tuple(
            np.asarray(i) if isinstance(i, (list, np.ndarray)) else i for i in normalized
        )

        # Check if we're doing slice‐ or array‐based (multi‐cell) indexing
        has_fancy = any(
            isinstance(i, slice) or (isinstance(i, np.ndarray) and i.size > 1)
            for i in idx_converted[: len(self.shape)]
        )

        if has_fancy:
            # If user passed a Vector, extract its cell arrays
            if isinstance(value, Vector):

                def _flatten_cells(data):
                    if isinstance(data, np.ndarray):
                        return [data]
                    out = []
                    for sub in data:
                        out.extend(_flatten_cells(sub))
                    return out

                value = _flatten_cells(value._data)

            # For fancy indexing, value should be a list of arrays
            if not isinstance(value, list):
                raise TypeError(
                    "For fancy/slice indexing, value must be a list of numpy arrays or a Vector"
                )

            # Get indices for each dimension
            def get_indices(dim_idx: Any, dim_size: int) -> np.ndarray:
                if isinstance(dim_idx, slice):
                    start, stop, step = dim_idx.indices(dim_size)
                    return np.arange(start, stop, step)
                elif isinstance(dim_idx, (np.ndarray, list)):
                    idx = np.asarray(dim_idx)
                    if np.any((idx < 0) | (idx >= dim_size)):
                        raise IndexError(f"Index out of bounds for axis with size {dim_size}")
                    return idx
                elif isinstance(dim_idx, (int, np.integer)):
                    if dim_idx < 0 or dim_idx >= dim_size:
                        raise IndexError(f"Index out of bounds for axis with size {dim_size}")
                    return np.array([dim_idx])
                return np.arange(dim_size)

            indices_arrays = [get_indices(i, s) for i, s in zip(idx_converted, self._shape)]
            total_indices = np.prod([len(i) for i in indices_arrays])

            if len(value) != total_indices:
                raise ValueError(f"Expected {total_indices} arrays, got {len(value)}")

            # Validate and set values
            for array_idx, idx in enumerate(np.ndindex(*[len(i) for i in indices_arrays])):
                src_idx = tuple(ind[i] for ind, i in zip(indices_arrays, idx))
                if not isinstance(value[array_idx], np.ndarray):
                    raise TypeError(f"Expected numpy array, got {type(value[array_idx]).__name__}")
                if value[array_idx].ndim != 2 or value[array_idx].shape[1] != self.num_fields:
                    raise ValueError(
                        f"Expected array with shape (_, {self.num_fields}), got {value[array_idx].shape}"
                    )
                ref = self._data
                for i in src_idx[:-1]:
                    ref = ref[i]
                ref[src_idx[-1]] = value[array_idx]
        else:
            # For single value assignment
            if not isinstance(value, np.ndarray):
                raise TypeError(f"Value must be a numpy array, got {type(value).__name__}")
            if value.ndim != 2 or value.shape[1] != self.num_fields:
                raise ValueError(
                    f"Expected a numpy array with shape (_, {self.num_fields}), got {value.shape}"
                )
            ref = self._data
            for i in idx_converted[:-1]:
                ref = ref[i]
            ref[idx_converted[-1]] = value

    def add_fields(self, new_fields: Union[str, List[str]]) -> None:
        """
        Add new fields to the vector.

        Parameters
        ----------
        new_fields : Union[str, List[str]]
            Field name(s) to add. Must be unique and not already present.

        Raises
        ------
        ValueError
            If any field name already exists or if there are duplicates
        """
        if isinstance(new_fields, str):
            new_fields = [new_fields]
        else:
            new_fields = list(new_fields)

        if any(name in self._fields for name in new_fields):
            raise ValueError("One or more new field names already exist.")

        if len(set(new_fields)) != len(new_fields):
            raise ValueError("Duplicate field names in input are not allowed.")

        self._fields = list(self._fields) + list(new_fields)
        self._units = list(self._units) + ["none"] * len(new_fields)

        def expand_array(arr: Any) -> Any:
            if isinstance(arr, np.ndarray):
                if arr.shape[1] != self.num_fields - len(new_fields):
                    raise ValueError(
                        f"Expected arrays with {self.num_fields - len(new_fields)} fields, got {arr.shape[1]}"
                    )
                pad = np.zeros((arr.shape[0], len(new_fields)))
                return np.hstack([arr, pad])
            elif isinstance(arr, list):
                return [expand_array(sub) for sub in arr]
            else:
                return arr

        self._data = expand_array(self._data)

    def remove_fields(self, fields_to_remove: Union[str, List[str]]) -> None:
        """
        Remove fields from the vector.

        Parameters
        ----------
        fields_to_remove : Union[str, List[str]]
            Field name(s) to remove. Must exist in the vector.

        Raises
        ------
        ValueError
            If any field doesn't exist
        """
        if isinstance(fields_to_remove, str):
            fields_to_remove = [fields_to_remove]
        else:
            fields_to_remove = list(fields_to_remove)

        field_to_index = {name: i for i, name in enumerate(self._fields)}
        indices_to_remove = []
        for field in fields_to_remove:
            if field not in field_to_index:
                print(f"Warning: field '{field}' not found.")
            else:
                indices_to_remove.append(field_to_index[field])

        if not indices_to_remove:
            return

        indices_to_remove = sorted(set(indices_to_remove))
        keep_indices = [i for i in range(self.num_fields) if i not in indices_to_remove]

        # Update metadata
        self._fields = [self._fields[i] for i in keep_indices]
        self._units = [self._units[i] for i in keep_indices]

        def prune_array(arr: Any) -> Any:
            if isinstance(arr, np.ndarray):
                if arr.shape[1] < max(indices_to_remove) + 1:
                    raise ValueError(
                        f"Cannot remove field index {max(indices_to_remove)} from array with shape {arr.shape}"
                    )
                return arr[:, keep_indices]
            elif isinstance(arr, list):
                return [prune_array(sub) for sub in arr]
            else:
                return arr

        self._data = prune_array(self._data)

    # --- glue (not edited code): route field views / the data setter to the originals ---
    def __getitem__(self, idx):  # type: ignore[override]
        if isinstance(idx, str):
            if idx not in self._fields:
                raise KeyError(f"Field '{idx}' not found.")
            return OrigFieldView(self, idx)
        return Vector.__getitem__(self, idx)

    def _set_data_orig(self, value):
        self._data = orig_validate_vector_data(value, self.shape, self.num_fields)

    data = property(Vector.data.fget, _set_data_orig)


def to_orig(v: Vector) -> "OrigVector":
    """Re-wrap a Vector (e.g. the result of copy()/slicing) so that it uses the originals."""
    o = OrigVector.from_shape(
        shape=v.shape, fields=list(v.fields), units=list(v.units), name=v.name
    )
    o._data = v._data
    return o


# --------------------------------------------------------------------------------------
# normalisation / comparison helpers
# --------------------------------------------------------------------------------------
def norm(x: Any) -> Any:
    if isinstance(x, np.ndarray):
        return ("arr", x.dtype.str, x.shape, x.tobytes())
    if isinstance(x, Vector):
        return ("vec",) + state(x)
    if isinstance(x, _NewFieldView):
        return ("fv", x.field_name, x.field_index, norm(x.flatten()))
    if isinstance(x, (list, tuple)):
        return (type(x).__name__, [norm(i) for i in x])
    if isinstance(x, (np.generic,)):
        return ("np", x.dtype.str, x.tobytes())
    return ("py", type(x).__name__, repr(x))


def state(v: Vector) -> tuple:
    return (
        tuple(v._shape),
        type(v._fields).__name__,
        list(v._fields),
        type(v._units).__name__,
        list(v._units),
        v._name,
        norm(v._data),
    )


def call(fn, v):
    buf = io.StringIO()
    try:
        with contextlib.redirect_stdout(buf):
            r = fn(v)
        return ("ok", norm(r), buf.getvalue()), r
    except Exception as e:  # noqa: BLE001
        return ("exc", type(e).__name__, str(e), buf.getvalue()), None


def cells(data: Any, shape: tuple) -> list:
    """Row-major list of the cells of a well-formed nested list."""
    if len(shape) == 0:
        return [data]
    assert isinstance(data, list) and len(data) == shape[0], "nesting broken"
    out = []
    for sub in data:
        out.extend(cells(sub, shape[1:]))
    return out


def check_invariants(v: Vector) -> None:
    """The C11 property, checked directly on the new Vector."""
    nf = v.num_fields
    assert len(set(v.fields)) == len(v.fields) == len(v.units) == nf
    cs = cells(v._data, v.shape)
    pop = [c for c in cs if c is not None]
    for c in pop:
        assert isinstance(c, np.ndarray) and c.ndim == 2 and c.shape[1] == nf, (c, nf)
    total = sum(c.shape[0] for c in pop)
    full = v.flatten()
    assert full.shape == (total, nf) if pop else full.shape == (0, nf)
    before = state(v)
    for k, name in enumerate(v.fields):
        flat = v[name].flatten()
        ref = [c[:, k] for c in pop]
        ref = np.concatenate(ref) if ref else np.empty((0,), dtype=float)
        assert flat.dtype == ref.dtype and flat.shape == ref.shape
        assert flat.tobytes() == ref.tobytes()
        v[name].set_flattened(flat)  # writing it back restores the same data
        v[name] = flat
        assert state(v) == before
    # copies share no mutable state
    c = v.copy()
    assert state(c) == before
    for arr in cells(c._data, c.shape):
        if arr is not None and arr.size:
            arr += 1
    if c.num_fields:
        c.add_fields("zz_extra")
    c.name = "other"
    assert state(v) == before
    assert c.fields is not v.fields or not c.num_fields


# --------------------------------------------------------------------------------------
# random operation histories
# --------------------------------------------------------------------------------------
def rand_array(rng, ncols, chaos=False):
    rows = int(rng.integers(0, 4))
    kind = int(rng.integers(0, 4))
    if kind == 0:
        a = rng.integers(-5, 6, size=(rows, ncols)).astype(np.int64)
    elif kind == 1:
        a = rng.standard_normal((rows, ncols)).astype(np.float32)
    else:
        a = rng.standard_normal((rows, ncols))
    if chaos and rng.random() < 0.1:
        a = a.reshape(-1)  # wrong rank
    return a


def rand_index(rng, shape, full=True, allow_multi=True):
    n = len(shape) if full else int(rng.integers(1, len(shape) + 1))
    idx = []
    for s in shape[:n]:
        k = int(rng.integers(0, 6)) if allow_multi else 0
        if k <= 1:
            idx.append(int(rng.integers(0, s)))
        elif k == 2:
            a = int(rng.integers(0, s))
            b = int(rng.integers(a, s + 1))
            idx.append(slice(a, b))
        elif k == 3:
            idx.append(slice(None, None, int(rng.choice([1, 2, -1]))))
        elif k == 4:
            idx.append([int(i) for i in rng.integers(0, s, size=int(rng.integers(1, 4)))])
        else:
            idx.append(np.asarray(rng.integers(0, s, size=int(rng.integers(1, 3)))))
    return tuple(idx) if (len(idx) > 1 or rng.random() < 0.5) else idx[0]


def count_cells(idx, shape):
    idx = idx if isinstance(idx, tuple) else (idx,)
    n = 1
    for i, s in zip(idx, shape):
        if isinstance(i, slice):
            n *= len(range(*i.indices(s)))
        elif isinstance(i, (list, np.ndarray)):
            n *= len(i)
    return n


def make_op(rng, v: Vector, chaos: bool):
    """Return (label, fn(vector, args) -> result, args).  args are deep-copied per side."""
    shape = v.shape
    nf = v.num_fields
    fields = list(v.fields)
    r = rng.random
    ops = [
        "set_cell", "set_cell", "set_multi", "set_multi", "set_vec", "get", "get",
        "field_op", "field_op", "flatten", "field_flat", "set_flat", "add", "remove",
        "copy", "set_data", "get_data", "data_setter", "field_get",
    ]
    op = str(rng.choice(ops))
    bad = r() < 0.15

    if op == "set_cell":
        idx = rand_index(rng, shape, full=not (chaos and r() < 0.2), allow_multi=False)
        if chaos and r() < 0.2:
            idx = tuple(-1 for _ in shape)
        val = rand_array(rng, nf + (1 if bad else 0), chaos)
        if bad and r() < 0.3:
            val = val.tolist()

        def fn(vec, a):
            vec[a[0]] = a[1]
            ref = vec._data
            try:
                for i in a[0] if isinstance(a[0], tuple) else (a[0],):
                    ref = ref[i]
            except Exception:  # noqa: BLE001
                ref = None
            return ("stored-is-value", ref is a[1])

        return op, fn, (idx, val)

    if op == "set_multi":
        idx = rand_index(rng, shape, full=not (chaos and r() < 0.2))
        n = count_cells(idx, shape) + (1 if bad else 0)
        vals = [rand_array(rng, nf + (1 if (bad and r() < 0.3) else 0), chaos) for _ in range(n)]
        if bad and r() < 0.2:
            vals = tuple(vals)
        if bad and r() < 0.2 and vals:
            vals = list(vals)
            vals[-1] = None

        def fn(vec, a):
            vec[a[0]] = a[1]

        return op, fn, (idx, vals)

    if op == "set_vec":
        src = rand_index(rng, shape)
        dst = rand_index(rng, shape)

        def fn(vec, a):
            vec[a[1]] = vec[a[0]]

        return op, fn, (src, dst)

    if op == "get":
        idx = rand_index(rng, shape, full=r() < 0.7)
        return op, (lambda vec, a: vec[a]), idx

    if op == "field_get":
        idx = rand_index(rng, shape, full=r() < 0.7)
        name = str(rng.choice(fields)) if fields else "nope"
        return op, (lambda vec, a: vec[a[0]][a[1]]), (name, idx)

    if op == "field_op":
        name = "missing" if (bad or not fields) else str(rng.choice(fields))
        sym = str(rng.choice(["+", "-", "*", "/", "//", "%", "**"]))
        other = [2, 0.5, 3.0, -1, 0][int(rng.integers(0, 5))]

        def fn(vec, a):
            name, sym, other = a
            if sym == "+":
                vec[name] += other
            elif sym == "-":
                vec[name] -= other
            elif sym == "*":
                vec[name] *= other
            elif sym == "/":
                vec[name] /= other
            elif sym == "//":
                vec[name] //= other
            elif sym == "%":
                vec[name] %= other
            else:
                vec[name] **= other

        return op, fn, (name, sym, other)

    if op == "flatten":
        return op, (lambda vec, a: vec.flatten()), None

    if op == "field_flat":
        name = "missing" if (bad or not fields) else str(rng.choice(fields))
        return op, (lambda vec, a: (vec[a].flatten(), np.asarray(vec[a]))), name

    if op == "set_flat":
        name = "missing" if (not fields) else str(rng.choice(fields))
        total = sum(
            c.shape[0] for c in _all_arrays(v._data) if isinstance(c, np.ndarray) and c.ndim >= 1
        )
        n = total + (1 if bad else 0)
        vals = rng.standard_normal(n)
        if r() < 0.3:
            vals = vals.tolist()
        if bad and r() < 0.3:
            vals = np.zeros((n, 1))
        use_item = r() < 0.5

        def fn(vec, a):
            if a[2]:
                vec[a[0]] = a[1]
            else:
                vec[a[0]].set_flattened(a[1])

        return op, fn, (name, vals, use_item)

    if op == "add":
        k = int(rng.integers(1, 3))
        names = [f"n{int(rng.integers(0, 6))}" for _ in range(k)]
        if bad and fields:
            names[0] = fields[0]
        form = int(rng.integers(0, 3))
        arg: Any = names[0] if form == 0 else (names if form == 1 else tuple(names))
        if nf >= 5:
            arg = fields[0]  # keep the schema small: this raises on both sides
        return op, (lambda vec, a: vec.add_fields(a)), arg

    if op == "remove":
        names = []
        if fields and (nf > 1 or chaos or r() < 0.1):
            names.append(str(rng.choice(fields)))
        if r() < 0.3:
            names.append("missing")
        if r() < 0.2 and names:
            names.append(names[0])
        form = int(rng.integers(0, 3))
        arg = (names[0] if names else "missing") if form == 0 else (
            names if form == 1 else tuple(names)
        )
        return op, (lambda vec, a: vec.remove_fields(a)), arg

    if op == "copy":
        def fn(vec, a):
            c = vec.copy()
            return c

        return op, fn, None

    if op == "set_data":
        idx = rand_index(rng, shape)
        idx = idx if isinstance(idx, tuple) else (idx,)
        n = count_cells(idx, shape)
        multi = any(not isinstance(i, int) for i in idx)
        if multi:
            val: Any = [rand_array(rng, nf + (1 if bad else 0), chaos) for _ in range(n)]
        else:
            val = rand_array(rng, nf + (1 if bad else 0), chaos)
        return op, (lambda vec, a: vec.set_data(a[1], *a[0])), (idx, val)

    if op == "get_data":
        idx = rand_index(rng, shape)
        idx = idx if isinstance(idx, tuple) else (idx,)
        return op, (lambda vec, a: vec.get_data(*a)), idx

    if op == "data_setter":
        # only meaningful for 1-D vectors (validate_vector_data checks one level); on deeper
        # vectors it is exercised in chaos mode only
        if len(shape) != 1 and not chaos:
            return "flatten", (lambda vec, a: vec.flatten()), None
        n = shape[0] + (1 if (bad and r() < 0.5) else 0)
        items: Any = []
        for _ in range(n):
            a = rand_array(rng, nf + (1 if (bad and r() < 0.3) else 0))
            items.append(a.tolist() if (r() < 0.4 and a.shape[0] > 0) else a)
        if bad and r() < 0.2:
            items = tuple(items)
        if bad and r() < 0.2 and items:
            items = list(items)
            items[0] = 3.0

        def fn(vec, a):
            vec.data = a
            return ("kept-objects", [x is y for x, y in zip(vec._data, a)], vec._data is a)

        return op, fn, items

    raise AssertionError(op)


def _all_arrays(data):
    if isinstance(data, list):
        for sub in data:
            yield from _all_arrays(sub)
    else:
        yield data


def run_history(seed: int, chaos: bool, steps: int = 45) -> int:
    rng = np.random.default_rng(seed)
    ndim = int(rng.integers(1, 4))
    shape = tuple(int(x) for x in rng.integers(1, 4, size=ndim))
    nf = int(rng.integers(1, 4))
    fields = [f"f{i}" for i in range(nf)]
    units = [f"u{i}" for i in range(nf)] if rng.random() < 0.5 else None

    if ndim == 1 and rng.random() < 0.5:
        data = [rand_array(rng, nf) for _ in range(shape[0])]
        data = [d.tolist() if (d.shape[0] and rng.random() < 0.3) else d for d in data]
        new = Vector.from_data(_copy.deepcopy(data), fields=fields, units=units, name="h")
        old = OrigVector.from_data(_copy.deepcopy(data), fields=fields, units=units, name="h")
    else:
        new = Vector.from_shape(shape, fields=fields, units=units, name="h")
        old = OrigVector.from_shape(shape, fields=list(fields), units=units, name="h")
    assert type(new) is Vector and type(old) is OrigVector
    assert state(new) == state(old)

    n_ok = 0
    for step in range(steps):
        label, fn, args = make_op(rng, new, chaos)
        a_new, a_old = _copy.deepcopy(args), _copy.deepcopy(args)
        out_new, r_new = call(lambda vec: fn(vec, a_new), new)
        out_old, r_old = call(lambda vec: fn(vec, a_old), old)
        ctx = (seed, step, label, args)
        assert out_new == out_old, (ctx, out_new, out_old)
        assert state(new) == state(old), ctx
        assert norm(a_new) == norm(a_old), ctx  # same effect on the arguments
        n_ok += out_new[0] == "ok"
        if label == "copy" and r_new is not None and rng.random() < 0.5:
            new, old = r_new, to_orig(r_old)  # continue the history on the copy
        if label == "get" and isinstance(r_new, Vector) and rng.random() < 0.15 and not chaos:
            new, old = r_new.copy(), to_orig(r_old.copy())  # ... or on a sliced sub-vector
        if not chaos:
            check_invariants(new)
            assert state(new) == state(old), ctx
    return n_ok


# --------------------------------------------------------------------------------------
# direct old-vs-new comparison of validate_vector_data
# --------------------------------------------------------------------------------------
def check_validate_vector_data() -> int:
    rng = np.random.default_rng(7)
    a2 = np.arange(6.0).reshape(3, 2)
    b2 = np.zeros((0, 2))
    c3 = np.ones((2, 3))
    cases = [
        ([a2, b2], (2,), 2),
        ([a2, b2], (3,), 2),
        ([a2, b2], (2, 5), 2),
        ([a2, c3], (2,), 2),
        ([a2.tolist(), b2], (2,), 2),
        ([[[1, 2], [3, 4]], [[5, 6]]], (2,), 2),
        ([[[1, 2], [3, 4]], [[5, 6]]], (2,), 3),
        ([a2, None], (2,), 2),
        ([a2, 3.0], (2,), 2),
        ([np.arange(3.0)], (1,), 3),
        ([[]], (1,), 1),
        ((a2, b2), (2,), 2),
        (a2, (3,), 2),
        ([], (0,), 2),
        ([], (1,), 2),
        ([a2], (True,), 2),
        ([a2], (1.0,), 2),
        ([a2], (np.int64(1),), 2),
        ([a2, a2], (np.int64(1),), 2),
        ([a2], (), 2),
        ([np.ones((2, 2, 2))], (1,), 2),
    ]
    for _ in range(200):
        n = int(rng.integers(0, 4))
        nfld = int(rng.integers(1, 4))
        items: list = []
        for _ in range(n):
            a = rand_array(rng, nfld + int(rng.random() < 0.1), chaos=True)
            items.append(a.tolist() if rng.random() < 0.3 else a)
        cases.append((items, (n + int(rng.random() < 0.2),), nfld))

    for data, shape, nfld in cases:
        d_new, d_old = _copy.deepcopy(data), _copy.deepcopy(data)

        def run(f, d):
            try:
                out = f(d, shape, nfld)
                keep = [x is y for x, y in zip(out, d)]
                return ("ok", norm(out), keep, out is d)
            except Exception as e:  # noqa: BLE001
                return ("exc", type(e).__name__, str(e))

        r_new = run(new_validate_vector_data, d_new)
        r_old = run(orig_validate_vector_data, d_old)
        assert r_new == r_old, (data, shape, nfld, r_new, r_old)
        assert norm(d_new) == norm(d_old)
    return len(cases)


# --------------------------------------------------------------------------------------
# a few deterministic scenarios from the property text (1-D slicing, interleaving, ...)
# --------------------------------------------------------------------------------------
def scripted(cls) -> list:
    log = []
    v = cls.from_shape((4, 3), fields=["a", "b", "c"], units=["A", "B", "C"], name="s")
    for i in range(4):
        for j in range(3):
            if (i, j) != (1, 1):
                v[i, j] = np.arange(float((i + j) % 3 * 3)).reshape(-1, 3) + i
    log.append(state(v))
    v.add_fields(("d", "e"))
    v[1, 1] = np.arange(10.0).reshape(2, 5)
    v["d"] += 2
    v["e"] = np.arange(v["e"].flatten().shape[0]) * 1.5
    v[2:4, 1] = v[1:3, 1]
    v[[0, 1], 0] = [np.ones((1, 5)), np.zeros((0, 5))]
    log.append(state(v))
    v.remove_fields(["b", "zzz", "d"])
    log.append(state(v))
    log.append(norm(v.flatten()))
    log.append(norm([v[f].flatten() for f in v.fields]))
    w = v[1:, ::2]
    log.append(state(w))
    c = v.copy()
    c["a"] *= 0
    log.append((state(v), state(c)))
    one = cls.from_data([np.ones((2, 2)), [[1, 2]], np.zeros((0, 2))], fields=["x", "y"])
    log.append(state(one[1:]))
    log.append(state(one[[2, 0]]))
    one[0:2] = [np.full((1, 2), 7.0), np.full((3, 2), 8)]
    one.add_fields("z")
    one["z"] = np.arange(4)
    one.remove_fields("x")
    log.append(state(one))
    three = cls.from_shape((2, 1, 2), num_fields=2)
    three[:, 0, :] = [np.full((k, 2), float(k)) for k in range(4)]
    three[1, 0, 1] = np.empty((0, 2))
    three.add_fields(["q"])
    three["q"] -= 1
    log.append(state(three))
    log.append(state(three[1]))
    log.append(state(three[:, 0, [1, 0]]))
    for bad in (
        lambda: three.add_fields("q"),
        lambda: three.add_fields(["r", "r"]),
        lambda: three.__setitem__((0, 0, 0), np.ones((1, 2))),
        lambda: three.__setitem__((slice(None), 0, 0), [np.ones((1, 3))]),
        lambda: three.__setitem__((slice(None), 0, 0), np.ones((1, 3))),
        lambda: three.__setitem__("nope", [1.0]),
        lambda: three["q"].set_flattened([1.0]),
        lambda: setattr(one, "data", [np.ones((1, 2))]),
        lambda: setattr(one, "data", [np.ones((1, 3))] * 3),
    ):
        log.append(call(lambda _: bad(), None)[0])
    log.append(state(three))
    log.append(state(one))
    return log


def main() -> None:
    n = check_validate_vector_data()
    print(f"validate_vector_data: {n} cases old == new")

    buf_new, buf_old = io.StringIO(), io.StringIO()
    with contextlib.redirect_stdout(buf_new):
        log_new = scripted(Vector)
    with contextlib.redirect_stdout(buf_old):
        log_old = scripted(OrigVector)
    assert log_new == log_old
    assert buf_new.getvalue() == buf_old.getvalue() != ""
    print(f"scripted scenario: {len(log_new)} checkpoints old == new")

    ok = 0
    for seed in range(260):
        ok += run_history(seed, chaos=False)
    print(f"clean histories: 260 x 45 steps, {ok} successful ops, old == new, invariants hold")
    ok = 0
    for seed in range(1000, 1160):
        ok += run_history(seed, chaos=True)
    print(f"chaos histories: 160 x 45 steps, {ok} successful ops, old == new")
    print("OK")


if __name__ == "__main__":
    main()
    sys.exit(0)
