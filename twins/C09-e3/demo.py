"""C09 / patch 3: SimpleBatcher.__iter__ / __len__ / iter_val / val_len share the helpers
`_iter_chunks` and `_num_chunks`.

Checks, for a spread of (num, batch_size, val_ratio, val_mode, shuffle, seed):
  * the batches yielded over several epochs, the validation batches, len() and val_len() are
    identical (values, dtype, aliasing, kind of iterator, rng consumption and its laziness)
    to a verbatim copy of the ORIGINAL class;
  * every training pattern is visited exactly once per epoch, validation patterns exactly
    once per validation pass, reported lengths equal the number of batches yielded;
  * degenerate batch sizes fail (or yield nothing) exactly as before;
  * end to end: two seeded reconstructions with a non-dividing batch size and a validation
    split give identical loss histories.
"""

import io
import itertools
import types
import warnings
from contextlib import redirect_stderr, redirect_stdout
from math import ceil
from typing import Literal

import numpy as np

warnings.filterwarnings("ignore")

from quantem.diffractive_imaging.ptycho_utils import SimpleBatcher  # noqa: E402


class OriginalBatcher:
    """Verbatim copy of the original SimpleBatcher."""

    def __init__(
        self,
        num: int,
        batch_size: int | None,
        shuffle: bool = True,
        rng: np.random.Generator | int | None = None,
        val_ratio: float = 0.0,
        val_mode: Literal["grid", "random"] = "grid",
        train_indices: np.ndarray | None = None,
        val_indices: np.ndarray | None = None,
    ):
        self.indices = np.arange(num)
        self.batch_size = batch_size if batch_size is not None else num
        self.shuffle = shuffle
        self.rng = rng

        # Train/validation split (fixed for the lifetime of this batcher)
        if train_indices is not None or val_indices is not None:
            if train_indices is None or val_indices is None:
                raise ValueError("Both train_indices and val_indices must be provided together.")
            self.train_indices = np.asarray(train_indices, dtype=int)
            self.val_indices = np.asarray(val_indices, dtype=int)
        else:
            # Validate ratio and split deterministically given rng
            if val_ratio < 0 or val_ratio >= 1:
                val_ratio = 0.0
            n_val = int(round(len(self.indices) * val_ratio))
            if n_val > 0:
                if val_mode == "random":
                    # Random unique selection for validation
                    perm = self.rng.permutation(self.indices)
                    self.val_indices = perm[:n_val]
                    self.train_indices = np.setdiff1d(
                        self.indices, self.val_indices, assume_unique=False
                    )
                else:  # grid/regular selection: every k-th index
                    if val_ratio <= 0.5:
                        k = max(1, int(round(1.0 / val_ratio)))
                        invert = False
                    else:
                        k = max(1, int(round(1.0 / (1.0 - val_ratio))))
                        invert = True

                    grid_sel = self.indices[::k]
                    if len(grid_sel) > n_val:
                        grid_sel = grid_sel[:n_val]
                    if invert:
                        self.train_indices = grid_sel
                        self.val_indices = np.setdiff1d(
                            self.indices, grid_sel, assume_unique=False
                        )
                    else:
                        self.val_indices = grid_sel
                        self.train_indices = np.setdiff1d(
                            self.indices, self.val_indices, assume_unique=False
                        )
            else:
                self.val_indices = np.asarray([], dtype=int)
                self.train_indices = self.indices

    @property
    def rng(self) -> np.random.Generator:
        return self._rng

    @rng.setter
    def rng(self, rng: np.random.Generator | int | None):
        if rng is None:
            rng = np.random.default_rng()
        elif isinstance(rng, (int, float)):
            rng = np.random.default_rng(rng)
        elif not isinstance(rng, np.random.Generator):
            raise TypeError(f"rng should be a np.random.Generator or a seed, got {type(rng)}")
        self._rng = rng

    def __iter__(self):
        train_order = (
            self.rng.permutation(self.train_indices) if self.shuffle else self.train_indices
        )
        for i in range(0, len(train_order), self.batch_size):
            yield train_order[i : i + self.batch_size]

    def __len__(self):
        return int(ceil(len(self.train_indices) / self.batch_size))

    def iter_val(self):
        if len(self.val_indices) == 0:
            return iter(())

        # Do not shuffle validation by default
        def _gen():
            for i in range(0, len(self.val_indices), self.batch_size):
                yield self.val_indices[i : i + self.batch_size]

        return _gen()

    @property
    def has_validation(self) -> bool:
        return len(self.val_indices) > 0

    def val_len(self) -> int:
        return int(ceil(len(self.val_indices) / self.batch_size)) if self.has_validation else 0


def same_batches(xs, ys):
    assert len(xs) == len(ys), (len(xs), len(ys))
    for x, y in zip(xs, ys):
        assert isinstance(x, np.ndarray) and isinstance(y, np.ndarray)
        assert x.dtype == y.dtype and x.shape == y.shape and np.array_equal(x, y)


def outcome(fn):
    """Result of fn() or the (type, message) of the exception it raises."""
    try:
        return ("ok", fn())
    except Exception as err:  # noqa: BLE001
        return ("raised", type(err), str(err))


NUMS = [0, 1, 2, 3, 5, 8, 12, 13, 24, 25, 49, 100]
BATCHES = [None, 1, 2, 3, 4, 5, 7, 8, 12, 13, 24, 64, 1000]
RATIOS = [0.0, 0.1, 0.25, 0.5, 0.75, 0.9]
MODES = ["grid", "random"]

n_cases = 0
for num, bs, ratio, mode, shuffle in itertools.product(NUMS, BATCHES, RATIOS, MODES, [True, False]):
    if num == 0 and bs is None:
        continue  # batch_size 0, covered in the failure section below
    kw = dict(shuffle=shuffle, rng=2024, val_ratio=ratio, val_mode=mode)
    new, old = SimpleBatcher(num, bs, **kw), OriginalBatcher(num, bs, **kw)
    eff = bs if bs is not None else num
    assert len(new) == len(old) and type(len(new)) is int
    assert new.val_len() == old.val_len() and type(new.val_len()) is type(old.val_len())
    assert new.has_validation == old.has_validation

    for _epoch in range(3):
        nb, ob = list(new), list(old)
        same_batches(nb, ob)
        # ---- the property ----
        assert len(nb) == len(new), (num, bs, ratio, mode)
        seen = np.concatenate(nb) if nb else np.array([], dtype=int)
        assert len(seen) == len(new.train_indices)
        assert np.array_equal(np.sort(seen), np.sort(new.train_indices))
        assert all(len(b) == eff for b in nb[:-1]) and all(0 < len(b) <= eff for b in nb)
        if not shuffle:
            assert np.array_equal(seen, new.train_indices)
            # unshuffled batches are views into the fixed split, as before
            for x, y in zip(nb, ob):
                assert np.shares_memory(x, new.train_indices) == np.shares_memory(
                    y, old.train_indices
                )

        nv, ov = list(new.iter_val()), list(old.iter_val())
        same_batches(nv, ov)
        assert len(nv) == new.val_len()
        vseen = np.concatenate(nv) if nv else np.array([], dtype=int)
        assert np.array_equal(vseen, new.val_indices)
        assert len(np.intersect1d(seen, vseen)) == 0
        assert np.array_equal(np.sort(np.concatenate([seen, vseen])), np.arange(num))
        for x, y in zip(nv, ov):
            assert np.shares_memory(x, new.val_indices) == np.shares_memory(y, old.val_indices)

    # same kind of iterator objects
    assert type(new.iter_val()) is type(old.iter_val()), (num, ratio)
    assert isinstance(iter(new), types.GeneratorType)
    assert iter(new.iter_val()) is not None
    # same randomness consumed
    assert np.array_equal(new.rng.integers(0, 2**31, 4), old.rng.integers(0, 2**31, 4))
    n_cases += 1

# the shuffle is drawn lazily, at the first next(), and only once per epoch
for cls in (SimpleBatcher, OriginalBatcher):
    ref = np.random.default_rng(9)
    b = cls(10, 3, rng=np.random.default_rng(9))
    it = iter(b)
    assert b.rng.bit_generator.state == ref.bit_generator.state  # nothing drawn yet
    first = next(it)
    expected = ref.permutation(np.arange(10))
    assert np.array_equal(first, expected[:3])
    assert b.rng.bit_generator.state == ref.bit_generator.state
    rest = list(it)
    assert np.array_equal(np.concatenate([first] + rest), expected)
    assert b.rng.bit_generator.state == ref.bit_generator.state

# interleaved / abandoned iterators
for seed in (0, 7):
    new, old = SimpleBatcher(17, 4, rng=seed), OriginalBatcher(17, 4, rng=seed)
    i1n, i1o = iter(new), iter(old)
    a_n, a_o = next(i1n), next(i1o)
    i2n, i2o = iter(new), iter(old)
    same_batches([a_n, next(i2n), next(i1n)], [a_o, next(i2o), next(i1o)])
    i1n.close(), i1o.close()
    same_batches(list(i2n), list(i2o))
    same_batches(list(i1n), list(i1o))  # closed -> empty
    for x, y in zip(new, old):  # early break, then a fresh epoch
        break
    same_batches(list(new), list(old))
    # batch size changed between epochs is honoured by both
    new.batch_size = old.batch_size = 6
    same_batches(list(new), list(old))
    assert len(new) == len(old) == 3

# validation iterator is re-creatable and independent of the training iterator
new = SimpleBatcher(23, 4, rng=1, val_ratio=0.3, val_mode="random")
old = OriginalBatcher(23, 4, rng=1, val_ratio=0.3, val_mode="random")
v1, v2 = new.iter_val(), new.iter_val()
x = next(v1)
same_batches([x] + list(v1), list(v2))
same_batches(list(new.iter_val()), list(old.iter_val()))

# explicit split
tr, va = [9, 1, 5, 3, 7], [0, 2, 4]
for shuffle in (True, False):
    new = SimpleBatcher(10, 2, shuffle=shuffle, rng=4, train_indices=tr, val_indices=va)
    old = OriginalBatcher(10, 2, shuffle=shuffle, rng=4, train_indices=tr, val_indices=va)
    for _ in range(2):
        same_batches(list(new), list(old))
        same_batches(list(new.iter_val()), list(old.iter_val()))
    assert len(new) == len(old) == 3 and new.val_len() == old.val_len() == 2

# degenerate batch sizes: same exceptions / same empty schedules
for num, bs, ratio in [(0, None, 0.0), (6, 0, 0.0), (6, 0, 0.5), (6, -2, 0.0), (6, -2, 0.5),
                       (6, 2.0, 0.0), (6, 2.5, 0.5), (0, 3, 0.0), (0, 3, 0.5)]:  # fmt: skip
    new = SimpleBatcher(num, bs, rng=0, val_ratio=ratio)
    old = OriginalBatcher(num, bs, rng=0, val_ratio=ratio)
    for f_new, f_old in [
        (lambda: len(new), lambda: len(old)),
        (lambda: new.val_len(), lambda: old.val_len()),
        (lambda: [b.tolist() for b in new], lambda: [b.tolist() for b in old]),
        (lambda: [b.tolist() for b in new.iter_val()], lambda: [b.tolist() for b in old.iter_val()]),
        (lambda: type(new.iter_val()).__name__, lambda: type(old.iter_val()).__name__),
    ]:
        assert outcome(f_new) == outcome(f_old), (num, bs, ratio, outcome(f_new), outcome(f_old))
    # creating the iterators never raises; errors only surface on the first next()
    iter(new), new.iter_val()

# ------------------------------------------------------------------ end to end
import torch  # noqa: E402

torch.set_num_threads(2)
from quantem.core.datastructures.dataset4dstem import Dataset4dstem  # noqa: E402
from quantem.core.utils.utils import electron_wavelength_angstrom  # noqa: E402
from quantem.diffractive_imaging.dataset_models import PtychographyDatasetRaster  # noqa: E402
from quantem.diffractive_imaging.detector_models import DetectorPixelated  # noqa: E402
from quantem.diffractive_imaging.object_models import ObjectPixelated  # noqa: E402
from quantem.diffractive_imaging.probe_models import ProbePixelated  # noqa: E402
from quantem.diffractive_imaging.ptychography import Ptychography  # noqa: E402

N, SX, SY, Q_MAX, E, C10 = 16, 5, 5, 0.5, 300e3, 50


def build(seed):
    rng = np.random.default_rng(7)
    arr = rng.random((N, N))
    arr -= arr.mean()
    obj = np.exp(1j * arr.astype(np.float32))
    rs = 2 * Q_MAX / N
    qx = np.fft.fftfreq(N, 1 / Q_MAX / 2)
    q = np.sqrt(qx[:, None] ** 2 + qx[None, :] ** 2)
    pf = np.sqrt(np.clip((Q_MAX / 2 - q) / rs + 0.5, 0, 1)) * np.exp(
        -1j * q**2 * electron_wavelength_angstrom(E) * np.pi * C10
    )
    pf /= np.sqrt(np.sum(np.abs(pf) ** 2))
    probe = np.fft.ifft2(pf) * N
    xx, yy = np.meshgrid(np.arange(0.0, SX * 2, 2), np.arange(0.0, SY * 2, 2), indexing="ij")
    x0, y0 = xx.ravel().astype(int), yy.ravel().astype(int)
    xi = np.fft.fftfreq(N, 1 / N).astype(int)
    row = (x0[:, None, None] + xi[None, :, None]) % N
    col = (y0[:, None, None] + xi[None, None, :]) % N
    inten = np.abs(np.fft.fft2(obj[row, col] * probe)) ** 2
    d = Dataset4dstem.from_array(
        array=np.fft.fftshift(inten * 100, axes=(-2, -1)).reshape((SX, SY, N, N)),
        sampling=(2, 2, rs, rs),
        units=("A", "A", "A^-1", "A^-1"),
    )
    with redirect_stdout(io.StringIO()), redirect_stderr(io.StringIO()):
        pd = PtychographyDatasetRaster.from_dataset4dstem(d)
        pd.preprocess(
            com_fit_function="constant",
            plot_rotation=False,
            plot_com=False,
            probe_energy=E,
            force_com_rotation=0,
            force_com_transpose=False,
        )
        pt = Ptychography.from_models(
            dset=pd,
            obj_model=ObjectPixelated.from_uniform(
                num_slices=1, obj_type="complex", slice_thicknesses=1
            ),
            probe_model=ProbePixelated.from_array(
                num_probes=1,
                probe_params={
                    "energy": E,
                    "C10": C10,
                    "semiangle_cutoff": electron_wavelength_angstrom(E) * 1e3,
                },
                probe_array=probe,
            ),
            detector_model=DetectorPixelated(),
            rng=seed,
            verbose=False,
        )
        pt.preprocess(obj_padding_px=(0, 0))
    return pt


OPT = {"object": {"type": "sgd", "lr": 0.5}, "probe": {"type": "sgd", "lr": 0.5}}
for bs, ratio, mode in [(4, 0.0, "grid"), (5, 0.0, "grid"), (4, 0.2, "grid"), (7, 0.3, "random")]:
    runs = []
    a, b = build(31), build(31)
    for m in (a, b, a):  # third: the same object again after a reset
        m.val_ratio, m.val_mode = ratio, mode
        m.reconstruct(
            num_iters=3,
            reset=True,
            optimizer_params=OPT,
            constraints={"probe": {"orthogonalize_probe": False}},
            batch_size=bs,
        )
        runs.append((list(m._iter_losses), list(m._iter_val_losses)))
        assert len(m._iter_losses) == 3
        assert len(m._iter_val_losses) == (3 if ratio > 0 else 0)
    assert runs[0] == runs[1] == runs[2], (bs, ratio, mode, runs)
    assert all(np.isfinite(runs[0][0]))

print(f"PASS ({n_cases} configurations)")
