"""Demo for patch 2: Dataset.__getitem__ step-scaling loop walks the kept axes and the
class lookup uses dict.get.

Compares Dataset.__getitem__ with a verbatim copy of the original implementation on
1..5-D datasets (incl. length-1 axes, integer-typed calibration, subclasses) for ints,
numpy ints, slices with positive / negative / None steps, lists, arrays, Ellipsis,
and failing expressions (None, too many indices, all-int), then asserts the indexing
property directly against NumPy.
"""
import itertools
import warnings

import numpy as np

from quantem.core.datastructures.dataset import Dataset
from quantem.core.datastructures.dataset2d import Dataset2d
from quantem.core.datastructures.dataset3d import Dataset3d
from quantem.core.datastructures.dataset4d import Dataset4d
from quantem.core.datastructures.dataset4dstem import Dataset4dstem

warnings.simplefilter("ignore")


def old_getitem(self, index):
    array_view = self.array[index]

    # Normalize index into tuple form
    if not isinstance(index, tuple):
        index = (index,)

    # Expand Ellipsis
    if Ellipsis in index:
        ellipsis_pos = index.index(Ellipsis)
        num_missing = self.ndim - (len(index) - 1)
        index = index[:ellipsis_pos] + (slice(None),) * num_missing + index[ellipsis_pos + 1 :]

    # Pad with slices if index shorter than ndim
    if len(index) < self.ndim:
        index = index + (slice(None),) * (self.ndim - len(index))

    # Compute which dimensions are kept
    kept_axes = [i for i, idx in enumerate(index) if not isinstance(idx, (int, np.integer))]

    # Slice/reduce metadata accordingly
    new_origin = (
        np.asarray(self.origin)[kept_axes] if np.ndim(self.origin) > 0 else self.origin
    )
    new_sampling = (
        np.asarray(self.sampling)[kept_axes] if np.ndim(self.sampling) > 0 else self.sampling
    )
    new_units = [self.units[i] for i in kept_axes] if len(self.units) > 0 else self.units

    # Adjust sampling for slice steps (e.g. [::2] doubles spacing)
    for i, idx in enumerate(index):
        if isinstance(idx, slice) and idx.step not in (None, 1):
            if i in kept_axes:
                j = kept_axes.index(i)
                new_sampling[j] *= idx.step

    out_ndim = array_view.ndim

    if out_ndim == self.ndim:
        cls = type(self)
    else:
        try:
            cls = self._registry[out_ndim]
        except KeyError:
            cls = Dataset

    # Construct new dataset
    return cls.from_array(  # type: ignore
        array=array_view,
        name=f"{self.name}{index}",
        origin=new_origin,
        sampling=new_sampling,
        units=new_units,
        signal_units=self.signal_units,
    )


def snapshot(ds):
    return (
        type(ds), ds.array.shape, ds.array.dtype, ds.array.tobytes(), ds.name,
        ds.origin.dtype, ds.origin.tobytes(), ds.sampling.dtype, ds.sampling.tobytes(),
        tuple(ds.units), ds.signal_units,
    )


def outcome(fn, ds, index):
    try:
        res = fn(ds, index)
    except Exception as e:  # noqa: BLE001
        return ("exc", type(e), str(e))
    return ("ok",) + snapshot(res)


def make(cls, shape, int_calib=False, dtype=np.float32):
    nd = len(shape)
    arr = np.arange(int(np.prod(shape)), dtype=dtype).reshape(shape)
    if int_calib:
        origin = np.arange(1, nd + 1, dtype=np.int64)
        sampling = np.arange(2, nd + 2, dtype=np.int32)
    else:
        origin = np.linspace(-1.5, 2.5, nd)
        sampling = np.linspace(0.1, 0.7, nd)
    return cls.from_array(arr, name="d", origin=origin, sampling=sampling,
                          units=[f"u{k}" for k in range(nd)], signal_units="e")


per_axis = [
    0, -1, np.int64(1), np.uint8(0), slice(None), slice(None, None, 2), slice(1, None, 3),
    slice(None, None, -1), slice(None, None, -2), slice(0, 1), slice(None, None, 1),
    slice(None, None, np.int64(2)), [0], [0, -1],
]
extra_whole = [
    Ellipsis, (Ellipsis,), (Ellipsis, 0), (0, Ellipsis), (Ellipsis, slice(None, None, 2)),
    (slice(None, None, 2), Ellipsis), (Ellipsis, [0, -1]), (0, Ellipsis, slice(None, None, -1)),
    None, (None,), (None, slice(None, None, 2)), (slice(None, None, 2), None), True, False,
    (Ellipsis, Ellipsis), 99, (slice(None),) * 6, slice(None, None, 0), "a", 1.5,
    np.array([0]), (np.array([0, -1]),), (np.array([0, -1]), Ellipsis), (slice(None, None, 2), np.array([0])),
    np.array([True]), (),
]

configs = [
    (Dataset, (6,)), (Dataset, (1,)), (Dataset2d, (5, 4)), (Dataset2d, (1, 7)), (Dataset, (3, 5)),
    (Dataset3d, (4, 1, 3)), (Dataset3d, (2, 3, 5)), (Dataset4d, (2, 3, 4, 5)),
    (Dataset4dstem, (3, 2, 4, 5)), (Dataset4dstem, (1, 2, 1, 3)), (Dataset, (2, 1, 3, 2, 2)),
]

n_cmp = n_prop = 0
for (cls, shape), int_calib in itertools.product(configs, (False, True)):
    ds = make(cls, shape, int_calib)
    before = snapshot(ds)
    nd = len(shape)
    # all per-axis combinations for the first <=3 positions (shorter tuples exercise padding)
    exprs = list(extra_whole)
    for n in range(1, min(nd, 3) + 1):
        exprs.extend(itertools.product(per_axis, repeat=n) if n < 3 else
                     itertools.product(per_axis[::2], repeat=n))
    exprs.extend(per_axis)
    for index in exprs:
        # at most one list per expression keeps numpy semantics simple ("basic and list")
        a = outcome(old_getitem, ds, index)
        b = outcome(lambda d, i: d[i], ds, index)
        assert a == b, (cls, shape, index, a, b)
        n_cmp += 1
        assert snapshot(ds) == before, "source modified by indexing"

        if b[0] != "ok":
            continue
        tup = index if isinstance(index, tuple) else (index,)
        if any(t is None or isinstance(t, (bool, np.bool_)) for t in tup):
            continue
        if any(isinstance(t, np.ndarray) and t.dtype == bool for t in tup):
            continue
        if sum(isinstance(t, (list, np.ndarray)) for t in tup) > 1:
            continue
        # direct property check against NumPy
        res = ds[index]
        assert np.array_equal(res.array, ds.array[index])
        full = list(tup)
        if Ellipsis in [t for t in full if not isinstance(t, (list, np.ndarray))]:
            pos = [k for k, t in enumerate(full) if t is Ellipsis][0]
            full = full[:pos] + [slice(None)] * (nd - (len(full) - 1)) + full[pos + 1:]
        full += [slice(None)] * (nd - len(full))
        kept = [k for k, t in enumerate(full) if not isinstance(t, (int, np.integer))]
        assert res.ndim == len(kept) == len(res.origin) == len(res.sampling) == len(res.units)
        exp_s = [ds.sampling[k] * (full[k].step if isinstance(full[k], slice) and full[k].step is not None else 1)
                 for k in kept]
        assert np.array_equal(res.sampling, np.array(exp_s, dtype=ds.sampling.dtype)), (index, res.sampling, exp_s)
        assert np.array_equal(res.origin, ds.origin[kept])
        assert res.units == [ds.units[k] for k in kept]
        if res.ndim == nd:
            assert type(res) is type(ds)
        else:
            assert type(res) is {2: Dataset2d, 3: Dataset3d, 4: Dataset4d}.get(res.ndim, Dataset)
        n_prop += 1

# chained indexing after other operations
ds = make(Dataset4dstem, (4, 6, 8, 6))
step1 = ds.bin(2, axes=(2, 3))[::2, 1:, ::-1]
step2 = step1[0, ..., ::3]
assert snapshot(step2) == snapshot(old_getitem(old_getitem(ds.bin(2, axes=(2, 3)), (slice(None, None, 2), slice(1, None), slice(None, None, -1))), (0, Ellipsis, slice(None, None, 3))))
assert type(step2) is Dataset3d and step2.ndim == 3

print(f"PASS ({n_cmp} old == new comparisons, {n_prop} direct property checks)")
