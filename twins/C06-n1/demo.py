"""C06 equivalence demo: Dataset.pad / crop / bin / fourier_resample.

Embeds verbatim copies of the ORIGINAL four methods (as module-level functions
taking ``self``) and checks that the methods currently installed on
``quantem.core.datastructures.dataset.Dataset`` produce bit-for-bit identical
results (array bytes, dtype, shape, origin, sampling, name, units) or identical
exceptions (type and message) on a spread of shapes (1..4-D, odd/even), dtypes
(int, float, complex), axis subsets, bin factors, reducers, output shapes /
factors and pad widths.  It additionally asserts the C06 conservation laws
themselves.  Exits 0 on the unmodified tree and with any of the five
behaviour-preserving patches applied.
"""
import itertools
import numbers
import sys
from typing import Any, Literal, Optional, Self, Union

import numpy as np

from quantem.core.datastructures.dataset import Dataset

# --------------------------------------------------------------------------
# verbatim copies of the original methods (only the def name is prefixed)
# --------------------------------------------------------------------------
def orig_pad(
    self,
    pad_width: int | tuple[int, int] | tuple[tuple[int, int], ...] | None = None,
    output_shape: tuple[int, ...] | None = None,
    modify_in_place: bool = False,
    **kwargs: Any,
) -> Self | None:
    """
    Pads Dataset data array using numpy.pad.
    Metadata (origin, sampling) is not modified.

    Parameters
    ----------
    pad_width: int, tuple
        Number of values padded to the edges of each axis. See numpy.pad documentation.
    output_shape: tuple of int, optional
        Convenience option to pad to a desired output shape by symmetric padding.
    modify_in_place: bool
        If True, modifies this dataset's array directly. If False, returns a new Dataset.
    kwargs: dict
        Additional keyword arguments passed to numpy.pad.

    Returns
    --------
    Dataset or None
        Padded Dataset if modify_in_place is False, otherwise None.
    """
    if pad_width is not None:
        if output_shape is not None:
            raise ValueError("pad_width and output_shape cannot both be specified.")
        padded_array = np.pad(self.array, pad_width=pad_width, **kwargs)
    elif output_shape is not None:
        if len(output_shape) != self.ndim:
            raise ValueError("output_shape must be a tuple of length ndim.")
        padded_array = np.pad(
            self.array,
            pad_width=[
                (
                    max(0, int(np.floor((output_shape[i] - self.shape[i]) / 2))),
                    max(0, int(np.ceil((output_shape[i] - self.shape[i]) / 2))),
                )
                for i in range(self.ndim)
            ],
            **kwargs,
        )
    else:
        raise ValueError("pad_width or output_shape must be specified.")

    if modify_in_place:
        self._array = padded_array
        return None

    new_dataset = self.copy()
    new_dataset.array = padded_array
    new_dataset.name = self.name + " (padded)"
    return new_dataset


def orig_crop(
    self,
    crop_widths: tuple[tuple[int, int], ...],
    axes: tuple | None = None,
    modify_in_place: bool = False,
) -> Self | None:
    """
    Crops Dataset

    Parameters
    ----------
    crop_widths:tuple
        Min and max for cropping each axis specified as a tuple
    axes:
        Axes over which to crop. If None specified, all are cropped.
    modify_in_place: bool
        If True, modifies dataset

    Returns
    --------
    Dataset (cropped) only if modify_in_place is False
    """
    if axes is None:
        if len(crop_widths) != self.ndim:
            raise ValueError("crop_widths must match number of dimensions when axes is None.")
        axes = tuple(range(self.ndim))
    elif isinstance(axes, int | float):
        axes = (int(axes),)
        crop_widths = (crop_widths[0],)  # Take first crop_width for single axis
    else:
        axes = tuple(int(a) for a in axes)

    if len(crop_widths) != len(axes):
        raise ValueError("Length of crop_widths must match length of axes.")

    full_slices = []
    crop_dict = dict(zip(axes, crop_widths))
    for axis, _ in enumerate(self.shape):
        if axis in crop_dict:
            before, after = crop_dict[axis]
            start = before
            stop = after if after != 0 else None
            full_slices.append(slice(start, stop))
        else:
            full_slices.append(slice(None))

    if modify_in_place is False:
        dataset = self.copy()
        dataset.array = dataset.array[tuple(full_slices)]
        return dataset

    self.array = self.array[tuple(full_slices)]
    return None


def orig_bin(
    self,
    bin_factors,
    axes=None,
    modify_in_place: bool = False,
    reducer: str = "sum",
) -> Self | None:
    """
    Bin the Dataset by integer factors along selected axes using block reduction.

    Parameters
    ----------
    bin_factors : int | tuple[int, ...]
        Bin factors per specified axis (positive integers).
    axes : int | tuple[int, ...] | None
        Axes to bin. If None, all axes are binned.
    modify_in_place : bool
        If True, modifies this dataset; otherwise returns a new Dataset.
    reducer : {"sum","mean"}
        Reduction applied within each block. "sum" (default) preserves counts;
        "mean" averages over each block (block volume = product of factors).

    Notes
    -----
    - Any remainder (shape % factor) is dropped on each binned axis.
    - Sampling is multiplied by the factor on each binned axis.
    - Origin is shifted to the center of the first block:
        origin_new = origin_old + 0.5 * (factor - 1) * sampling_old
    """
    reducer_norm = str(reducer).lower()
    if reducer_norm not in ("sum", "mean"):
        raise ValueError("reducer must be 'sum' or 'mean'")

    if axes is None:
        axes = tuple(range(self.ndim))
    elif isinstance(axes, int | float):
        axes = (int(axes),)
    else:
        axes = tuple(int(ax) for ax in axes)

    if isinstance(bin_factors, numbers.Integral):
        bin_factors = (int(bin_factors),) * len(axes)
    elif isinstance(bin_factors, (list, tuple)):
        if len(bin_factors) != len(axes):
            raise ValueError("bin_factors and axes must have the same length.")
        for fac in bin_factors:
            if not isinstance(fac, numbers.Integral):
                raise TypeError(f"Each bin factor must be an integer, got {fac!r}")
        bin_factors = tuple(int(fac) for fac in bin_factors)
    else:
        raise TypeError("bin_factors must be an int or tuple of ints.")

    if any(fac <= 0 for fac in bin_factors):
        raise ValueError("All bin factors must be positive integers.")

    axis_to_factor = dict(zip(axes, bin_factors))

    slices = []
    effective_lengths = []
    for a0 in range(self.ndim):
        if a0 in axis_to_factor:
            fac = axis_to_factor[a0]
            length_eff = (self.shape[a0] // fac) * fac
            slices.append(slice(0, length_eff))
            effective_lengths.append(length_eff)
        else:
            slices.append(slice(None))
            effective_lengths.append(self.shape[a0])

    reshape_dims = []
    reduce_axes = []
    running_axis = 0
    for a1 in range(self.ndim):
        if a1 in axis_to_factor:
            fac = axis_to_factor[a1]
            nblocks = effective_lengths[a1] // fac
            reshape_dims.extend([nblocks, fac])
            reduce_axes.append(running_axis + 1)
            running_axis += 2
        else:
            reshape_dims.append(effective_lengths[a1])
            running_axis += 1

    array_view = self.array[tuple(slices)].reshape(tuple(reshape_dims))
    array_binned = np.sum(array_view, axis=tuple(reduce_axes))
    if reducer_norm == "mean":
        block_volume = 1
        for fac_b in axis_to_factor.values():
            block_volume *= fac_b
        array_binned = array_binned / block_volume

    new_sampling = self.sampling.astype(float).copy()
    new_origin = self.origin.astype(float).copy()
    for ax_binned, fac_binned in axis_to_factor.items():
        old_sampling = new_sampling[ax_binned]
        new_sampling[ax_binned] = old_sampling * fac_binned
        new_origin[ax_binned] = new_origin[ax_binned] + 0.5 * (fac_binned - 1) * old_sampling

    if modify_in_place:
        self._array = array_binned
        self._sampling = new_sampling
        self._origin = new_origin
        return None

    dataset = self.copy()
    dataset.array = array_binned
    dataset.sampling = new_sampling
    dataset.origin = new_origin

    factors_str = " ".join(
        f"{axis_to_factor[a2]:.3g}" if a2 in axis_to_factor else "1" for a2 in range(self.ndim)
    )
    suffix = f"(binned factors {factors_str}" + (", mean)" if reducer_norm == "mean" else ")")
    dataset.name = f"{self.name} {suffix}"
    return dataset


def orig_fourier_resample(
    self,
    out_shape: Optional[tuple[int, ...]] = None,
    factors: Optional[Union[float, tuple[float, ...]]] = None,
    axes: Optional[tuple[int, ...]] = None,
    modify_in_place: bool = False,
) -> Optional["Dataset"]:
    """
    Fourier resample the dataset by centered cropping (downsample) or zero padding (upsample).
    The operation is performed in the Fourier domain using fftshift alignment and default FFT
    normalization. The physical center is preserved and the mean intensity is kept constant.

    Parameters
    ----------
    out_shape : tuple of int, optional
        Output lengths for the selected axes. Must have the same length as `axes`.
        Use this when specifying the exact output shape.
    factors : float or tuple of float, optional
        Multiplicative resampling factors for each axis. A scalar factor is applied
        to all axes. Use this when specifying scaling rather than absolute size.
        Exactly one of `out_shape` or `factors` must be provided.
    axes : tuple of int, optional
        Axes to resample. Defaults to all axes. A scalar is interpreted as a single axis.
    modify_in_place : bool
        If True, update the dataset in place and return None.
        If False, return a new Dataset with the resampled array and updated metadata.

    Returns
    -------
    Dataset or None
        A new resampled dataset if `modify_in_place` is False, otherwise None.
    """
    if axes is None:
        axes = tuple(range(self.ndim))
    elif isinstance(axes, int | float):
        axes = (int(axes),)
    else:
        axes = tuple(int(a0) for a0 in axes)

    if (out_shape is None) == (factors is None):
        raise ValueError("Specify exactly one of out_shape or factors.")

    # Resolve out_shape & factors
    if factors is not None:
        if isinstance(factors, int | float):
            factors = (float(factors),) * len(axes)
        else:
            factors = tuple(float(f) for f in factors)
            if len(factors) != len(axes):
                raise ValueError("factors length must match number of axes.")
        out_shape = tuple(
            max(1, int(round(self.shape[a1] * f))) for a1, f in zip(axes, factors)
        )
    else:
        assert out_shape is not None  # Guaranteed by check above
        if len(out_shape) != len(axes):
            raise ValueError("out_shape length must match number of axes.")
        out_shape = tuple(int(nl) for nl in out_shape)
        factors = tuple(out_len / self.shape[a2] for a2, out_len in zip(axes, out_shape))

    if any(nl < 1 for nl in out_shape):
        raise ValueError("All output lengths must be >= 1.")

    def _shift_center_index(n: int) -> int:
        # index of DC after fftshift: n//2 for even, (n-1)//2 for odd
        return n // 2 if (n % 2 == 0) else (n - 1) // 2

    # Forward FFT (default normalization: forward unscaled, inverse 1/N)
    F = np.fft.fftn(self.array, axes=axes)
    F = np.fft.fftshift(F, axes=axes)

    # Center-aligned crop/pad per axis (so DC stays centered)
    axis_to_outlen = dict(zip(axes, out_shape))
    slices: list[slice] = []
    pad_specs: list[tuple[int, int]] = []
    for a3 in range(self.ndim):
        if a3 in axis_to_outlen:
            old_len = self.shape[a3]
            new_len = axis_to_outlen[a3]
            oc = _shift_center_index(old_len)
            nc = _shift_center_index(new_len)

            if new_len < old_len:
                start = oc - nc
                end = start + new_len
                slices.append(slice(start, end))
                pad_specs.append((0, 0))
            elif new_len > old_len:
                slices.append(slice(None))
                before = nc - oc
                after = new_len - old_len - before
                pad_specs.append((before, after))
            else:
                slices.append(slice(None))
                pad_specs.append((0, 0))
        else:
            slices.append(slice(None))
            pad_specs.append((0, 0))

    F_rs = F[tuple(slices)]
    if any(pw != (0, 0) for pw in pad_specs):
        F_rs = np.pad(F_rs, pad_specs, mode="constant")

    # Inverse FFT
    F_rs = np.fft.ifftshift(F_rs, axes=axes)
    array_resampled = np.fft.ifftn(F_rs, axes=axes)

    if np.isrealobj(self.array):
        array_resampled = array_resampled.real

    # Mean preservation with default FFTs:
    # ones -> F(0)=N_in, IFFT size N_out -> constant N_in/N_out; multiply by N_out/N_in.
    N_in = int(np.prod([self.shape[a4] for a4 in axes]))
    N_out = int(np.prod([axis_to_outlen[a5] for a5 in axes]))
    if N_in > 0 and N_out > 0:
        array_resampled *= N_out / N_in

    # Metadata (ensure float arrays to avoid truncation)
    new_sampling = self.sampling.astype(float).copy()
    for a6, out_len in zip(axes, out_shape):
        fac_actual = out_len / self.shape[a6]
        new_sampling[a6] = new_sampling[a6] / fac_actual

    new_origin = self.origin.astype(float).copy()
    for a7, out_len in zip(axes, out_shape):
        old_len = self.shape[a7]
        old_center_idx = (old_len - 1) / 2.0
        new_center_idx = (out_len - 1) / 2.0
        old_sampling = self.sampling[a7]
        new_origin[a7] = (
            self.origin[a7] + old_center_idx * old_sampling - new_center_idx * new_sampling[a7]
        )

    if modify_in_place:
        self._array = array_resampled
        self._sampling = new_sampling
        self._origin = new_origin
        return None

    ds = self.copy()
    ds.array = array_resampled
    ds.sampling = new_sampling
    ds.origin = new_origin
    return ds


# --------------------------------------------------------------------------
# harness
# --------------------------------------------------------------------------
RNG = np.random.default_rng(20260926)


def make_array(shape, dtype):
    n = int(np.prod(shape))
    if np.issubdtype(dtype, np.integer):
        a = RNG.integers(-50, 200, size=n)
    elif np.issubdtype(dtype, np.complexfloating):
        a = RNG.normal(size=n) + 1j * RNG.normal(size=n)
    else:
        a = RNG.normal(size=n) * 10.0
    return a.reshape(shape).astype(dtype)


def make_ds(arr, origin, sampling):
    return Dataset.from_array(
        arr.copy(),
        name="demo",
        origin=np.array(origin, dtype=float),
        sampling=np.array(sampling, dtype=float),
        units=["nm"] * arr.ndim,
    )


def snapshot(ds):
    a = np.asarray(ds.array)
    return (
        a.tobytes(),
        str(a.dtype),
        a.shape,
        np.asarray(ds.origin).tobytes(),
        str(np.asarray(ds.origin).dtype),
        np.asarray(ds.sampling).tobytes(),
        str(np.asarray(ds.sampling).dtype),
        ds.name,
        tuple(ds.units),
        ds.signal_units,
    )


def outcome(fn, arr, origin, sampling, args, kwargs):
    """Run fn(ds, *args, **kwargs) on a fresh dataset; capture everything observable."""
    ds = make_ds(arr, origin, sampling)
    try:
        res = fn(ds, *args, **kwargs)
    except Exception as exc:  # noqa: BLE001
        return ("exc", type(exc).__name__, str(exc), snapshot(ds))
    if res is None:
        return ("none", snapshot(ds))
    return ("ds", type(res).__name__, snapshot(res), snapshot(ds))


N_CASES = 0
N_EXC = 0


def check(name, orig_fn, arr, origin, sampling, *args, **kwargs):
    global N_CASES, N_EXC
    new_fn = getattr(Dataset, name)
    o = outcome(orig_fn, arr, origin, sampling, args, kwargs)
    n = outcome(new_fn, arr, origin, sampling, args, kwargs)
    if o != n:
        print(f"MISMATCH in {name} shape={arr.shape} dtype={arr.dtype} args={args} kwargs={kwargs}")
        print("  original:", o[0], o[1] if o[0] == "exc" else "")
        print("  current :", n[0], n[1] if n[0] == "exc" else "")
        sys.exit(1)
    N_CASES += 1
    if o[0] == "exc":
        N_EXC += 1
    return o


SHAPES = [
    (1,), (2,), (7,), (8,),
    (1, 1), (5, 6), (6, 5), (7, 7), (8, 8), (10, 3),
    (3, 4, 5), (4, 6, 7),
    (2, 3, 4, 5),
]
DTYPES = [np.int32, np.int64, np.uint8, np.float32, np.float64, np.complex64, np.complex128]


def meta_for(shape):
    nd = len(shape)
    origin = RNG.normal(size=nd) * 3.0
    sampling = RNG.uniform(0.1, 2.5, size=nd)
    return origin, sampling


def axis_subsets(nd):
    subs = [None]
    for r in range(1, nd + 1):
        for c in itertools.combinations(range(nd), r):
            subs.append(c)
    subs.append(0)  # scalar axis
    if nd >= 2:
        subs.append((nd - 1, 0))  # reversed order
        subs.append((-1,))  # negative axis
    return subs


# ------------------------------- bin ---------------------------------------
def run_bin():
    for shape in SHAPES:
        nd = len(shape)
        for dtype in DTYPES:
            if np.dtype(dtype) == np.uint8:
                arr = make_array(shape, np.int64).astype(np.uint8)
            else:
                arr = make_array(shape, dtype)
            origin, sampling = meta_for(shape)
            for axes in axis_subsets(nd):
                n_ax = nd if axes is None else (1 if isinstance(axes, int) else len(axes))
                factor_sets = [1, 2, 3, (2,) * n_ax, tuple(range(1, n_ax + 1)), [3] * n_ax, np.int64(2)]
                for fac in factor_sets:
                    for reducer in ("sum", "mean", "MEAN"):
                        for inplace in (False, True):
                            check("bin", orig_bin, arr, origin, sampling, fac, axes=axes,
                                  modify_in_place=inplace, reducer=reducer)
    # error / odd paths
    arr = make_array((6, 7), np.float64)
    origin, sampling = meta_for((6, 7))
    for bad in (0, -1, 2.0, (2,), (2, 3, 4), (2, 2.5), "2", None, (0, 1), 100):
        check("bin", orig_bin, arr, origin, sampling, bad)
    check("bin", orig_bin, arr, origin, sampling, 2, reducer="median")
    check("bin", orig_bin, arr, origin, sampling, 2, axes=(0, 0))
    check("bin", orig_bin, arr, origin, sampling, (2, 3), axes=(0, 0))
    check("bin", orig_bin, arr, origin, sampling, 2, axes=(5,))
    check("bin", orig_bin, arr, origin, sampling, 2, axes=(1.0,))
    check("bin", orig_bin, arr, origin, sampling, 2, axes=1.0)
    check("bin", orig_bin, arr, origin, sampling, 2, axes=())

    # property: counts over covered region and block-centre coordinates preserved
    for shape, fac in (((10, 7), (3, 2)), ((9,), (4,)), ((5, 6, 7), (2, 3, 2))):
        arr = make_array(shape, np.int64)
        origin, sampling = meta_for(shape)
        ds = make_ds(arr, origin, sampling)
        out = ds.bin(fac)
        cover = tuple(slice(0, (n // f) * f) for n, f in zip(shape, fac))
        assert out.array.sum() == arr[cover].sum()
        assert out.shape == tuple(n // f for n, f in zip(shape, fac))
        for ax, f in enumerate(fac):
            coords = origin[ax] + sampling[ax] * np.arange(shape[ax])
            first_block_mean = coords[:f].mean()
            assert np.isclose(out.origin[ax], first_block_mean, rtol=0, atol=1e-12)
            assert np.isclose(out.sampling[ax], sampling[ax] * f, rtol=1e-15, atol=0)
        m = ds.bin(fac, reducer="mean")
        assert np.allclose(m.array * np.prod(fac), out.array)


# --------------------------- fourier_resample -------------------------------
def run_fourier():
    for shape in SHAPES:
        nd = len(shape)
        for dtype in (np.int32, np.float32, np.float64, np.complex64, np.complex128):
            arr = make_array(shape, dtype)
            origin, sampling = meta_for(shape)
            for axes in axis_subsets(nd):
                ax_t = tuple(range(nd)) if axes is None else ((axes,) if isinstance(axes, int) else axes)
                lens = [shape[a] for a in ax_t]
                out_shapes = [
                    tuple(lens),
                    tuple(n + 1 for n in lens),
                    tuple(max(1, n - 1) for n in lens),
                    tuple(2 * n for n in lens),
                    tuple(max(1, n // 2) for n in lens),
                    tuple(2 * n + 1 for n in lens),
                    [n + 3 for n in lens],
                    tuple(float(n + 2) for n in lens),
                ]
                for osz in out_shapes:
                    for inplace in (False, True):
                        check("fourier_resample", orig_fourier_resample, arr, origin, sampling,
                              out_shape=osz, axes=axes, modify_in_place=inplace)
                for fac in (1, 2, 0.5, 1.5, 0.3, 0.01, tuple([1.25] * len(ax_t)), [2] * len(ax_t)):
                    check("fourier_resample", orig_fourier_resample, arr, origin, sampling,
                          factors=fac, axes=axes)
    # error paths
    arr = make_array((6, 7), np.float64)
    origin, sampling = meta_for((6, 7))
    check("fourier_resample", orig_fourier_resample, arr, origin, sampling)
    check("fourier_resample", orig_fourier_resample, arr, origin, sampling, out_shape=(3, 3), factors=2)
    check("fourier_resample", orig_fourier_resample, arr, origin, sampling, out_shape=(3,))
    check("fourier_resample", orig_fourier_resample, arr, origin, sampling, out_shape=(3, 0))
    check("fourier_resample", orig_fourier_resample, arr, origin, sampling, out_shape=(-2, 4))
    check("fourier_resample", orig_fourier_resample, arr, origin, sampling, out_shape=(3, "x"))
    check("fourier_resample", orig_fourier_resample, arr, origin, sampling, out_shape=(3, None))
    check("fourier_resample", orig_fourier_resample, arr, origin, sampling, factors=(2.0,))
    check("fourier_resample", orig_fourier_resample, arr, origin, sampling, factors=(2.0, "a"))
    check("fourier_resample", orig_fourier_resample, arr, origin, sampling, out_shape=(4, 4), axes=(0, 5))
    check("fourier_resample", orig_fourier_resample, arr, origin, sampling, out_shape=(4, 4), axes=(0, 0))
    check("fourier_resample", orig_fourier_resample, arr, origin, sampling, out_shape=(), axes=())
    check("fourier_resample", orig_fourier_resample, arr, origin, sampling, out_shape=(4,), axes=(-1,))

    # property: mean, centre, extent, identity, band-limited round trip
    for shape, osz in (((8, 9), (12, 5)), ((7,), (10,)), ((6, 6), (6, 6)), ((5, 8), (9, 16))):
        arr = make_array(shape, np.float64)
        origin, sampling = meta_for(shape)
        ds = make_ds(arr, origin, sampling)
        out = ds.fourier_resample(out_shape=osz)
        assert out.shape == tuple(osz)
        assert np.isclose(out.array.mean(), arr.mean(), rtol=1e-10, atol=1e-12)
        for ax in range(len(shape)):
            c_old = origin[ax] + sampling[ax] * (shape[ax] - 1) / 2.0
            c_new = out.origin[ax] + out.sampling[ax] * (osz[ax] - 1) / 2.0
            assert np.isclose(c_old, c_new, rtol=0, atol=1e-10)
            assert np.isclose(sampling[ax] * shape[ax], out.sampling[ax] * osz[ax], rtol=1e-12)
        if tuple(osz) == tuple(shape):
            assert np.allclose(out.array, arr, rtol=0, atol=1e-12)
    # up then down returns the data when there is no Nyquist content (odd lengths)
    arr = make_array((7, 9), np.float64)
    ds = make_ds(arr, (0.0, 0.0), (1.0, 1.0))
    back = ds.fourier_resample(out_shape=(14, 13)).fourier_resample(out_shape=(7, 9))
    assert np.allclose(back.array, arr, rtol=0, atol=1e-10)
    assert np.allclose(back.origin, ds.origin, atol=1e-12)
    assert np.allclose(back.sampling, ds.sampling, rtol=1e-12)
    # linearity
    a = make_array((6, 5), np.float64)
    b = make_array((6, 5), np.float64)
    ra = make_ds(a, (0, 0), (1, 1)).fourier_resample(out_shape=(9, 4)).array
    rb = make_ds(b, (0, 0), (1, 1)).fourier_resample(out_shape=(9, 4)).array
    rab = make_ds(2.0 * a - 3.0 * b, (0, 0), (1, 1)).fourier_resample(out_shape=(9, 4)).array
    assert np.allclose(rab, 2.0 * ra - 3.0 * rb, rtol=0, atol=1e-10)


# ------------------------------ pad / crop ----------------------------------
def run_pad_crop():
    for shape in SHAPES:
        nd = len(shape)
        for dtype in (np.int32, np.float64, np.complex128):
            arr = make_array(shape, dtype)
            origin, sampling = meta_for(shape)
            # pad
            pads = [1, (1, 2), tuple((i, i + 1) for i in range(nd)), 0, tuple((0, 0) for _ in range(nd))]
            for pw in pads:
                for inplace in (False, True):
                    check("pad", orig_pad, arr, origin, sampling, pad_width=pw, modify_in_place=inplace)
            check("pad", orig_pad, arr, origin, sampling, pad_width=2, mode="edge")
            check("pad", orig_pad, arr, origin, sampling, pad_width=1, mode="constant", constant_values=3)
            outs = [
                tuple(n + 1 for n in shape), tuple(n + 2 for n in shape), tuple(n + 5 for n in shape),
                tuple(shape), tuple(max(0, n - 1) for n in shape), tuple(n + i for i, n in enumerate(shape)),
                [n + 3 for n in shape],
            ]
            for osz in outs:
                for inplace in (False, True):
                    check("pad", orig_pad, arr, origin, sampling, output_shape=osz, modify_in_place=inplace)
            check("pad", orig_pad, arr, origin, sampling, output_shape=tuple(shape) + (3,))
            check("pad", orig_pad, arr, origin, sampling, pad_width=1, output_shape=tuple(shape))
            check("pad", orig_pad, arr, origin, sampling)
            # crop
            crops = [
                tuple((0, 0) for _ in range(nd)),
                tuple((1, -1) for _ in range(nd)),
                tuple((0, -1) for _ in range(nd)),
                tuple((1, 0) for _ in range(nd)),
                tuple((i % 2, n) for i, n in enumerate(shape)),
                tuple((0, max(1, n - 1)) for n in shape),
                tuple((n, 0) for n in shape),
            ]
            for cw in crops:
                for inplace in (False, True):
                    check("crop", orig_crop, arr, origin, sampling, cw, modify_in_place=inplace)
                for axes in axis_subsets(nd)[1:]:
                    n_ax = 1 if isinstance(axes, int) else len(axes)
                    check("crop", orig_crop, arr, origin, sampling, cw[:n_ax], axes=axes)
                    check("crop", orig_crop, arr, origin, sampling, cw[:n_ax], axes=axes, modify_in_place=True)
            check("crop", orig_crop, arr, origin, sampling, ((0, 0),) * (nd + 1))
            check("crop", orig_crop, arr, origin, sampling, ((1, 0),), axes=(0, 0))
            check("crop", orig_crop, arr, origin, sampling, ((1, 0), (0, -1)), axes=(0, 0))
            check("crop", orig_crop, arr, origin, sampling, ((1, 0),), axes=(nd + 2,))
            check("crop", orig_crop, arr, origin, sampling, ((1, 0),), axes=0.0)
            check("crop", orig_crop, arr, origin, sampling, ((0.0, 0.0),), axes=(0,))
            check("crop", orig_crop, arr, origin, sampling, ((0, None),), axes=(0,))
            check("crop", orig_crop, arr, origin, sampling, ((1,),), axes=(0,))
            check("crop", orig_crop, arr, origin, sampling, ((0, np.int64(0)),), axes=(0,))
            check("crop", orig_crop, arr, origin, sampling, (), axes=())

            # property: pad to an output shape then crop the pad widths returns the data
            for extra in (1, 2, 3, 4):
                osz = tuple(n + extra + (i % 2) for i, n in enumerate(shape))
                ds = make_ds(arr, origin, sampling)
                padded = ds.pad(output_shape=osz)
                assert padded.shape == osz
                widths = tuple(
                    (int(np.floor((o - n) / 2)), -int(np.ceil((o - n) / 2)))
                    for o, n in zip(osz, shape)
                )
                back = padded.crop(widths)
                assert back.array.dtype == arr.dtype and back.shape == arr.shape
                assert back.array.tobytes() == arr.tobytes()
                assert np.array_equal(back.origin, ds.origin) and np.array_equal(back.sampling, ds.sampling)


if __name__ == "__main__":
    import warnings

    warnings.simplefilter("ignore")
    run_bin()
    run_fourier()
    run_pad_crop()
    print(f"OK: {N_CASES} original-vs-current comparisons identical ({N_EXC} of them identical exceptions)")
    sys.exit(0)
