"""Shared demo for the five behaviour-preserving C12 edits.

Embeds verbatim copies of the ORIGINAL functions (as of the worktree HEAD) and asserts that
the functions currently importable from quantem return bit-for-bit the same results on a
spread of inputs; additionally asserts the C12 property numerically (analytic gradient equals
wavelength * true gradient, defocus alias, fit round trip).

Run as:  PYTHONPATH=<root>/src /venv/bin/python demo.py
"""

import itertools
import math
from typing import Mapping, Tuple

import numpy as np
import torch
from numpy.typing import NDArray

from quantem.core.utils.validators import validate_aberration_coefficients
from quantem.diffractive_imaging import complex_probe as cp
from quantem.diffractive_imaging import direct_ptycho_utils as du

# --------------------------------------------------------------------------------------
# verbatim copies of the original functions
# --------------------------------------------------------------------------------------
ORIG_SRC = r'''
def aberration_surface_polar_gradients(
    alpha: torch.Tensor,
    phi: torch.Tensor,
    aberration_coefs: Mapping[str, float | torch.Tensor],
):
    """ """

    pi = math.pi
    alpha2 = alpha.square()
    dchi_dk = torch.zeros_like(alpha)
    dchi_dphi = torch.zeros_like(alpha)

    # coefs = standardize_aberration_coefs(aberration_coefs)
    coefs = aberration_coefs

    def get(name, default=0.0):
        val = coefs.get(name, default)
        return val

    if any(k in coefs for k in ("C10", "C12", "phi12")):
        dchi_dk = dchi_dk + alpha * (get("C10") + get("C12") * torch.cos(2 * (phi - get("phi12"))))
        dchi_dphi = dchi_dphi - 1 / 2.0 * alpha * (
            2.0 * get("C12") * torch.sin(2 * (phi - get("phi12")))
        )

    if any(k in coefs for k in ("C21", "phi21", "C23", "phi23")):
        dchi_dk = dchi_dk + alpha2 * (
            get("C21") * torch.cos(1 * (phi - get("phi21")))
            + get("C23") * torch.cos(3 * (phi - get("phi23")))
        )
        dchi_dphi = dchi_dphi - 1 / 3.0 * alpha2 * (
            1.0 * get("C21") * torch.sin(1 * (phi - get("phi21")))
            + 3.0 * get("C23") * torch.sin(3 * (phi - get("phi23")))
        )

    if any(k in coefs for k in ("C30", "C32", "phi32", "C34", "phi34")):
        dchi_dk = dchi_dk + alpha2 * alpha * (
            get("C30")
            + get("C32") * torch.cos(2 * (phi - get("phi32")))
            + get("C34") * torch.cos(4 * (phi - get("phi34")))
        )
        dchi_dphi = dchi_dphi - 1 / 4.0 * alpha2 * alpha * (
            2.0 * get("C32") * torch.sin(2 * (phi - get("phi32")))
            + 4.0 * get("C34") * torch.sin(4 * (phi - get("phi34")))
        )

    if any(k in coefs for k in ("C41", "phi41", "C43", "phi43", "C45", "phi45")):
        dchi_dk = dchi_dk + alpha2 * alpha2 * (
            get("C41") * torch.cos(1 * (phi - get("phi41")))
            + get("C43") * torch.cos(3 * (phi - get("phi43")))
            + get("C45") * torch.cos(5 * (phi - get("phi45")))
        )
        dchi_dphi = dchi_dphi - 1 / 5.0 * alpha2 * alpha2 * (
            1.0 * get("C41") * torch.sin(1 * (phi - get("phi41")))
            + 3.0 * get("C43") * torch.sin(3 * (phi - get("phi43")))
            + 5.0 * get("C45") * torch.sin(5 * (phi - get("phi45")))
        )

    if any(k in coefs for k in ("C50", "C52", "phi52", "C54", "phi54", "C56", "phi56")):
        dchi_dk = dchi_dk + alpha2 * alpha2 * alpha * (
            get("C50")
            + get("C52") * torch.cos(2 * (phi - get("phi52")))
            + get("C54") * torch.cos(4 * (phi - get("phi54")))
            + get("C56") * torch.cos(6 * (phi - get("phi56")))
        )
        dchi_dphi = dchi_dphi - 1 / 6.0 * alpha2 * alpha2 * alpha * (
            2.0 * get("C52") * torch.sin(2 * (phi - get("phi52")))
            + 4.0 * get("C54") * torch.sin(4 * (phi - get("phi54")))
            + 6.0 * get("C56") * torch.sin(6 * (phi - get("phi56")))
        )

    scale = 2 * pi
    return scale * dchi_dk, scale * dchi_dphi


def aberration_surface_cartesian_gradients(
    alpha: torch.Tensor,
    phi: torch.Tensor,
    aberration_coefs: Mapping[str, float | torch.Tensor],
) -> tuple[torch.Tensor, torch.Tensor]:
    """
    Compute dchi/dx and dchi/dy from the polar derivatives.
    """
    dchi_dk, dchi_dphi = aberration_surface_polar_gradients(alpha, phi, aberration_coefs)
    cos_phi = torch.cos(phi)
    sin_phi = torch.sin(phi)

    dchi_dx = cos_phi * dchi_dk - sin_phi * dchi_dphi
    dchi_dy = sin_phi * dchi_dk + cos_phi * dchi_dphi

    return dchi_dx, dchi_dy


def _passively_rotate_grid(
    kxa: torch.Tensor,
    kya: torch.Tensor,
    rotation_angle: float,
):
    """ """

    cos_a = math.cos(-rotation_angle)
    sin_a = math.sin(-rotation_angle)
    kxa, kya = (
        kxa * cos_a + kya * sin_a,
        -kxa * sin_a + kya * cos_a,
    )

    return kxa, kya


def spatial_frequencies(
    gpts: Tuple[int, int],
    sampling: Tuple[float, float] | NDArray,
    rotation_angle: float | None = None,
    device: str | torch.device = "cpu",
) -> Tuple[torch.Tensor, torch.Tensor]:
    """ """
    kxa = torch.fft.fftfreq(gpts[0], sampling[0], device=device, dtype=torch.float32)
    kya = torch.fft.fftfreq(gpts[1], sampling[1], device=device, dtype=torch.float32)
    kxa = kxa[:, None].broadcast_to(*gpts)
    kya = kya[None, :].broadcast_to(*gpts)

    # passive grid rotation
    if rotation_angle is not None:
        kxa, kya = _passively_rotate_grid(kxa, kya, rotation_angle)

    return kxa, kya


def polar_coordinates(kx: torch.Tensor, ky: torch.Tensor) -> Tuple[torch.Tensor, torch.Tensor]:
    """ """
    k = torch.sqrt(kx.square() + ky.square())
    phi = torch.arctan2(ky, kx)
    return k, phi


def parse_cartesian_aberration_label(label: str) -> tuple[int, int, str | None]:
    """
    Parse 'Cnm', 'Cnm_a', 'Cnm_b'
    Returns (n, m, kind) where kind ∈ {None, 'a', 'b'}
    """

    base, *rest = label.split("_")
    kind = rest[0] if rest else None
    n = int(base[1])
    m = int(base[2])

    return n, m, kind


def fit_aberrations_from_shifts(
    shifts_ang: torch.Tensor,
    bf_mask: torch.Tensor,
    wavelength: float,
    gpts: tuple[int, int],
    sampling: tuple[float, float],
) -> dict[str, float]:
    """ """
    device = shifts_ang.device

    # Get spatial frequencies at BF positions
    kxa, kya = spatial_frequencies(gpts, sampling, device=device)
    kvec = torch.dstack((kxa[bf_mask], kya[bf_mask])).view((-1, 2))
    basis = kvec * wavelength

    # Least-squares fit: shifts = basis @ M
    M = torch.linalg.lstsq(basis.cpu(), shifts_ang.cpu(), rcond=None)[0]
    # Decompose M = R @ A (rotation × aberration)
    M_rotation, M_aberration = _torch_polar(M)

    # Extract rotation angle
    rotation_rad = -torch.arctan2(M_rotation[1, 0], M_rotation[0, 0])

    # Handle angle wrapping and sign conventions
    if 2 * torch.abs(torch.remainder(rotation_rad + math.pi, 2 * math.pi) - math.pi) > math.pi:
        rotation_rad = torch.remainder(rotation_rad, 2 * math.pi) - math.pi
        M_aberration = -M_aberration

    # Extract aberration coefficients from symmetric matrix
    a = M_aberration[0, 0]
    b = (M_aberration[1, 0] + M_aberration[0, 1]) / 2  # Symmetrize
    c = M_aberration[1, 1]

    # Defocus (isotropic component)
    C10 = (a + c) / 2

    # 2-fold astigmatism (anisotropic component)
    C12a = (a - c) / 2
    C12b = b
    C12 = torch.sqrt(C12a**2 + C12b**2)
    phi12 = torch.arctan2(C12b, C12a) / 2

    return {
        "C10": C10.item(),
        "C12": C12.item(),
        "phi12": phi12.item(),
        "rotation_angle": rotation_rad.item(),
    }


def _torch_polar(m: torch.Tensor):
    U, S, Vh = torch.linalg.svd(m)
    u = U @ Vh
    p = Vh.T.conj() @ S.diag().to(dtype=m.dtype) @ Vh
    return u, p
'''

ORIG = {"math": math, "torch": torch, "Mapping": Mapping, "Tuple": Tuple, "NDArray": NDArray}
exec(compile(ORIG_SRC, "<original>", "exec"), ORIG)


# --------------------------------------------------------------------------------------
# helpers
# --------------------------------------------------------------------------------------
def same_tensor(a: torch.Tensor, b: torch.Tensor) -> bool:
    """bit-for-bit equality including dtype, shape and NaN payloads"""
    if a.dtype != b.dtype or a.shape != b.shape or a.device != b.device:
        return False
    return a.detach().contiguous().numpy().tobytes() == b.detach().contiguous().numpy().tobytes()


def same_float(a: float, b: float) -> bool:
    return type(a) is type(b) and np.float64(a).tobytes() == np.float64(b).tobytes()


def outcome(fn, *args, **kwargs):
    try:
        return ("ok", fn(*args, **kwargs))
    except Exception as exc:  # noqa: BLE001
        return ("exc", type(exc), str(exc))


POLAR_GROUPS = [
    ("C10", "C12", "phi12"),
    ("C21", "phi21", "C23", "phi23"),
    ("C30", "C32", "phi32", "C34", "phi34"),
    ("C41", "phi41", "C43", "phi43", "C45", "phi45"),
    ("C50", "C52", "phi52", "C54", "phi54", "C56", "phi56"),
]


def random_coefs(gen, symbols, dtype=None, as_tensor=False):
    out = {}
    for s in symbols:
        if s.startswith("phi"):
            v = float(torch.rand((), generator=gen) * 2 * math.pi - math.pi)
        else:
            order = int(s[1])
            v = float((torch.rand((), generator=gen) - 0.5) * 2 * 10.0 ** (order + 1))
        out[s] = torch.tensor(v, dtype=dtype) if as_tensor else v
    return out


def coefficient_sets(gen):
    sets = [{}]
    # each single symbol, each order group, cumulative groups, everything
    for s in cp.POLAR_SYMBOLS:
        sets.append(random_coefs(gen, [s]))
    for g in POLAR_GROUPS:
        sets.append(random_coefs(gen, g))
    for i in range(1, len(POLAR_GROUPS) + 1):
        sets.append(random_coefs(gen, list(itertools.chain(*POLAR_GROUPS[:i]))))
    sets.append(random_coefs(gen, cp.POLAR_SYMBOLS, dtype=torch.float32, as_tensor=True))
    sets.append(random_coefs(gen, cp.POLAR_SYMBOLS, dtype=torch.float64, as_tensor=True))
    sets.append({"C10": 0.0, "C12": 0.0, "phi12": 0.0})
    sets.append({"C10": -250.0})
    return sets


def angle_grids(gen):
    grids = []
    for dtype in (torch.float32, torch.float64):
        for gpts, sampling, rot in [
            ((16, 16), (0.2, 0.2), None),
            ((24, 18), (0.15, 0.22), 0.3),
            ((17, 31), (0.31, 0.12), -2.4),
        ]:
            kx, ky = ORIG["spatial_frequencies"](gpts, sampling, rotation_angle=rot)
            k, phi = ORIG["polar_coordinates"](kx, ky)
            grids.append(((k * 0.0197).to(dtype), phi.to(dtype)))
        alpha = torch.rand(57, generator=gen, dtype=dtype) * 0.03
        phi = torch.rand(57, generator=gen, dtype=dtype) * 2 * math.pi - math.pi
        grids.append((alpha, phi))
    return grids


# --------------------------------------------------------------------------------------
# 1. gradients: old == new, bit for bit
# --------------------------------------------------------------------------------------
def check_gradients():
    gen = torch.Generator().manual_seed(1234)
    grids = angle_grids(gen)
    sets = coefficient_sets(gen)
    n = 0
    for (alpha, phi), coefs in itertools.product(grids, sets):
        old_p = ORIG["aberration_surface_polar_gradients"](alpha, phi, coefs)
        new_p = cp.aberration_surface_polar_gradients(alpha, phi, coefs)
        assert len(old_p) == len(new_p) == 2
        assert same_tensor(old_p[0], new_p[0]) and same_tensor(old_p[1], new_p[1]), coefs

        old_c = ORIG["aberration_surface_cartesian_gradients"](alpha, phi, coefs)
        new_c = cp.aberration_surface_cartesian_gradients(alpha, phi, coefs)
        assert len(old_c) == len(new_c) == 2
        assert same_tensor(old_c[0], new_c[0]) and same_tensor(old_c[1], new_c[1]), coefs
        n += 1

    # autograd graph through the gradient functions is the same too
    alpha = (torch.rand(11, generator=gen, dtype=torch.float64) * 0.03).requires_grad_(True)
    phi = (torch.rand(11, generator=gen, dtype=torch.float64) * 6 - 3).requires_grad_(True)
    coefs = random_coefs(gen, cp.POLAR_SYMBOLS)
    go = torch.autograd.grad(
        sum(t.sum() for t in ORIG["aberration_surface_cartesian_gradients"](alpha, phi, coefs)),
        (alpha, phi),
    )
    gn = torch.autograd.grad(
        sum(t.sum() for t in cp.aberration_surface_cartesian_gradients(alpha, phi, coefs)),
        (alpha, phi),
    )
    assert same_tensor(go[0], gn[0]) and same_tensor(go[1], gn[1])

    # same failure for a mapping without .get / bad input
    bad = outcome(ORIG["aberration_surface_polar_gradients"], alpha, phi, None)
    assert bad == outcome(cp.aberration_surface_polar_gradients, alpha, phi, None)
    return n


# --------------------------------------------------------------------------------------
# 2. property: analytic Cartesian gradient == wavelength * true gradient of the surface
# --------------------------------------------------------------------------------------
def check_gradient_property():
    gen = torch.Generator().manual_seed(99)
    for wavelength in (0.0197, 0.0251, 0.0370):
        for trial in range(6):
            ax = ((torch.rand(40, generator=gen, dtype=torch.float64) - 0.5) * 0.05).requires_grad_()
            ay = ((torch.rand(40, generator=gen, dtype=torch.float64) - 0.5) * 0.05).requires_grad_()
            alpha = torch.sqrt(ax.square() + ay.square())
            phi = torch.arctan2(ay, ax)
            symbols = cp.POLAR_SYMBOLS if trial % 2 == 0 else list(
                itertools.chain(*POLAR_GROUPS[: 1 + trial % 5])
            )
            coefs = random_coefs(gen, symbols)
            chi = cp.aberration_surface(alpha, phi, wavelength, coefs)
            gx, gy = torch.autograd.grad(chi.sum(), (ax, ay))
            dx, dy = cp.aberration_surface_cartesian_gradients(alpha.detach(), phi.detach(), coefs)
            scale = max(float(gx.abs().max()), float(gy.abs().max())) * wavelength
            assert torch.allclose(dx, wavelength * gx, rtol=1e-9, atol=1e-10 * scale)
            assert torch.allclose(dy, wavelength * gy, rtol=1e-9, atol=1e-10 * scale)


# --------------------------------------------------------------------------------------
# 3. grid rotation / spatial frequencies: old == new
# --------------------------------------------------------------------------------------
def check_rotation():
    gen = torch.Generator().manual_seed(7)
    angles = [0.0, 1e-3, 0.3, -0.3, math.pi / 2, -math.pi / 2, math.pi, 2.4, -2.9, 7.5, 17]
    n = 0
    for dtype in (torch.float32, torch.float64):
        for shape in [(5,), (8, 8), (6, 11), (3, 4, 5)]:
            kx = torch.randn(shape, generator=gen, dtype=dtype)
            ky = torch.randn(shape, generator=gen, dtype=dtype)
            kx0, ky0 = kx.clone(), ky.clone()
            for ang in angles:
                o = ORIG["_passively_rotate_grid"](kx, ky, ang)
                r = cp._passively_rotate_grid(kx, ky, ang)
                assert isinstance(r, tuple) and len(r) == 2
                assert same_tensor(o[0], r[0]) and same_tensor(o[1], r[1])
                # inputs are never mutated and outputs never alias the inputs
                assert same_tensor(kx, kx0) and same_tensor(ky, ky0)
                assert r[0].data_ptr() not in (kx.data_ptr(), ky.data_ptr())
                assert r[1].data_ptr() not in (kx.data_ptr(), ky.data_ptr())
                n += 1
    # broadcast (expanded, non-contiguous) inputs as produced by spatial_frequencies
    for gpts, sampling in [((16, 16), (0.2, 0.2)), ((24, 18), (0.15, 0.22)), ((9, 32), (0.4, 0.1))]:
        for ang in [None] + angles:
            o = ORIG["spatial_frequencies"](gpts, sampling, rotation_angle=ang)
            r = cp.spatial_frequencies(gpts, sampling, rotation_angle=ang)
            assert same_tensor(o[0], r[0]) and same_tensor(o[1], r[1])
            n += 1
    # a tensor-valued / bad rotation angle fails the same way
    for bad in ("x", None, torch.tensor([1.0, 2.0])):
        kx = torch.randn(4, 4, generator=gen)
        assert outcome(ORIG["_passively_rotate_grid"], kx, kx, bad) == outcome(
            cp._passively_rotate_grid, kx, kx, bad
        )
    return n


# --------------------------------------------------------------------------------------
# 4. Cartesian label parser: old == new (values and exceptions)
# --------------------------------------------------------------------------------------
def check_parser():
    labels = list(du.ABERRATION_PRESETS["all"])
    assert len(labels) == 25
    labels += [
        "C10_", "C12_a_b", "C12__a", "C12_c", "C1", "C", "", "_", "_a", "Cab", "C1x_a",
        "phi12", "C123_b", "C12_ab", "C 2", "C٣٤_a", "c56_B",
    ]
    for lab in labels:
        o = outcome(ORIG["parse_cartesian_aberration_label"], lab)
        r = outcome(cp.parse_cartesian_aberration_label, lab)
        assert o == r, (lab, o, r)
        if o[0] == "ok":
            assert [type(x) for x in o[1]] == [type(x) for x in r[1]]
    # the basis built from the parser is unchanged as well, and equals the polar surface
    gen = torch.Generator().manual_seed(5)
    alpha = torch.rand(33, generator=gen, dtype=torch.float64) * 0.03
    phi = torch.rand(33, generator=gen, dtype=torch.float64) * 6 - 3
    basis = cp.aberration_surface_cartesian_basis(alpha, phi, 0.0197, du.ABERRATION_PRESETS["all"])
    polar = random_coefs(gen, cp.POLAR_SYMBOLS, dtype=torch.float64, as_tensor=True)
    cart = cp.polar_to_cartesian_aberrations(polar)
    vec = torch.stack([cart[k] for k in du.ABERRATION_PRESETS["all"]])
    chi = cp.aberration_surface(alpha, phi, 0.0197, polar)
    assert torch.allclose(basis @ vec, chi, rtol=1e-9, atol=1e-9 * float(chi.abs().max()))
    return len(labels)


# --------------------------------------------------------------------------------------
# 5. fit: old == new, and the round trip recovers the generating values
# --------------------------------------------------------------------------------------
def model_shifts(gpts, sampling, wavelength, rotation_angle, coefs, bf_mask):
    """same computation as DirectPtychography._return_lateral_shifts"""
    kxa, kya = cp.spatial_frequencies(gpts, sampling, rotation_angle=rotation_angle)
    k, phi = cp.polar_coordinates(kxa, kya)
    dx, dy = cp.aberration_surface_cartesian_gradients(k * wavelength, phi, aberration_coefs=coefs)
    grad_k = torch.stack((dx[bf_mask], dy[bf_mask]), -1)
    return grad_k / 2 / np.pi


def wrap(x, period):
    return (x + period / 2) % period - period / 2


def check_fit():
    wavelength = 0.0197
    n = 0
    for gpts, sampling in [((32, 32), (0.25, 0.25)), ((40, 28), (0.2, 0.3))]:
        kxa, kya = cp.spatial_frequencies(gpts, sampling)
        k, _ = cp.polar_coordinates(kxa, kya)
        bf_mask = (k * wavelength) <= 0.02
        assert int(bf_mask.sum()) > 20
        for rot, C10, C12, phi12 in itertools.product(
            [0.0, 0.2, -0.7, 1.2, -1.4],
            [300.0, -450.0, 1500.0],
            [0.0, 40.0, 120.0],
            [0.0, 0.6, -1.1],
        ):
            coefs = {"C10": C10, "C12": C12, "phi12": phi12}
            shifts = model_shifts(gpts, sampling, wavelength, rot, coefs, bf_mask)
            o = ORIG["fit_aberrations_from_shifts"](shifts, bf_mask, wavelength, gpts, sampling)
            r = du.fit_aberrations_from_shifts(shifts, bf_mask, wavelength, gpts, sampling)
            assert list(o) == list(r) == ["C10", "C12", "phi12", "rotation_angle"]
            for key in o:
                assert same_float(o[key], r[key]), (key, o[key], r[key])
            # round trip (identifiable domain: |rotation| < pi/2)
            assert abs(r["C10"] - C10) <= 1e-3 * abs(C10), (r, coefs, rot)
            assert abs(r["C12"] - C12) <= 1e-3 * abs(C10), (r, coefs, rot)
            assert abs(wrap(r["rotation_angle"] - rot, 2 * math.pi)) < 1e-3, (r, coefs, rot)
            if C12 > 0:
                assert abs(wrap(r["phi12"] - phi12, math.pi)) < 2e-2, (r, coefs, rot)
            n += 1

        # outside the identifiable domain and on noisy / arbitrary shifts: still old == new
        gen = torch.Generator().manual_seed(3)
        nbf = int(bf_mask.sum())
        extra = [
            model_shifts(gpts, sampling, wavelength, rot, {"C10": c10, "C12": 30.0, "phi12": 0.4}, bf_mask)
            for rot in (1.7, -1.9, 2.8, 3.1, -3.1, math.pi / 2, -math.pi / 2, math.pi, 5.0)
            for c10 in (200.0, -200.0)
        ]
        extra += [torch.randn(nbf, 2, generator=gen) for _ in range(10)]
        extra += [torch.zeros(nbf, 2)]
        for shifts in extra:
            o = ORIG["fit_aberrations_from_shifts"](shifts, bf_mask, wavelength, gpts, sampling)
            r = du.fit_aberrations_from_shifts(shifts, bf_mask, wavelength, gpts, sampling)
            assert list(o) == list(r)
            for key in o:
                assert same_float(o[key], r[key]), (key, o[key], r[key])
            n += 1

        # failure modes are the same (empty mask, wrong number of shift rows)
        empty = torch.zeros_like(bf_mask)
        for args in [
            (torch.zeros(0, 2), empty, wavelength, gpts, sampling),
            (torch.zeros(nbf + 1, 2), bf_mask, wavelength, gpts, sampling),
        ]:
            assert outcome(ORIG["fit_aberrations_from_shifts"], *args) == outcome(
                du.fit_aberrations_from_shifts, *args
            )
    return n


# --------------------------------------------------------------------------------------
# 6. defocus alias
# --------------------------------------------------------------------------------------
def check_alias():
    for d in (0.0, 1.0, -37.5, 1234.5):
        std = cp.standardize_aberration_coefs({"defocus": d})
        assert list(std) == ["C10"] and float(std["C10"]) == -float(np.float32(d))
        val = validate_aberration_coefficients({"defocus": d, "astigmatism": 3.0})
        assert val == {"C10": -d, "C12": 3.0}


if __name__ == "__main__":
    torch.manual_seed(0)
    torch.set_num_threads(1)
    n1 = check_gradients()
    check_gradient_property()
    n3 = check_rotation()
    n4 = check_parser()
    n5 = check_fit()
    check_alias()
    print(f"OK gradients={n1} rotation={n3} labels={n4} fits={n5}")
