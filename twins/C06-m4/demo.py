"""Demo for property C06 (Dataset.bin / fourier_resample / pad / crop).

Embeds a verbatim copy of the ORIGINAL implementations of Dataset.pad, Dataset.crop,
Dataset.bin and Dataset.fourier_resample (class _Orig below) and checks, over a spread of
shapes / dtypes / axis subsets / factors / output shapes / pad widths, that the installed
implementation returns bit-for-bit the same array, dtype, origin, sampling and name (or
raises the same exception type and message).  A few conservation laws from the property
statement are asserted as well.
"""

import itertools
import numbers
import sys
from typing import Any, Literal, Optional, Self, Union  # noqa: F401

import numpy as np

from quantem.core.datastructures.dataset import Dataset


class _Orig:
    def pad(
        self,
        pad_width: int | tuple[int, int] | tuple[tuple[int, int], ...] | None = None,
        output_shape: tuple[int, ...] | None = None,
        modify_in_place: bool = False,
        **kwargs: Any,
    ) -> Self | None:
        """
        Pads Dataset data array using numpy.pad.
        Metadata (origin, sampling) is not modified.

        Parameters
        ----------
        pad_width: int, tuple
            Number of values padded to the edges of each axis. See numpy.pad documentation.
        output_shape: tuple of int, optional
            Convenience option to pad to a desired output shape by symmetric padding.
        modify_in_place: bool
            If True, modifies this dataset's array directly. If False, returns a new Dataset.
        kwargs: dict
            Additional keyword arguments passed to numpy.pad.

        Returns
        --------
        Dataset or None
            Padded Dataset if modify_in_place is False, otherwise None.
        """
        if pad_width is not None:
            if output_shape is not None:
                raise ValueError("pad_width and output_shape cannot both be specified.")
            padded_array = np.pad(self.array, pad_width=pad_width, **kwargs)
        elif output_shape is not None:
            if len(output_shape) != self.ndim:
                raise ValueError("output_shape must be a tuple of length ndim.")
            padded_array = np.pad(
                self.array,
                pad_width=[
                    (
                        max(0, int(np.floor((output_shape[i] - self.shape[i]) / 2))),
                        max(0, int(np.ceil((output_shape[i] - self.shape[i]) / 2))),
                    )
                    for i in range(self.ndim)
                ],
                **kwargs,
            )
        else:
            raise ValueError("pad_width or output_shape must be specified.")

        if modify_in_place:
            self._array = padded_array
            return None

        new_dataset = self.copy()
        new_dataset.array = padded_array
        new_dataset.name = self.name + " (padded)"
        return new_dataset

    def crop(
        self,
        crop_widths: tuple[tuple[int, int], ...],
        axes: tuple | None = None,
        modify_in_place: bool = False,
    ) -> Self | None:
        """
        Crops Dataset

        Parameters
        ----------
        crop_widths:tuple
            Min and max for cropping each axis specified as a tuple
        axes:
            Axes over which to crop. If None specified, all are cropped.
        modify_in_place: bool
            If True, modifies dataset

        Returns
        --------
        Dataset (cropped) only if modify_in_place is False
        """
        if axes is None:
            if len(crop_widths) != self.ndim:
                raise ValueError("crop_widths must match number of dimensions when axes is None.")
            axes = tuple(range(self.ndim))
        elif isinstance(axes, int | float):
            axes = (int(axes),)
            crop_widths = (crop_widths[0],)  # Take first crop_width for single axis
        else:
            axes = tuple(int(a) for a in axes)

        if len(crop_widths) != len(axes):
            raise ValueError("Length of crop_widths must match length of axes.")

        full_slices = []
        crop_dict = dict(zip(axes, crop_widths))
        for axis, _ in enumerate(self.shape):
            if axis in crop_dict:
                before, after = crop_dict[axis]
                start = before
                stop = after if after != 0 else None
                full_slices.append(slice(start, stop))
            else:
                full_slices.append(slice(None))

        if modify_in_place is False:
            dataset = self.copy()
            dataset.array = dataset.array[tuple(full_slices)]
            return dataset

        self.array = self.array[tuple(full_slices)]
        return None

    def bin(
        self,
        bin_factors,
        axes=None,
        modify_in_place: bool = False,
        reducer: str = "sum",
    ) -> Self | None:
        """
        Bin the Dataset by integer factors along selected axes using block reduction.

        Parameters
        ----------
        bin_factors : int | tuple[int, ...]
            Bin factors per specified axis (positive integers).
        axes : int | tuple[int, ...] | None
            Axes to bin. If None, all axes are binned.
        modify_in_place : bool
            If True, modifies this dataset; otherwise returns a new Dataset.
        reducer : {"sum","mean"}
            Reduction applied within each block. "sum" (default) preserves counts;
            "mean" averages over each block (block volume = product of factors).

        Notes
        -----
        - Any remainder (shape % factor) is dropped on each binned axis.
        - Sampling is multiplied by the factor on each binned axis.
        - Origin is shifted to the center of the first block:
            origin_new = origin_old + 0.5 * (factor - 1) * sampling_old
        """
        reducer_norm = str(reducer).lower()
        if reducer_norm not in ("sum", "mean"):
            raise ValueError("reducer must be 'sum' or 'mean'")

        if axes is None:
            axes = tuple(range(self.ndim))
        elif isinstance(axes, int | float):
            axes = (int(axes),)
        else:
            axes = tuple(int(ax) for ax in axes)

        if isinstance(bin_factors, numbers.Integral):
            bin_factors = (int(bin_factors),) * len(axes)
        elif isinstance(bin_factors, (list, tuple)):
            if len(bin_factors) != len(axes):
                raise ValueError("bin_factors and axes must have the same length.")
            for fac in bin_factors:
                if not isinstance(fac, numbers.Integral):
                    raise TypeError(f"Each bin factor must be an integer, got {fac!r}")
            bin_factors = tuple(int(fac) for fac in bin_factors)
        else:
            raise TypeError("bin_factors must be an int or tuple of ints.")

        if any(fac <= 0 for fac in bin_factors):
            raise ValueError("All bin factors must be positive integers.")

        axis_to_factor = dict(zip(axes, bin_factors))

        slices = []
        effective_lengths = []
        for a0 in range(self.ndim):
            if a0 in axis_to_factor:
                fac = axis_to_factor[a0]
                length_eff = (self.shape[a0] // fac) * fac
                slices.append(slice(0, length_eff))
                effective_lengths.append(length_eff)
            else:
                slices.append(slice(None))
                effective_lengths.append(self.shape[a0])

        reshape_dims = []
        reduce_axes = []
        running_axis = 0
        for a1 in range(self.ndim):
            if a1 in axis_to_factor:
                fac = axis_to_factor[a1]
                nblocks = effective_lengths[a1] // fac
                reshape_dims.extend([nblocks, fac])
                reduce_axes.append(running_axis + 1)
                running_axis += 2
            else:
                reshape_dims.append(effective_lengths[a1])
                running_axis += 1

        array_view = self.array[tuple(slices)].reshape(tuple(reshape_dims))
        array_binned = np.sum(array_view, axis=tuple(reduce_axes))
        if reducer_norm == "mean":
            block_volume = 1
            for fac_b in axis_to_factor.values():
                block_volume *= fac_b
            array_binned = array_binned / block_volume

        new_sampling = self.sampling.astype(float).copy()
        new_origin = self.origin.astype(float).copy()
        for ax_binned, fac_binned in axis_to_factor.items():
            old_sampling = new_sampling[ax_binned]
            new_sampling[ax_binned] = old_sampling * fac_binned
            new_origin[ax_binned] = new_origin[ax_binned] + 0.5 * (fac_binned - 1) * old_sampling

        if modify_in_place:
            self._array = array_binned
            self._sampling = new_sampling
            self._origin = new_origin
            return None

        dataset = self.copy()
        dataset.array = array_binned
        dataset.sampling = new_sampling
        dataset.origin = new_origin

        factors_str = " ".join(
            f"{axis_to_factor[a2]:.3g}" if a2 in axis_to_factor else "1" for a2 in range(self.ndim)
        )
        suffix = f"(binned factors {factors_str}" + (", mean)" if reducer_norm == "mean" else ")")
        dataset.name = f"{self.name} {suffix}"
        return dataset

    def fourier_resample(
        self,
        out_shape: Optional[tuple[int, ...]] = None,
        factors: Optional[Union[float, tuple[float, ...]]] = None,
        axes: Optional[tuple[int, ...]] = None,
        modify_in_place: bool = False,
    ) -> Optional["Dataset"]:
        """
        Fourier resample the dataset by centered cropping (downsample) or zero padding (upsample).
        The operation is performed in the Fourier domain using fftshift alignment and default FFT
        normalization. The physical center is preserved and the mean intensity is kept constant.

        Parameters
        ----------
        out_shape : tuple of int, optional
            Output lengths for the selected axes. Must have the same length as `axes`.
            Use this when specifying the exact output shape.
        factors : float or tuple of float, optional
            Multiplicative resampling factors for each axis. A scalar factor is applied
            to all axes. Use this when specifying scaling rather than absolute size.
            Exactly one of `out_shape` or `factors` must be provided.
        axes : tuple of int, optional
            Axes to resample. Defaults to all axes. A scalar is interpreted as a single axis.
        modify_in_place : bool
            If True, update the dataset in place and return None.
            If False, return a new Dataset with the resampled array and updated metadata.

        Returns
        -------
        Dataset or None
            A new resampled dataset if `modify_in_place` is False, otherwise None.
        """
        if axes is None:
            axes = tuple(range(self.ndim))
        elif isinstance(axes, int | float):
            axes = (int(axes),)
        else:
            axes = tuple(int(a0) for a0 in axes)

        if (out_shape is None) == (factors is None):
            raise ValueError("Specify exactly one of out_shape or factors.")

        # Resolve out_shape & factors
        if factors is not None:
            if isinstance(factors, int | float):
                factors = (float(factors),) * len(axes)
            else:
                factors = tuple(float(f) for f in factors)
                if len(factors) != len(axes):
                    raise ValueError("factors length must match number of axes.")
            out_shape = tuple(
                max(1, int(round(self.shape[a1] * f))) for a1, f in zip(axes, factors)
            )
        else:
            assert out_shape is not None  # Guaranteed by check above
            if len(out_shape) != len(axes):
                raise ValueError("out_shape length must match number of axes.")
            out_shape = tuple(int(nl) for nl in out_shape)
            factors = tuple(out_len / self.shape[a2] for a2, out_len in zip(axes, out_shape))

        if any(nl < 1 for nl in out_shape):
            raise ValueError("All output lengths must be >= 1.")

        def _shift_center_index(n: int) -> int:
            # index of DC after fftshift: n//2 for even, (n-1)//2 for odd
            return n // 2 if (n % 2 == 0) else (n - 1) // 2

        # Forward FFT (default normalization: forward unscaled, inverse 1/N)
        F = np.fft.fftn(self.array, axes=axes)
        F = np.fft.fftshift(F, axes=axes)

        # Center-aligned crop/pad per axis (so DC stays centered)
        axis_to_outlen = dict(zip(axes, out_shape))
        slices: list[slice] = []
        pad_specs: list[tuple[int, int]] = []
        for a3 in range(self.ndim):
            if a3 in axis_to_outlen:
                old_len = self.shape[a3]
                new_len = axis_to_outlen[a3]
                oc = _shift_center_index(old_len)
                nc = _shift_center_index(new_len)

                if new_len < old_len:
                    start = oc - nc
                    end = start + new_len
                    slices.append(slice(start, end))
                    pad_specs.append((0, 0))
                elif new_len > old_len:
                    slices.append(slice(None))
                    before = nc - oc
                    after = new_len - old_len - before
                    pad_specs.append((before, after))
                else:
                    slices.append(slice(None))
                    pad_specs.append((0, 0))
            else:
                slices.append(slice(None))
                pad_specs.append((0, 0))

        F_rs = F[tuple(slices)]
        if any(pw != (0, 0) for pw in pad_specs):
            F_rs = np.pad(F_rs, pad_specs, mode="constant")

        # Inverse FFT
        F_rs = np.fft.ifftshift(F_rs, axes=axes)
        array_resampled = np.fft.ifftn(F_rs, axes=axes)

        if np.isrealobj(self.array):
            array_resampled = array_resampled.real

        # Mean preservation with default FFTs:
        # ones -> F(0)=N_in, IFFT size N_out -> constant N_in/N_out; multiply by N_out/N_in.
        N_in = int(np.prod([self.shape[a4] for a4 in axes]))
        N_out = int(np.prod([axis_to_outlen[a5] for a5 in axes]))
        if N_in > 0 and N_out > 0:
            array_resampled *= N_out / N_in

        # Metadata (ensure float arrays to avoid truncation)
        new_sampling = self.sampling.astype(float).copy()
        for a6, out_len in zip(axes, out_shape):
            fac_actual = out_len / self.shape[a6]
            new_sampling[a6] = new_sampling[a6] / fac_actual

        new_origin = self.origin.astype(float).copy()
        for a7, out_len in zip(axes, out_shape):
            old_len = self.shape[a7]
            old_center_idx = (old_len - 1) / 2.0
            new_center_idx = (out_len - 1) / 2.0
            old_sampling = self.sampling[a7]
            new_origin[a7] = (
                self.origin[a7] + old_center_idx * old_sampling - new_center_idx * new_sampling[a7]
            )

        if modify_in_place:
            self._array = array_resampled
            self._sampling = new_sampling
            self._origin = new_origin
            return None

        ds = self.copy()
        ds.array = array_resampled
        ds.sampling = new_sampling
        ds.origin = new_origin
        return ds


# --------------------------------------------------------------------------------------
def _mk(arr, rng):
    nd = arr.ndim
    origin = rng.uniform(-3, 3, size=nd)
    sampling = rng.uniform(0.1, 2.5, size=nd)
    return Dataset.from_array(arr.copy(), name="d", origin=origin, sampling=sampling,
                              units=["nm"] * nd)


def _snapshot(ds):
    a = ds.array
    return (
        type(a).__name__,
        a.dtype.str,
        a.shape,
        np.ascontiguousarray(a).tobytes(),
        np.asarray(ds.origin).dtype.str,
        np.asarray(ds.origin).tobytes(),
        np.asarray(ds.sampling).dtype.str,
        np.asarray(ds.sampling).tobytes(),
        ds.name,
        list(ds.units),
    )


def _run(fn, ds_factory, *args, **kwargs):
    """Run fn(ds, ...) for modify_in_place False and True; return comparable outcome."""
    out = []
    for inplace in (False, True):
        ds = ds_factory()
        try:
            res = fn(ds, *args, modify_in_place=inplace, **kwargs)
        except Exception as e:  # noqa: BLE001
            out.append(("exc", type(e).__name__, str(e)))
            continue
        if inplace:
            assert res is None
            out.append(("ok", _snapshot(ds)))
        else:
            out.append(("ok", _snapshot(res), _snapshot(ds)))
    return out


N_CASES = 0


def same(method, ds_factory, *args, **kwargs):
    global N_CASES
    N_CASES += 1
    new = _run(getattr(Dataset, method), ds_factory, *args, **kwargs)
    old = _run(getattr(_Orig, method), ds_factory, *args, **kwargs)
    assert new == old, f"{method}{args}{kwargs}: installed implementation differs from original"
    return new


def arrays(rng):
    shapes = [(1,), (7,), (8,), (5, 6), (6, 5), (9, 9), (4, 4), (3, 4, 5), (2, 3, 4, 5), (1, 1), (7, 1)]
    for shp in shapes:
        n = int(np.prod(shp))
        yield rng.integers(-50, 50, size=shp).astype(np.int64)
        yield rng.integers(0, 200, size=shp).astype(np.uint8)
        yield rng.normal(size=shp).astype(np.float32)
        yield rng.normal(size=shp)
        yield (rng.normal(size=shp) + 1j * rng.normal(size=shp))
        yield (rng.normal(size=shp) + 1j * rng.normal(size=shp)).astype(np.complex64)
        del n


def axis_subsets(nd):
    subs = [None]
    for r in range(1, nd + 1):
        subs.extend(itertools.combinations(range(nd), r))
    return subs


def main():
    rng = np.random.default_rng(20240606)

    for arr in arrays(rng):
        nd = arr.ndim
        seed = int(rng.integers(1 << 30))

        def fac(arr=arr, seed=seed):
            return _mk(arr, np.random.default_rng(seed))

        # ---------------- bin ----------------
        for axes in axis_subsets(nd):
            k = nd if axes is None else len(axes)
            for f in (1, 2, 3, 4):
                for reducer in ("sum", "mean"):
                    res = same("bin", fac, f, axes=axes, reducer=reducer)
                    if res[0][0] == "ok" and reducer == "sum" and arr.dtype.kind in "iu":
                        # counts over the covered region are conserved exactly for ints
                        ax = tuple(range(nd)) if axes is None else axes
                        sl = tuple(slice(0, (arr.shape[a] // f) * f) if a in ax else slice(None)
                                   for a in range(nd))
                        got = np.frombuffer(res[0][1][3], dtype=res[0][1][1]).sum()
                        assert got == arr[sl].sum()
            if k >= 2:
                same("bin", fac, tuple((2, 3, 1, 2)[:k]), axes=axes)
                same("bin", fac, list((3, 1, 2, 2)[:k]), axes=axes, reducer="mean")
            if axes is not None and len(axes) == 1:
                same("bin", fac, 2, axes=axes[0])
                same("bin", fac, np.int64(2), axes=float(axes[0]))
        # error paths
        same("bin", fac, 0)
        same("bin", fac, -1)
        same("bin", fac, 2.0)
        same("bin", fac, (2,) * (nd + 1))
        same("bin", fac, (2.5,) * nd)
        same("bin", fac, 2, reducer="median")
        same("bin", fac, 100)
        same("bin", fac, 2, reducer="MEAN")

        # ---------------- pad / crop ----------------
        for pw in (0, 1, 3, (1, 2), tuple((i, i + 1) for i in range(nd))):
            res = same("pad", fac, pw)
            same("pad", fac, pad_width=pw, mode="edge")
        for delta in (0, 1, 2, 3, 5):
            oshape = tuple(s + delta + (i % 2) for i, s in enumerate(arr.shape))
            same("pad", fac, output_shape=oshape)
            same("pad", fac, None, oshape, constant_values=3)
            # pad to output shape then crop the pad widths returns the original data
            widths = tuple(
                (int(np.floor((o - s) / 2)), -int(np.ceil((o - s) / 2)))
                for o, s in zip(oshape, arr.shape)
            )
            padded = fac().pad(output_shape=oshape)
            assert padded.shape == oshape
            back = padded.crop(widths)
            assert back.array.dtype == arr.dtype and np.array_equal(back.array, arr)
            same("crop", lambda p=padded: p.copy(), widths)
        same("pad", fac, output_shape=tuple(max(1, s - 1) for s in arr.shape))
        same("pad", fac, output_shape=arr.shape + (3,))
        same("pad", fac)
        same("pad", fac, 1, arr.shape)

        for axes in axis_subsets(nd):
            k = nd if axes is None else len(axes)
            for cw in ((0, 0), (1, 0), (0, -1), (1, -1), (2, 4), (1, 100), (-3, 0), (3, 1)):
                same("crop", fac, tuple(cw for _ in range(k)), axes=axes)
            if axes is not None and len(axes) == 1:
                same("crop", fac, ((1, -1),), axes=axes[0])
                same("crop", fac, ((1, 0), (2, 0)), axes=float(axes[0]))
        same("crop", fac, ((0, 0),) * (nd + 1))
        same("crop", fac, ((0, 0),) * (nd + 1), axes=tuple(range(nd)))

        # ---------------- fourier_resample ----------------
        for axes in axis_subsets(nd):
            ax = tuple(range(nd)) if axes is None else axes
            for variant in range(6):
                oshape = tuple(
                    max(1, arr.shape[a] + (-2, -1, 0, 1, 2, 3)[(variant + j) % 6])
                    for j, a in enumerate(ax)
                )
                res = same("fourier_resample", fac, out_shape=oshape, axes=axes)
                assert res[0][0] == "ok"
            for f in (0.5, 1, 1.5, 2, 0.01):
                same("fourier_resample", fac, factors=f, axes=axes)
            same("fourier_resample", fac, factors=tuple((0.5, 2.0, 1.3, 1.0)[: len(ax)]), axes=axes)
            if axes is not None and len(axes) == 1:
                same("fourier_resample", fac, out_shape=(arr.shape[axes[0]] + 1,), axes=axes[0])
        same("fourier_resample", fac)
        same("fourier_resample", fac, out_shape=arr.shape, factors=1.0)
        same("fourier_resample", fac, out_shape=arr.shape + (2,))
        same("fourier_resample", fac, factors=(1.0,) * (nd + 1))
        same("fourier_resample", fac, out_shape=(0,) * nd)

    # ---------------- property spot checks on the installed implementation ----------------
    rng = np.random.default_rng(7)
    for shp, oshp in (((8, 9), (12, 13)), ((7, 6), (7, 6)), ((10,), (5,)), ((5, 6, 7), (6, 9, 8))):
        a = rng.normal(size=shp)
        ds = _mk(a, rng)
        out = ds.fourier_resample(out_shape=oshp)
        assert out.shape == oshp
        assert np.isclose(out.array.mean(), a.mean(), rtol=1e-10, atol=1e-12)
        n_in, n_out = np.array(shp), np.array(oshp)
        c_in = ds.origin + 0.5 * (n_in - 1) * ds.sampling
        c_out = out.origin + 0.5 * (n_out - 1) * out.sampling
        assert np.allclose(c_in, c_out, rtol=1e-12, atol=1e-12)
        assert np.allclose(n_in * ds.sampling, n_out * out.sampling, rtol=1e-12)
        if shp == oshp:
            assert np.allclose(out.array, a, atol=1e-12)
    # up- then down-sampling a band-limited signal returns it
    x = np.arange(9)
    sig = 1.0 + np.cos(2 * np.pi * 2 * x / 9) + 0.5 * np.sin(2 * np.pi * 3 * x / 9)
    ds = Dataset.from_array(sig)
    rt = ds.fourier_resample(out_shape=(14,)).fourier_resample(out_shape=(9,))
    assert np.allclose(rt.array, sig, atol=1e-12)
    assert np.allclose(rt.origin, ds.origin, atol=1e-12) and np.allclose(rt.sampling, ds.sampling)
    # binning: block-centre coordinate is preserved
    a = rng.integers(0, 9, size=(11, 7))
    ds = _mk(a, rng)
    b = ds.bin((3, 2))
    assert b.shape == (3, 3)
    assert np.array_equal(b.array, a[:9, :6].reshape(3, 3, 3, 2).sum(axis=(1, 3)))
    assert np.allclose(b.origin, ds.origin + ds.sampling * np.array([1.0, 0.5]))
    assert np.allclose(b.sampling, ds.sampling * np.array([3, 2]))

    print(f"C06 demo OK: {N_CASES} old-vs-new comparisons bit-identical")
    return 0


if __name__ == "__main__":
    sys.exit(main())
