"""
C11 demo: ragged Vector keeps its structural invariants under any operation history.

Two checks are made on a spread of random operation histories (1..3 fixed dimensions,
1..4 fields, ragged row counts incl. zero rows and unset cells, int/slice/list/ndarray
index expressions, valid and invalid calls):

 (a) the property itself (cells 2-D with one column per field, fields/units one-to-one,
     field flatten == row-major concatenation, write-back restores the data, copies are
     independent, get_data / set_data / slicing address the right cells);
 (b) the functions in the installed tree (Vector.get_data, Vector.set_data,
     Vector.add_fields, _FieldView.set_flattened) behave bit-for-bit like the verbatim
     copies of the ORIGINAL functions embedded below (same arrays, dtypes, aliasing,
     exception types and messages, printed output).

Invoked as: PYTHONPATH=<root>/src /venv/bin/python demo.py
"""

import contextlib
import io
import itertools
import random
import sys
from typing import Any, List, Union

import numpy as np
from numpy.typing import ArrayLike, NDArray

from quantem.core.datastructures import vector as vmod
from quantem.core.datastructures.vector import Vector, _FieldView

# --------------------------------------------------------------------------------------
# Verbatim copies of the ORIGINAL functions (only the def name got the _orig_ prefix)
# --------------------------------------------------------------------------------------

def _orig_get_data(
    self, *indices: Union[int, slice, List[int], np.ndarray[Any, np.dtype[Any]]]
) -> Union[NDArray, List[NDArray]]:
    """
    Get data at specified indices.

    Parameters:
    -----------
    *indices : Union[int, slice, List[int], np.ndarray]
        Indices to access. Must match the number of dimensions in the vector.
        Supports fancy indexing with lists or numpy arrays.

    Returns:
    --------
    numpy.ndarray or list
        The data at the specified indices.

    Raises:
    -------
    IndexError
        If indices are out of bounds.
    ValueError
        If the number of indices does not match the vector dimensions.
    """
    if len(indices) != len(self._shape):
        raise ValueError(f"Expected {len(self._shape)} indices, got {len(indices)}")

    # Handle fancy indexing and slicing
    def get_indices(dim_idx: Any, dim_size: int) -> np.ndarray:
        if isinstance(dim_idx, slice):
            start, stop, step = dim_idx.indices(dim_size)
            return np.arange(start, stop, step)
        elif isinstance(dim_idx, (np.ndarray, list)):
            idx = np.asarray(dim_idx)
            if np.any((idx < 0) | (idx >= dim_size)):
                raise IndexError(f"Index out of bounds for axis with size {dim_size}")
            return idx
        elif isinstance(dim_idx, (int, np.integer)):
            if dim_idx < 0 or dim_idx >= dim_size:
                raise IndexError(
                    f"Index {dim_idx} out of bounds for axis with size {dim_size}"
                )
            return np.array([dim_idx])
        return np.arange(dim_size)

    # Get indices for each dimension
    indices_arrays = [get_indices(i, s) for i, s in zip(indices, self._shape)]

    # If all indices are single integers, return a single array
    if all(len(i) == 1 for i in indices_arrays):
        ref = self._data
        for idx in (i[0] for i in indices_arrays):
            ref = ref[idx]
        return ref

    # Create result structure for fancy indexing
    result = []
    for idx in np.ndindex(*[len(i) for i in indices_arrays]):
        src_idx = tuple(ind[i] for ind, i in zip(indices_arrays, idx))
        ref = self._data
        for i in src_idx:
            ref = ref[i]
        result.append(ref)

    return result


def _orig_set_data(
    self,
    value: Union[NDArray, List[NDArray]],
    *indices: Union[int, slice, List[int], np.ndarray[Any, np.dtype[Any]]],
) -> None:
    """
    Set data at specified indices.

    Parameters
    ----------
    value : Union[NDArray, List[NDArray]]
        The numpy array(s) to set at the specified indices. Must have shape (_, num_fields).
        For fancy indexing, can be a list of arrays.
    *indices : Union[int, slice, List[int], np.ndarray]
        Indices to set data at. Must match the number of dimensions in the vector.
        Supports fancy indexing with lists or numpy arrays.

    Raises
    ------
    IndexError
        If indices are out of bounds.
    ValueError
        If the number of indices does not match the vector dimensions,
        or if the value shape doesn't match the expected shape.
    TypeError
        If the value is not a numpy array or list of numpy arrays.
    """
    if len(indices) != len(self._shape):
        raise ValueError(f"Expected {len(self._shape)} indices, got {len(indices)}")

    # Handle fancy indexing and slicing
    def get_indices(dim_idx: Any, dim_size: int) -> np.ndarray:
        if isinstance(dim_idx, slice):
            start, stop, step = dim_idx.indices(dim_size)
            return np.arange(start, stop, step)
        elif isinstance(dim_idx, (np.ndarray, list)):
            idx = np.asarray(dim_idx)
            if np.any((idx < 0) | (idx >= dim_size)):
                raise IndexError(f"Index out of bounds for axis with size {dim_size}")
            return idx
        elif isinstance(dim_idx, (int, np.integer)):
            if dim_idx < 0 or dim_idx >= dim_size:
                raise IndexError(
                    f"Index {dim_idx} out of bounds for axis with size {dim_size}"
                )
            return np.array([dim_idx])
        return np.arange(dim_size)

    # Get indices for each dimension
    indices_arrays = [get_indices(i, s) for i, s in zip(indices, self._shape)]

    # If all indices are single integers, handle as single value
    if all(len(i) == 1 for i in indices_arrays):
        if not isinstance(value, np.ndarray):
            raise TypeError(f"Value must be a numpy array, got {type(value).__name__}")
        if value.ndim != 2 or value.shape[1] != self.num_fields:
            raise ValueError(
                f"Expected a numpy array with shape (_, {self.num_fields}), got {value.shape}"
            )
        ref = self._data
        for idx in (i[0] for i in indices_arrays[:-1]):
            ref = ref[idx]
        ref[indices_arrays[-1][0]] = value
        return

    # Handle fancy indexing
    if not isinstance(value, list):
        raise TypeError("For fancy indexing, value must be a list of numpy arrays")

    total_indices = int(np.prod([len(i) for i in indices_arrays]))
    if len(value) != total_indices:
        raise ValueError(f"Expected {total_indices} arrays, got {len(value)}")

    # Validate and set values
    for array_idx, idx in enumerate(np.ndindex(*[len(i) for i in indices_arrays])):
        src_idx = tuple(ind[i] for ind, i in zip(indices_arrays, idx))
        if not isinstance(value[array_idx], np.ndarray):
            raise TypeError(f"Expected numpy array, got {type(value[array_idx]).__name__}")
        if value[array_idx].ndim != 2 or value[array_idx].shape[1] != self.num_fields:
            raise ValueError(
                f"Expected array with shape (_, {self.num_fields}), got {value[array_idx].shape}"
            )
        ref = self._data
        for i in src_idx[:-1]:
            ref = ref[i]
        ref[src_idx[-1]] = value[array_idx]


def _orig_add_fields(self, new_fields: Union[str, List[str]]) -> None:
    """
    Add new fields to the vector.

    Parameters
    ----------
    new_fields : Union[str, List[str]]
        Field name(s) to add. Must be unique and not already present.

    Raises
    ------
    ValueError
        If any field name already exists or if there are duplicates
    """
    if isinstance(new_fields, str):
        new_fields = [new_fields]
    else:
        new_fields = list(new_fields)

    if any(name in self._fields for name in new_fields):
        raise ValueError("One or more new field names already exist.")

    if len(set(new_fields)) != len(new_fields):
        raise ValueError("Duplicate field names in input are not allowed.")

    self._fields = list(self._fields) + list(new_fields)
    self._units = list(self._units) + ["none"] * len(new_fields)

    def expand_array(arr: Any) -> Any:
        if isinstance(arr, np.ndarray):
            if arr.shape[1] != self.num_fields - len(new_fields):
                raise ValueError(
                    f"Expected arrays with {self.num_fields - len(new_fields)} fields, got {arr.shape[1]}"
                )
            pad = np.zeros((arr.shape[0], len(new_fields)))
            return np.hstack([arr, pad])
        elif isinstance(arr, list):
            return [expand_array(sub) for sub in arr]
        else:
            return arr

    self._data = expand_array(self._data)


def _orig_set_flattened(self, values: ArrayLike) -> None:
    """
    Set the field values across the entire Vector from a 1D flattened array.
    """

    def fill(arr: Any, values: NDArray, cursor: int) -> int:
        if isinstance(arr, np.ndarray):
            n = arr.shape[0]
            arr[:, self.field_index] = values[cursor : cursor + n]
            return cursor + n
        elif isinstance(arr, list):
            for sub in arr:
                cursor = fill(sub, values, cursor)
            return cursor
        return cursor

    values = np.asarray(values)
    if values.ndim != 1:
        raise ValueError("Input to set_flattened must be a 1D array.")

    expected = self.flatten().shape[0]
    if values.shape[0] != expected:
        raise ValueError(f"Expected {expected} values, got {values.shape[0]}")

    fill(self.vector._data, values, cursor=0)


# --------------------------------------------------------------------------------------
# Observation helpers
# --------------------------------------------------------------------------------------


def obs(x: Any, ids: dict | None = None) -> Any:
    """Hashable, bit-exact description of a value (aliasing between arrays is recorded)."""
    if ids is None:
        ids = {}
    if x is None:
        return None
    if isinstance(x, np.ndarray):
        tag = ids.setdefault(id(x), len(ids))
        return ("nd", tag, x.dtype.str, x.shape, x.strides, x.tobytes())
    if isinstance(x, (list, tuple)):
        return (type(x).__name__,) + tuple(obs(i, ids) for i in x)
    if isinstance(x, Vector):
        return (
            "Vector",
            x.shape,
            tuple(x.fields),
            tuple(x.units),
            x.name,
            obs(x._data, ids),
        )
    if isinstance(x, _FieldView):
        return ("FieldView", x.field_name, x.field_index)
    if isinstance(x, BaseException):
        return ("exc", type(x).__name__, str(x))
    if isinstance(x, (np.generic,)):
        return ("npscalar", x.dtype.str, x.tobytes())
    return (type(x).__name__, repr(x))


def cells(v: Vector):
    for pos in itertools.product(*[range(n) for n in v.shape]):
        ref = v._data
        for p in pos:
            ref = ref[p]
        yield pos, ref


def check_invariants(v: Vector) -> None:
    nf = v.num_fields
    assert len(v.fields) == nf == len(v.units)
    assert len(set(v.fields)) == nf
    assert isinstance(v.fields, list) and isinstance(v.units, list)
    per_field = {f: [] for f in v.fields}
    all_rows = []
    for pos, c in cells(v):
        if c is None:
            continue
        assert isinstance(c, np.ndarray) and c.ndim == 2, (pos, type(c))
        assert c.shape[1] == nf, (pos, c.shape, nf)
        all_rows.append(c)
        for k, f in enumerate(v.fields):
            per_field[f].append(c[:, k])
    for f in v.fields:
        got = v[f].flatten()
        if per_field[f]:
            want = np.concatenate(per_field[f], axis=0)
            assert got.dtype == want.dtype and got.shape == want.shape
            assert got.tobytes() == want.tobytes()
        else:
            assert got.shape == (0,)
    flat = v.flatten()
    if all_rows:
        want = np.vstack(all_rows)
        assert flat.shape == want.shape and flat.tobytes() == want.tobytes()
    else:
        assert flat.shape == (0, nf)
    # write-back restores the same data, copies are independent
    before = obs(v)
    w = v.copy()
    assert obs(w)[1:4] == before[1:4]
    for (_, a), (_, b) in zip(cells(v), cells(w)):
        assert (a is None) == (b is None)
        if a is not None:
            assert a is not b and not np.shares_memory(a, b)
            assert a.dtype == b.dtype and a.shape == b.shape and a.tobytes() == b.tobytes()
    for f in w.fields:
        w[f].set_flattened(w[f].flatten())
    for (_, a), (_, b) in zip(cells(v), cells(w)):
        if a is not None:
            assert a.tobytes() == b.tobytes()
    for f in w.fields:
        w[f] += 1
    assert obs(v) == before
    assert w.fields is not v.fields and w.units is not v.units and w._data is not v._data


# --------------------------------------------------------------------------------------
# Random operation histories
# --------------------------------------------------------------------------------------

DTYPES = [np.float64, np.float32, np.int64, np.int32]


def rand_cell(rng: random.Random, nprng, nf: int, bad: bool = False):
    rows = rng.choice([0, 0, 1, 2, 3, 5])
    cols = nf + rng.choice([-1, 1]) if bad else nf
    dt = rng.choice(DTYPES)
    arr = nprng.integers(-50, 50, size=(rows, max(cols, 0))).astype(dt)
    if dt in (np.float64, np.float32):
        arr = arr + dt(0.25)
    if rng.random() < 0.1:
        arr = np.asfortranarray(arr)
    return arr


def rand_index(rng: random.Random, n: int, allow_bad: bool = True):
    kind = rng.choice(["int", "int", "slice", "slice", "list", "array", "npint", "none", "bad"])
    if kind == "bad" and not allow_bad:
        kind = "int"
    if kind == "int":
        return rng.randrange(n)
    if kind == "npint":
        return np.int64(rng.randrange(n))
    if kind == "slice":
        return rng.choice(
            [
                slice(None),
                slice(0, rng.randrange(n + 1)),
                slice(rng.randrange(n), None),
                slice(None, None, 2),
                slice(None, None, -1),
                slice(n, 0),
                slice(-2, None),
            ]
        )
    if kind == "list":
        return [rng.randrange(n) for _ in range(rng.choice([0, 1, 2, 3, 4]))]
    if kind == "array":
        return np.array([rng.randrange(n) for _ in range(rng.choice([1, 2, 3]))], dtype=rng.choice([np.int64, np.int32, np.intp]))
    if kind == "none":
        return None  # get_indices falls through to "whole axis"
    return rng.choice([n, -1, n + 3, [0, n], np.array([-1, 0]), -n - 1])


def resolve(ix, n):
    """Reference resolution of one index expression (for in-range expressions only)."""
    if isinstance(ix, slice):
        return list(range(*ix.indices(n)))
    if isinstance(ix, (list, np.ndarray)):
        return [int(i) for i in ix]
    if isinstance(ix, (int, np.integer)):
        return [int(ix)]
    return list(range(n))


def in_range(ix, n):
    if isinstance(ix, slice) or ix is None:
        return True
    return all(0 <= i < n for i in resolve(ix, n))


def attempt(log: list, fn, *a, **k):
    buf = io.StringIO()
    try:
        with contextlib.redirect_stdout(buf):
            r = fn(*a, **k)
    except Exception as e:  # noqa: BLE001 - outcome is recorded and compared
        log.append(("raised", obs(e), buf.getvalue()))
        return e
    log.append(("ok", obs(r), buf.getvalue()))
    return r


def run_history(seed: int, check: bool) -> list:
    rng = random.Random(seed)
    nprng = np.random.default_rng(seed)
    log: list = []
    ndim = rng.choice([1, 2, 3])
    shape = tuple(rng.choice([1, 2, 3, 4]) for _ in range(ndim))
    nf = rng.choice([1, 2, 3, 4])
    if ndim == 1 and rng.random() < 0.5:
        data = [rand_cell(rng, nprng, nf) for _ in range(shape[0])]
        if rng.random() < 0.5:
            data = [d.tolist() if d.shape[0] else d for d in data]
        v = Vector.from_data(data, fields=[f"f{i}" for i in range(nf)], units=[f"u{i}" for i in range(nf)])
    elif rng.random() < 0.5:
        v = Vector.from_shape(shape, num_fields=nf)
    else:
        v = Vector.from_shape(shape, fields=[f"f{i}" for i in range(nf)], name="vec")
    other = Vector.from_shape(shape, num_fields=nf)
    counter = 0

    for step in range(30):
        op = rng.choice(
            [
                "set_cell", "set_cell", "setitem_cell", "set_fancy", "set_fancy", "set_fancy",
                "setitem_fancy", "get", "get", "get", "getitem", "arith", "flatten",
                "set_flat", "set_flat", "set_flat_bad", "add", "add", "add_bad", "remove",
                "copy", "wrong_nidx", "set_bad_cols", "set_bad_type", "field_assign",
            ]
        )
        nf = v.num_fields
        if op == "set_cell":
            pos = tuple(rng.randrange(n) for n in v.shape)
            val = rand_cell(rng, nprng, nf)
            attempt(log, v.set_data, val, *pos)
            if check:
                assert v.get_data(*pos) is val
        elif op == "setitem_cell":
            pos = tuple(rng.randrange(n) for n in v.shape)
            val = rand_cell(rng, nprng, nf)
            attempt(log, v.__setitem__, pos if len(pos) > 1 else pos[0], val)
        elif op in ("set_fancy", "setitem_fancy"):
            ixs = [rand_index(rng, n) for n in v.shape]
            ok = all(in_range(ix, n) for ix, n in zip(ixs, v.shape))
            if ok:
                res = [resolve(ix, n) for ix, n in zip(ixs, v.shape)]
                total = int(np.prod([len(r) for r in res]))
            else:
                res, total = None, rng.choice([1, 2, 4])
            delta = rng.choice([0, 0, 0, 0, 1, -1])
            vals: Any = [rand_cell(rng, nprng, nf) for _ in range(max(total + delta, 0))]
            if vals and rng.random() < 0.08:
                vals[rng.randrange(len(vals))] = rand_cell(rng, nprng, nf, bad=True)
            if vals and rng.random() < 0.05:
                vals[rng.randrange(len(vals))] = [[0.0] * nf]
            if rng.random() < 0.05:
                vals = tuple(vals)
            if op == "set_fancy":
                r = attempt(log, v.set_data, vals, *ixs)
                single = ok and all(len(x) == 1 for x in res)
                if check and ok and not single and not isinstance(r, Exception):
                    want = {}
                    for k, pos in enumerate(itertools.product(*res)):
                        want[pos] = vals[k]
                    for pos, arr in want.items():
                        assert v.get_data(*pos) is arr, (ixs, pos)
            else:
                if any(ix is None for ix in ixs):
                    ixs = [slice(None) if ix is None else ix for ix in ixs]
                attempt(log, v.__setitem__, tuple(ixs) if len(ixs) > 1 else ixs[0], vals)
        elif op == "get":
            ixs = [rand_index(rng, n) for n in v.shape]
            r = attempt(log, v.get_data, *ixs)
            ok = all(in_range(ix, n) for ix, n in zip(ixs, v.shape))
            if check and ok:
                assert not isinstance(r, Exception), (ixs, r)
                res = [resolve(ix, n) for ix, n in zip(ixs, v.shape)]
                want = []
                for pos in itertools.product(*res):
                    ref = v._data
                    for p in pos:
                        ref = ref[p]
                    want.append(ref)
                if all(len(x) == 1 for x in res):
                    assert r is want[0]
                else:
                    assert isinstance(r, list) and len(r) == len(want)
                    assert all(a is b for a, b in zip(r, want))
            elif check:
                assert isinstance(r, IndexError), (ixs, r)
        elif op == "getitem":
            ixs = [rand_index(rng, n, allow_bad=False) for n in v.shape]
            ixs = [slice(None) if ix is None else ix for ix in ixs]
            ixs = ixs[: rng.randrange(1, len(ixs) + 1)]
            r = attempt(log, v.__getitem__, tuple(ixs) if len(ixs) > 1 else ixs[0])
            if check and isinstance(r, Vector):
                full = ixs + [slice(None)] * (len(v.shape) - len(ixs))
                res = [resolve(ix, n) for ix, n in zip(full, v.shape)]
                assert r.shape == tuple(len(x) for x in res)
                for (opos, c), spos in zip(cells(r), itertools.product(*res)):
                    assert c is v.get_data(*spos)
        elif op == "arith":
            f = rng.choice(v.fields)
            k = rng.choice([2, 3, 0.5, -1])
            which = rng.choice(["add", "sub", "mul", "div", "mod"])

            def do():
                fv = v[f]
                if which == "add":
                    fv += k
                elif which == "sub":
                    fv -= k
                elif which == "mul":
                    fv *= k
                elif which == "div":
                    fv /= k
                else:
                    fv %= 7

            with np.errstate(all="ignore"):
                attempt(log, do)
        elif op == "flatten":
            attempt(log, v.flatten)
            attempt(log, v[rng.choice(v.fields)].flatten)
        elif op in ("set_flat", "field_assign"):
            f = rng.choice(v.fields)
            n = v[f].flatten().shape[0]
            vals = nprng.integers(-9, 9, size=n).astype(rng.choice(DTYPES))
            if rng.random() < 0.3:
                vals = vals.tolist()
            if op == "set_flat":
                attempt(log, v[f].set_flattened, vals)
                if check:
                    got = v[f].flatten()
                    assert np.array_equal(got, np.asarray(vals, dtype=got.dtype))
            else:
                attempt(log, v.__setitem__, f, vals)
        elif op == "set_flat_bad":
            f = rng.choice(v.fields)
            n = v[f].flatten().shape[0]
            bad = rng.choice([np.zeros(n + 1), np.zeros((n, 1)), np.zeros(max(n - 1, 0)) if n else np.zeros(2), 3.0])
            before = obs(v)
            r = attempt(log, v[f].set_flattened, bad)
            if check:
                assert isinstance(r, ValueError) and obs(v) == before
        elif op == "add":
            counter += 1
            new = rng.choice([f"g{counter}", [f"g{counter}"], [f"g{counter}a", f"g{counter}b"], (f"g{counter}x", f"g{counter}y", f"g{counter}z"), []])
            old_fields = list(v.fields)
            old_cols = {pos: (None if c is None else c.copy()) for pos, c in cells(v)}
            r = attempt(log, v.add_fields, new)
            if check:
                assert not isinstance(r, Exception)
                add = [new] if isinstance(new, str) else list(new)
                assert v.fields == old_fields + add
                assert v.units[len(old_fields):] == ["none"] * len(add)
                for pos, c in cells(v):
                    o = old_cols[pos]
                    assert (c is None) == (o is None)
                    if c is not None:
                        assert np.array_equal(c[:, : len(old_fields)], o)
                        assert not c[:, len(old_fields):].any()
        elif op == "add_bad":
            bad = rng.choice([v.fields[0], [v.fields[-1], "zz"], ["dup", "dup"]])
            before = obs(v)
            r = attempt(log, v.add_fields, bad)
            if check:
                assert isinstance(r, ValueError) and obs(v) == before
        elif op == "remove":
            if v.num_fields > 1:
                k = rng.randrange(1, v.num_fields)
                rem = rng.sample(v.fields, k=min(k, v.num_fields - 1))
                if rng.random() < 0.3:
                    rem = rem + ["missing"]
                if len(rem) == 1 and rng.random() < 0.5:
                    rem = rem[0]
                attempt(log, v.remove_fields, rem)
            else:
                attempt(log, v.remove_fields, "missing")
        elif op == "copy":
            v = attempt(log, v.copy)
        elif op == "wrong_nidx":
            r1 = attempt(log, v.get_data, *([0] * (len(v.shape) + 1)))
            r2 = attempt(log, v.set_data, rand_cell(rng, nprng, nf), *([0] * (len(v.shape) - 1)))
            if check:
                assert isinstance(r1, ValueError) and isinstance(r2, ValueError)
        elif op == "set_bad_cols":
            pos = tuple(rng.randrange(n) for n in v.shape)
            before = obs(v)
            r = attempt(log, v.set_data, rand_cell(rng, nprng, nf, bad=True), *pos)
            r3 = attempt(log, v.set_data, np.zeros(nf), *pos)
            if check:
                assert isinstance(r, ValueError) and isinstance(r3, ValueError) and obs(v) == before
        elif op == "set_bad_type":
            pos = tuple(rng.randrange(n) for n in v.shape)
            before = obs(v)
            r = attempt(log, v.set_data, [[0.0] * nf], *pos)
            if max(v.shape) > 1:  # a whole-axis slice of a (1, 1, ...) vector addresses one cell
                r2 = attempt(log, v.set_data, np.zeros((1, nf)), *([slice(None)] * len(v.shape)))
            else:
                r2 = TypeError()
            if check:
                assert isinstance(r, TypeError) and isinstance(r2, TypeError) and obs(v) == before

        log.append(("state", op, obs(v)))
        if check:
            check_invariants(v)
            # an independently created vector shares nothing with v
            assert obs(other)[5] == obs(Vector.from_shape(other.shape, num_fields=other.num_fields))[5]
            assert other.fields is not v.fields and other._data is not v._data
            assert other.metadata is not v.metadata
    return log


def deterministic_cases(log: list) -> None:
    """A few hand-written cases around the edited code (duplicates, empty selections, 3-D)."""
    v = Vector.from_shape((2, 3, 4), fields=["a", "b"])
    vals = [np.full((k % 3, 2), float(k)) for k in range(24)]
    attempt(log, v.set_data, vals, slice(None), slice(None), slice(None))
    for k, (pos, c) in enumerate(cells(v)):
        assert c is vals[k]  # row-major order
    r = attempt(log, v.get_data, [1, 0, 1], slice(None, None, -1), np.array([3, 3, 0]))
    want = [v._data[i][j][k] for i in (1, 0, 1) for j in (2, 1, 0) for k in (3, 3, 0)]
    assert len(r) == len(want) and all(a is b for a, b in zip(r, want))
    # duplicates: last writer wins
    dup = [np.full((1, 2), 100.0 + k) for k in range(2 * 2 * 3)]
    attempt(log, v.set_data, dup, [0, 0], slice(1, 3), [3, 0, 3])
    assert v.get_data(0, 1, 3) is dup[6 + 2] and v.get_data(0, 2, 0) is dup[6 + 3 + 1]
    # empty selections
    assert attempt(log, v.get_data, slice(0, 0), 0, 0) == []
    attempt(log, v.set_data, [], [], slice(None), 1)
    attempt(log, v.set_data, [np.zeros((1, 2))], [], slice(None), 1)
    # mismatch in the middle of a list: earlier cells are already written (both versions)
    bad = [np.ones((1, 2)), np.ones((1, 3)), np.ones((1, 2))]
    attempt(log, v.set_data, bad, 0, 0, slice(0, 3))
    log.append(obs(v))
    # add_fields with a cell of the wrong width (corrupted on purpose through the private attribute)
    w = Vector.from_shape((2,), fields=["a", "b"])
    w.set_data(np.ones((2, 2), dtype=np.int32), 0)
    w._data[1] = np.ones((1, 3))
    attempt(log, w.add_fields, ["c", "d"])
    log.append(obs(w))
    w2 = Vector.from_shape((2, 2), fields=["a"])
    w2.set_data(np.arange(3, dtype=np.int32).reshape(3, 1), 1, 0)
    attempt(log, w2.add_fields, ("b", "c"))
    attempt(log, w2.add_fields, [])
    attempt(log, w2.add_fields, "d")
    log.append(obs(w2))
    # set_flattened: ragged cursor bookkeeping, casting, wrong inputs
    u = Vector.from_shape((2, 2), fields=["x", "y"])
    u.set_data(np.zeros((2, 2)), 0, 0)
    u.set_data(np.zeros((0, 2)), 0, 1)
    u.set_data(np.zeros((3, 2), dtype=np.int32), 1, 1)
    attempt(log, u["y"].set_flattened, np.array([1.5, 2.5, 3.5, 4.5, 5.5]))
    assert u.get_data(0, 0)[:, 1].tolist() == [1.5, 2.5]
    assert u.get_data(1, 1)[:, 1].tolist() == [3, 4, 5]
    attempt(log, u["x"].set_flattened, [1, 2, 3, 4])
    attempt(log, u["x"].set_flattened, [[1, 2, 3, 4, 5]])
    attempt(log, u["x"].set_flattened, np.array(["a", "b", "c", "d", "e"]))
    attempt(log, u["x"].set_flattened, range(5))
    log.append(obs(u))


def run_all(check: bool) -> list:
    log: list = []
    deterministic_cases(log)
    for seed in range(250):
        log.append(run_history(seed, check))
    return log


def main() -> int:
    new_log = run_all(check=True)

    saved = (Vector.get_data, Vector.set_data, Vector.add_fields, _FieldView.set_flattened)
    Vector.get_data = _orig_get_data  # noqa: F821
    Vector.set_data = _orig_set_data  # noqa: F821
    Vector.add_fields = _orig_add_fields  # noqa: F821
    _FieldView.set_flattened = _orig_set_flattened  # noqa: F821
    try:
        old_log = run_all(check=True)
    finally:
        Vector.get_data, Vector.set_data, Vector.add_fields, _FieldView.set_flattened = saved

    assert len(old_log) == len(new_log)
    for k, (a, b) in enumerate(zip(old_log, new_log)):
        assert a == b, f"history {k}: installed functions differ from the embedded originals"
    n_events = sum(len(x) if isinstance(x, list) else 1 for x in new_log)
    print(f"OK: {n_events} recorded events identical between installed tree and embedded originals")
    return 0


if __name__ == "__main__":
    sys.exit(main())
