"""Demo for C14 patch 3: _recursive_load torch payload groups via a dispatch table."""
import contextlib
import gzip
import io
import json
import os
import shutil
import sys
import tempfile
from pathlib import Path
from typing import AbstractSet, Any, Literal, Sequence, Union, cast
from zipfile import ZipFile

import dill
import numpy as np
import torch
import zarr
from zarr.storage import LocalStore

import quantem.core.io.serialize as ser
from quantem.core.io.serialize import AutoSerialize, load

# ---------------------------------------------------------------------------
# VERBATIM copies of the ORIGINAL (pre-refactoring) functions, renamed orig_*
# ---------------------------------------------------------------------------

def orig_recursive_load(
    cls,
    group: zarr.Group,
    skip_names: AbstractSet[str] = frozenset(),
    skip_types: tuple[type, ...] = (),
) -> object:
    """
    Recursively reconstruct an AutoSerialize object from a Zarr group,
    honoring attribute/type skipping for selective deserialization.
    """
    # --- Load class identity and ensure version is compatible ---
    meta = cast(dict[str, Any], group.attrs["_autoserialize"])
    version = int(meta.get("version", 1))
    if version != 1:
        raise ValueError(f"Unsupported AutoSerialize version: {version}")
    module_name = cast(str, meta["class_module"])
    class_name = cast(str, meta["class_name"])
    module = __import__(module_name, fromlist=[class_name])
    cls_obj = getattr(module, class_name)
    obj = cls_obj.__new__(cls_obj)  # Avoid __init__ side effects

    # If attrs package is used, only allow whitelisted attribute names
    attrs_fields = getattr(cls_obj, "__attrs_attrs__", None)
    if attrs_fields is not None:
        attrs_item_names = [f.name for f in attrs_fields]
    else:
        attrs_item_names = []

    set_attrs = set()

    # --- Restore simple attributes ---
    for name, val in group.attrs.items():
        if (
            name in ("_autoserialize", "_autoserialize_skip_names", "_autoserialize_skip_types")
            or name.endswith(".torch_save")
            or name.endswith(".is_path")
        ):
            continue  # Skip metadata/flags
        if name in skip_names:
            continue
        if attrs_item_names and name not in attrs_item_names:
            continue

        # Convert string paths back to pathlib.Path objects if needed
        val = cls._convert_string_to_path_if_needed(val, group, name)

        setattr(obj, name, val)
        set_attrs.add(name)

    # --- Restore datasets (arrays/tensors/serialized objects) ---
    for ds in group.array_keys():
        if ds in skip_names:
            continue
        arr_np = AutoSerialize._read_array_np(group, ds)
        try:
            payload = gzip.decompress(arr_np.tobytes())
            v = dill.loads(payload)
        except Exception:
            v = arr_np
            if group.attrs.get(f"{ds}.torch_save", False):
                v = torch.from_numpy(v)
        if type(v) in skip_types:
            continue
        setattr(obj, ds, v)
        set_attrs.add(ds)

    # --- Restore subgroups (optimizers, modules, nested objects, containers) ---
    for name in group.group_keys():
        if name in skip_names:
            continue
        subgrp = AutoSerialize._get_group(group, name)

        # torch tensor group
        if subgrp.attrs.get("_torch_tensor"):
            data = AutoSerialize._read_array_np(subgrp, "tensor").tobytes()
            buf = io.BytesIO(data)
            tensor = torch.load(buf, map_location="cpu", weights_only=False)
            if type(tensor) in skip_types:
                continue
            setattr(obj, name, tensor)
            set_attrs.add(name)

        # torch optimizer group
        elif subgrp.attrs.get("_torch_optimizer"):
            data = AutoSerialize._read_array_np(subgrp, "optimizer").tobytes()
            buf = io.BytesIO(data)
            opt = torch.load(buf, map_location="cpu", weights_only=False)
            if type(opt) in skip_types:
                continue

            setattr(obj, name, opt)
            set_attrs.add(name)

        # torch scheduler group
        elif subgrp.attrs.get("_torch_scheduler"):
            data = AutoSerialize._read_array_np(subgrp, "scheduler").tobytes()
            buf = io.BytesIO(data)
            scheduler = torch.load(buf, map_location="cpu", weights_only=False)
            if type(scheduler) in skip_types:
                continue
            setattr(obj, name, scheduler)
            set_attrs.add(name)

        # torch logger group
        elif subgrp.attrs.get("_torch_logger"):
            # Recreate logger from saved metadata
            logger_class_name = subgrp.attrs.get("class_name", "SummaryWriter")

            if logger_class_name == "SummaryWriter":
                from torch.utils.tensorboard import SummaryWriter

                # Extract logger parameters with explicit type casting
                log_dir = subgrp.attrs.get("log_dir", None)

                comment = str(cast(Any, subgrp.attrs.get("comment", "")))
                max_queue = int(cast(Any, subgrp.attrs.get("max_queue", 10)))
                flush_secs = int(cast(Any, subgrp.attrs.get("flush_secs", 120)))
                filename_suffix = str(cast(Any, subgrp.attrs.get("filename_suffix", "")))

                # Create new logger instance
                logger = SummaryWriter(
                    log_dir=log_dir,
                    comment=comment,
                    max_queue=max_queue,
                    flush_secs=flush_secs,
                    filename_suffix=filename_suffix,
                )
            else:
                # For other logger types, create a basic instance or skip
                print(
                    f"Warning: Unknown logger type '{logger_class_name}', skipping logger restoration"
                )
                continue

            if type(logger) in skip_types:
                continue
            setattr(obj, name, logger)
            set_attrs.add(name)

        # python logger group
        elif subgrp.attrs.get("_python_logger"):
            # Recreate Python logger from saved metadata
            logger_class_name = subgrp.attrs.get("class_name", "Logger")

            if logger_class_name == "Logger":
                import logging

                # Extract logger parameters
                logger_name = cast(str, subgrp.attrs.get("logger_name", "quantem"))
                logger_level = int(cast(Any, subgrp.attrs.get("logger_level", logging.INFO)))

                # Create new logger instance
                logger = logging.getLogger(logger_name)
                logger.setLevel(logger_level)
            else:
                # For other logger types, create a basic instance or skip
                print(
                    f"Warning: Unknown Python logger type '{logger_class_name}', skipping logger restoration"
                )
                continue

            if type(logger) in skip_types:
                continue
            setattr(obj, name, logger)
            set_attrs.add(name)

        # torch module group
        elif subgrp.attrs.get("_torch_whole_module"):
            data = AutoSerialize._read_array_np(subgrp, "module").tobytes()
            buf = io.BytesIO(data)
            mod = torch.load(buf, map_location="cpu", weights_only=False)
            if type(mod) in skip_types:
                continue

            # Fix PyTorch module set attributes that might be corrupted
            if isinstance(mod, torch.nn.Module):
                cls._fix_torch_module_sets(mod)

            setattr(obj, name, mod)
            set_attrs.add(name)

        # nested AutoSerialize group
        elif "_autoserialize" in subgrp.attrs:
            m = cast(dict[str, Any], subgrp.attrs["_autoserialize"])
            submod_name = cast(str, m["class_module"])
            subcls_name = cast(str, m["class_name"])
            submod = __import__(submod_name, fromlist=[subcls_name])
            subcls = getattr(submod, subcls_name)
            if subcls in skip_types:
                continue
            val = subcls._recursive_load(subgrp, skip_names, skip_types)
            if type(val) in skip_types:
                continue

            setattr(obj, name, val)
            set_attrs.add(name)

        # containers (list, tuple, dict)
        elif subgrp.attrs.get("_container_type", None) is not None:
            val = cls._deserialize_container(cast(zarr.Group, subgrp))
            if type(val) in skip_types:
                continue
            setattr(obj, name, val)
            set_attrs.add(name)

        # NumPy random generator
        elif subgrp.attrs.get("_numpy_rng"):
            import numpy.random as npr

            # rng_type = subgrp.attrs.get("_rng_type", "Generator")
            bit_generator_type = subgrp.attrs.get("_bit_generator_type", "PCG64")
            # rng_state = subgrp.attrs["_rng_state"]

            # Create the appropriate bit generator
            if bit_generator_type == "PCG64":
                bit_gen = npr.PCG64()
            elif bit_generator_type == "MT19937":
                bit_gen = npr.MT19937()
            elif bit_generator_type == "Philox":
                bit_gen = npr.Philox()
            elif bit_generator_type == "SFC64":
                bit_gen = npr.SFC64()
            else:
                # Fallback to default
                bit_gen = npr.PCG64()

            # Create generator with fresh state
            rng = npr.Generator(bit_gen)
            # Note: We don't restore the exact state due to type compatibility issues
            # The generator will work fine with fresh state and can be re-seeded if needed

            setattr(obj, name, rng)
            set_attrs.add(name)

        # PyTorch generator (skipped during save)
        elif subgrp.attrs.get("_torch_rng_skipped"):
            # Create a new generator since we didn't save the state
            rng = torch.Generator()
            setattr(obj, name, rng)
            set_attrs.add(name)

        else:
            print(f"Unhandled group: {name} with attrs: {dict(subgrp.attrs)}")
            raise ValueError(f"Unknown subgroup structure: {subgrp.path}")

    # Remove attributes in skip_names that may have been set by __init__ (when using __new__)
    for name in skip_names:
        if hasattr(obj, name):
            delattr(obj, name)

    # attrs pattern: call post-init if defined
    if hasattr(obj, "__attrs_post_init__"):
        obj.__attrs_post_init__()

    # Fix PyTorch module set attributes after all loading is complete
    if isinstance(obj, torch.nn.Module):
        cls._fix_torch_module_sets(obj)

    # Also fix any nested PyTorch modules in the object's attributes
    # Use a more defensive approach to avoid triggering property accessors
    for attr_name in dir(obj):
        if not attr_name.startswith("_"):  # Skip private attributes
            try:
                # Check if it's a property first to avoid triggering accessors
                if hasattr(type(obj), attr_name):
                    attr_descriptor = getattr(type(obj), attr_name)
                    if hasattr(attr_descriptor, "__get__") and not hasattr(
                        attr_descriptor, "__set__"
                    ):
                        # This is a read-only property, skip it to avoid triggering computation
                        continue

                attr_value = getattr(obj, attr_name)
                if isinstance(attr_value, torch.nn.Module):
                    cls._fix_torch_module_sets(attr_value)
            except (AttributeError, RuntimeError, ValueError, KeyError):
                # Skip attributes that can't be accessed or cause other errors
                pass

    return obj


# ---------------------------------------------------------------------------
# Shared harness: object graph, snapshots, pruning, tree comparison
# ---------------------------------------------------------------------------


class Leaf(AutoSerialize):
    def __init__(self, seed):
        rng = np.random.default_rng(seed)
        self.data = rng.normal(size=(3, 5))  # non-square float64
        self.label = f"leaf{seed}"
        self.count = seed
        self.flag = bool(seed % 2)
        self.weights = torch.arange(7, dtype=torch.float32) * seed
        self.shape_info = (3, 5)
        self.meta = {"a": 1, "b": "x"}


class Mid(AutoSerialize):
    def __init__(self, seed):
        self.leaf = Leaf(seed + 1)
        self.data = np.arange(4, dtype=np.int16).reshape(1, 4)
        self.label = "mid"
        self.ratio = 0.25
        self.empty = np.zeros((0, 3))


class Top(AutoSerialize):
    def __init__(self):
        self.mid = Mid(10)
        self.leaf = Leaf(1)
        self.data = (np.arange(6).reshape(2, 3, 1) * (1 + 2j)).astype(np.complex64)
        self.label = "top"
        self.count = 3
        self.where = Path("some") / "where"
        self.tags = ["a", "b", 3]
        self.none_val = None
        self.tensor = torch.ones(2, 3, dtype=torch.float64)


def snap(v):
    """Canonical, comparable snapshot of a loaded value (recursive)."""
    if AutoSerialize._is_autoserialize_instance(v):
        return ("obj", type(v).__module__, type(v).__qualname__,
                {k: snap(x) for k, x in sorted(vars(v).items())})
    if isinstance(v, torch.Tensor):
        a = v.detach().cpu().numpy()
        return ("tensor", str(v.dtype), tuple(v.shape), bool(v.requires_grad), a.tobytes())
    if isinstance(v, np.ndarray):
        return ("ndarray", str(v.dtype), tuple(v.shape), np.ascontiguousarray(v).tobytes())
    if isinstance(v, np.generic):
        return ("npscalar", str(v.dtype), v.item())
    if isinstance(v, (list, tuple)):
        return (type(v).__name__, [snap(x) for x in v])
    if isinstance(v, set):
        return ("set", sorted(repr(snap(x)) for x in v))
    if isinstance(v, dict):
        return ("dict", {str(k): snap(x) for k, x in sorted(v.items(), key=lambda kv: str(kv[0]))})
    if isinstance(v, Path):
        return ("path", str(v))
    if isinstance(v, (int, float, str, bool, type(None))):
        return (type(v).__name__, v)
    if isinstance(v, torch.optim.Optimizer):
        return ("optim", type(v).__name__, repr(v.state_dict()["param_groups"]),
                [snap(p) for g in v.param_groups for p in g["params"]])
    if hasattr(v, "step") and hasattr(v, "get_last_lr"):
        return ("sched", type(v).__name__, repr(sorted(
            (k, repr(x)) for k, x in v.state_dict().items())))
    if isinstance(v, torch.nn.Module):
        return ("module", type(v).__name__,
                {k: snap(t) for k, t in v.state_dict().items()})
    return ("other", type(v).__name__, repr(v))


def prune(obj, names=(), types=()):
    """Expected snapshot: drop skipped names / instances of skipped types at every object level."""
    assert AutoSerialize._is_autoserialize_instance(obj)
    out = {}
    for k, x in sorted(vars(obj).items()):
        if k in names or (types and isinstance(x, tuple(types))):
            continue
        if AutoSerialize._is_autoserialize_instance(x):
            out[k] = prune(x, names, types)
        else:
            out[k] = snap(x)
    return ("obj", type(obj).__module__, type(obj).__qualname__, out)


def all_names(s, acc=None):
    """All attribute names appearing at any object level of snapshot s."""
    acc = set() if acc is None else acc
    if isinstance(s, tuple) and s and s[0] == "obj":
        for k, x in s[3].items():
            acc.add(k)
            all_names(x, acc)
    return acc


def read_tree(path):
    """Relative file name -> bytes for a saved dir store or a zip archive."""
    path = str(path)
    out = {}
    if os.path.isdir(path):
        for dp, _, fns in os.walk(path):
            for fn in fns:
                full = os.path.join(dp, fn)
                with open(full, "rb") as fh:
                    out[os.path.relpath(full, path)] = fh.read()
    else:
        with ZipFile(path, "r") as zf:
            for n in zf.namelist():
                out[n] = zf.read(n)
    return out


def _canon_file(name, data):
    if os.path.basename(name) == "zarr.json":
        d = json.loads(data)
        att = d.get("attributes", {})
        if "_autoserialize_skip_names" in att:
            att["_autoserialize_skip_names"] = sorted(att["_autoserialize_skip_names"])
        return json.dumps(d, sort_keys=False)
    return data


def assert_same_tree(p1, p2, what=""):
    t1, t2 = read_tree(p1), read_tree(p2)
    assert sorted(t1) == sorted(t2), f"{what}: file sets differ: {sorted(set(t1) ^ set(t2))}"
    for n in t1:
        assert _canon_file(n, t1[n]) == _canon_file(n, t2[n]), f"{what}: content differs in {n}"


def root_attrs(path):
    """Root group attributes of a saved dir store or zip archive."""
    t = read_tree(path)
    return json.loads(t["zarr.json"])["attributes"]


def quiet(fn, *a, **k):
    """Call fn with stdout captured; returns (result, captured_text)."""
    buf = io.StringIO()
    with contextlib.redirect_stdout(buf):
        r = fn(*a, **k)
    return r, buf.getvalue()


# ---------------------------------------------------------------------------
# Demo body (patch 3)
# ---------------------------------------------------------------------------

NEW_RECURSIVE_LOAD = AutoSerialize.__dict__["_recursive_load"]  # classmethod object


@contextlib.contextmanager
def original_recursive_load():
    """Temporarily install the verbatim ORIGINAL _recursive_load on AutoSerialize."""
    AutoSerialize._recursive_load = classmethod(orig_recursive_load)
    try:
        yield
    finally:
        AutoSerialize._recursive_load = NEW_RECURSIVE_LOAD


def old_load(path, **k):
    with original_recursive_load():
        return load(path, **k)


class Model(AutoSerialize):
    def __init__(self, seed):
        torch.manual_seed(seed)
        self.net = torch.nn.Linear(3, 2)
        self.param = torch.nn.Parameter(torch.randn(2, 3))
        self.optimizer = torch.optim.Adam([self.param], lr=0.01 * seed)
        self.scheduler = torch.optim.lr_scheduler.StepLR(self.optimizer, step_size=3, gamma=0.5)
        self.buffer = torch.arange(5, dtype=torch.int32).reshape(5, 1)
        self.lr = 0.01 * seed
        self.label = f"model{seed}"
        # take a few optimisation steps so the optimizer / scheduler carry state
        for _ in range(4):
            self.optimizer.zero_grad()
            (self.param**2).sum().backward()
            self.optimizer.step()
            self.scheduler.step()


class Trainer(AutoSerialize):
    def __init__(self):
        self.model = Model(1)
        self.aux = Model(2)
        self.leaf = Leaf(4)
        self.buffer = torch.zeros(1, 4, dtype=torch.complex64)
        self.optimizer = torch.optim.SGD([torch.nn.Parameter(torch.ones(3))], lr=0.1)
        self.label = "trainer"
        self.tags = ["x", "y", 1]
        self.history = [0.5, 0.25, 0.125]
        self.steps = 4


NAME_SUBSETS = [
    "optimizer",
    ["scheduler", "label"],
    ["param", "buffer", "nonexistent"],
    ["aux", "optimizer", "net", "tags"],
    ("model", "leaf", "history", "steps"),
]
SAVE_TYPE_LISTS = [
    [torch.optim.Optimizer],
    [torch.Tensor],
    [torch.optim.lr_scheduler.LRScheduler, torch.nn.Module, "label"],
    Model,
]
# exact-type matching applies at load time
LOAD_TYPE_LISTS = [
    [torch.Tensor],
    [torch.nn.Parameter],
    [torch.optim.Adam],
    [torch.optim.SGD, torch.optim.lr_scheduler.StepLR, "buffer"],
    [torch.optim.Optimizer],  # base class: nothing has exactly this type
    [Model, torch.nn.Linear, list],
]
EXTS = (".zip", "")


def as_lists(skip):
    if isinstance(skip, (str, type)):
        skip = [skip]
    skip = list(skip)
    return [s for s in skip if isinstance(s, str)], [s for s in skip if isinstance(s, type)]


def prune_exact(obj, names=(), types=()):
    """Like prune() but with exact-type matching (the load-time rule)."""
    out = {}
    for k, x in sorted(vars(obj).items()):
        if k in names or type(x) in tuple(types):
            continue
        if AutoSerialize._is_autoserialize_instance(x):
            out[k] = prune_exact(x, names, types)
        else:
            out[k] = snap(x)
    return ("obj", type(obj).__module__, type(obj).__qualname__, out)


def type_tree(obj):
    return {
        k: type_tree(x) if AutoSerialize._is_autoserialize_instance(x) else type(x).__name__
        for k, x in sorted(vars(obj).items())
    }


def outcome(fn, *a, **k):
    """('ok', snapshot+types) or ('err', exception type, message) of a load call."""
    try:
        r, _ = quiet(fn, *a, **k)
    except Exception as e:  # noqa: BLE001
        return ("err", type(e).__name__, str(e))
    return ("ok", snap(r), type_tree(r))


def main():
    trainer = Trainer()
    with tempfile.TemporaryDirectory() as td:
        td = Path(td)
        n = 0

        def fresh(ext):
            nonlocal n
            n += 1
            return td / f"f{n}{ext}"

        p_full, full = {}, {}
        for ext in EXTS:
            p_full[ext] = fresh(ext)
            trainer.save(p_full[ext])
            full[ext] = load(p_full[ext])
            assert snap(full[ext]) == prune(full[ext])
            assert outcome(old_load, p_full[ext]) == outcome(load, p_full[ext])
        assert snap(full[".zip"]) == snap(full[""])
        tt = type_tree(full[""])
        assert tt["model"]["param"] == "Parameter" and tt["model"]["buffer"] == "Tensor"
        assert tt["model"]["optimizer"] == "Adam" and tt["optimizer"] == "SGD"
        assert tt["model"]["scheduler"] == "StepLR" and tt["aux"]["net"] == "Linear"
        m = full[""].model
        assert m.param.requires_grad and torch.equal(m.param.detach(), trainer.model.param.detach())
        assert m.scheduler.last_epoch == 4 and m.scheduler.get_last_lr() == [0.005]
        assert m.optimizer.state_dict()["state"][0]["step"] == 4
        assert {"optimizer", "scheduler", "param", "buffer", "net"} <= all_names(snap(full[""]))

        # ---- names: save-time == load-time == expected, old loader == new loader ----
        for i, S in enumerate(NAME_SUBSETS):
            names, _ = as_lists(S)
            ext = EXTS[i % 2]
            expected = prune(full[ext], names=set(names))
            p = fresh(ext)
            trainer.save(p, skip=S)
            got_save = snap(load(p))
            got_load = snap(load(p_full[ext], skip=S))
            assert got_save == expected, f"save-time name skip {S!r}"
            assert got_load == expected, f"load-time name skip {S!r}"
            assert not (all_names(got_load) & set(names))
            assert outcome(old_load, p) == outcome(load, p)
            assert outcome(old_load, p_full[ext], skip=S) == outcome(load, p_full[ext], skip=S)
            S2 = NAME_SUBSETS[(i + 2) % len(NAME_SUBSETS)]
            names2, _ = as_lists(S2)
            both = outcome(load, p, skip=S2)
            assert both[1] == prune(full[ext], names=set(names) | set(names2))
            assert both == outcome(old_load, p, skip=S2)

        # ---- types at save time (isinstance), recorded in the file, honoured by later loads ----
        for i, T in enumerate(SAVE_TYPE_LISTS):
            names, types = as_lists(T)
            ext = EXTS[(i + 1) % 2]
            expected = prune(full[ext], names=set(names), types=types)
            p = fresh(ext)
            trainer.save(p, skip=T)
            new = outcome(load, p)
            assert new[1] == expected, f"save-time type skip {T!r}"
            assert new == outcome(old_load, p)

        # ---- types at load time (exact type), old loader == new loader ----
        for i, T in enumerate(LOAD_TYPE_LISTS):
            names, types = as_lists(T)
            ext = EXTS[i % 2]
            new = outcome(load, p_full[ext], skip=T)
            assert new[0] == "ok"
            assert new[1] == prune_exact(full[ext], names=set(names), types=types), f"{T!r}"
            assert new == outcome(old_load, p_full[ext], skip=T)

        # ---- hand-edited stores: marker precedence, falsy markers, missing payloads ----
        def edited(edit):
            p = fresh("")
            trainer.save(p, skip=["aux", "leaf"])
            root = zarr.open_group(str(p), mode="r+")
            edit(root)
            return p

        def two_markers(root):
            # tensor marker wins over optimizer marker (checked first)
            root["buffer"].attrs["_torch_optimizer"] = True
            # falsy tensor marker: falls through to the optimizer payload
            root["optimizer"].attrs["_torch_tensor"] = False
            root["model"]["scheduler"].attrs["_torch_tensor"] = 0
            root["model"]["scheduler"].attrs["_torch_optimizer"] = ""

        p = edited(two_markers)
        new = outcome(load, p)
        assert new[0] == "ok" and new == outcome(old_load, p)
        assert new[2]["buffer"] == "Tensor" and new[2]["optimizer"] == "SGD"
        assert new[2]["model"]["scheduler"] == "StepLR"
        assert new[1] == prune(full[""], names={"aux", "leaf"})

        def scheduler_marker_without_payload(root):
            root["tags"].attrs["_torch_scheduler"] = True

        p = edited(scheduler_marker_without_payload)
        new = outcome(load, p)
        assert new[0] == "err" and new == outcome(old_load, p), new
        # ... and skipping the damaged attribute by name makes the file loadable again
        new = outcome(load, p, skip="tags")
        assert new[0] == "ok" and new == outcome(old_load, p, skip="tags")
        assert new[1] == prune(full[""], names={"aux", "leaf", "tags"})

        def optimizer_marker_on_module(root):
            # optimizer marker is checked before the whole-module marker
            root["model"]["net"].attrs["_torch_optimizer"] = True

        p = edited(optimizer_marker_on_module)
        new = outcome(load, p)
        assert new[0] == "err" and new == outcome(old_load, p), new

        def unknown_group(root):
            del root["model"]["net"].attrs["_torch_whole_module"]

        p = edited(unknown_group)
        new = outcome(load, p)
        assert new[0] == "err" and new[1] == "ValueError" and new == outcome(old_load, p), new
        new = outcome(load, p, skip=["net"])
        assert new[0] == "ok" and new == outcome(old_load, p, skip=["net"])
        assert new[1] == prune(full[""], names={"aux", "leaf", "net"})

    print("PASS")


if __name__ == "__main__":
    main()
