"""Demo for C06 patch 2: Dataset.fourier_resample centred crop / zero-pad of the shifted spectrum.

Checks, on a spread of shapes (odd/even, 1..4-D), dtypes, axis subsets and output shapes:
  * Dataset.fourier_resample agrees bit-for-bit with a verbatim copy of the ORIGINAL
    implementation (array + dtype, sampling, origin, exceptions, in-place and out-of-place);
  * the property, against an independent explicit-DFT-matrix oracle in complex128:
    mean preserved, physical centre and field-of-view extent preserved, linearity,
    identity for unchanged shape, up->down round trip exact for signals without Nyquist content.
"""

import itertools

import numpy as np

from quantem.core.datastructures.dataset import Dataset


# --------------------------------------------------------------------------------------
# verbatim copy of the ORIGINAL Dataset.fourier_resample body (free function taking `self`)
# --------------------------------------------------------------------------------------
def fourier_resample_original(self, out_shape=None, factors=None, axes=None, modify_in_place=False):
    if axes is None:
        axes = tuple(range(self.ndim))
    elif isinstance(axes, int | float):
        axes = (int(axes),)
    else:
        axes = tuple(int(a0) for a0 in axes)

    if (out_shape is None) == (factors is None):
        raise ValueError("Specify exactly one of out_shape or factors.")

    # Resolve out_shape & factors
    if factors is not None:
        if isinstance(factors, int | float):
            factors = (float(factors),) * len(axes)
        else:
            factors = tuple(float(f) for f in factors)
            if len(factors) != len(axes):
                raise ValueError("factors length must match number of axes.")
        out_shape = tuple(max(1, int(round(self.shape[a1] * f))) for a1, f in zip(axes, factors))
    else:
        assert out_shape is not None  # Guaranteed by check above
        if len(out_shape) != len(axes):
            raise ValueError("out_shape length must match number of axes.")
        out_shape = tuple(int(nl) for nl in out_shape)
        factors = tuple(out_len / self.shape[a2] for a2, out_len in zip(axes, out_shape))

    if any(nl < 1 for nl in out_shape):
        raise ValueError("All output lengths must be >= 1.")

    def _shift_center_index(n: int) -> int:
        # index of DC after fftshift: n//2 for even, (n-1)//2 for odd
        return n // 2 if (n % 2 == 0) else (n - 1) // 2

    # Forward FFT (default normalization: forward unscaled, inverse 1/N)
    F = np.fft.fftn(self.array, axes=axes)
    F = np.fft.fftshift(F, axes=axes)

    # Center-aligned crop/pad per axis (so DC stays centered)
    axis_to_outlen = dict(zip(axes, out_shape))
    slices: list[slice] = []
    pad_specs: list[tuple[int, int]] = []
    for a3 in range(self.ndim):
        if a3 in axis_to_outlen:
            old_len = self.shape[a3]
            new_len = axis_to_outlen[a3]
            oc = _shift_center_index(old_len)
            nc = _shift_center_index(new_len)

            if new_len < old_len:
                start = oc - nc
                end = start + new_len
                slices.append(slice(start, end))
                pad_specs.append((0, 0))
            elif new_len > old_len:
                slices.append(slice(None))
                before = nc - oc
                after = new_len - old_len - before
                pad_specs.append((before, after))
            else:
                slices.append(slice(None))
                pad_specs.append((0, 0))
        else:
            slices.append(slice(None))
            pad_specs.append((0, 0))

    F_rs = F[tuple(slices)]
    if any(pw != (0, 0) for pw in pad_specs):
        F_rs = np.pad(F_rs, pad_specs, mode="constant")

    # Inverse FFT
    F_rs = np.fft.ifftshift(F_rs, axes=axes)
    array_resampled = np.fft.ifftn(F_rs, axes=axes)

    if np.isrealobj(self.array):
        array_resampled = array_resampled.real

    N_in = int(np.prod([self.shape[a4] for a4 in axes]))
    N_out = int(np.prod([axis_to_outlen[a5] for a5 in axes]))
    if N_in > 0 and N_out > 0:
        array_resampled *= N_out / N_in

    # Metadata (ensure float arrays to avoid truncation)
    new_sampling = self.sampling.astype(float).copy()
    for a6, out_len in zip(axes, out_shape):
        fac_actual = out_len / self.shape[a6]
        new_sampling[a6] = new_sampling[a6] / fac_actual

    new_origin = self.origin.astype(float).copy()
    for a7, out_len in zip(axes, out_shape):
        old_len = self.shape[a7]
        old_center_idx = (old_len - 1) / 2.0
        new_center_idx = (out_len - 1) / 2.0
        old_sampling = self.sampling[a7]
        new_origin[a7] = (
            self.origin[a7] + old_center_idx * old_sampling - new_center_idx * new_sampling[a7]
        )

    if modify_in_place:
        self._array = array_resampled
        self._sampling = new_sampling
        self._origin = new_origin
        return None

    ds = self.copy()
    ds.array = array_resampled
    ds.sampling = new_sampling
    ds.origin = new_origin
    return ds


# --------------------------------------------------------------------------------------
rng = np.random.default_rng(20240606)


def make_array(shape, dtype):
    dtype = np.dtype(dtype)
    if dtype.kind in "iu":
        return rng.integers(0, 50, size=shape).astype(dtype)
    if dtype.kind == "c":
        return (rng.normal(size=shape) + 1j * rng.normal(size=shape)).astype(dtype)
    return rng.normal(size=shape).astype(dtype)


def wrap(arr, origin=None, sampling=None):
    nd = arr.ndim
    return Dataset.from_array(
        arr,
        name="demo",
        origin=rng.normal(size=nd) * 3.0 if origin is None else origin,
        sampling=rng.uniform(0.1, 2.5, size=nd) if sampling is None else sampling,
        units=["nm"] * nd,
    )


def same_dataset(a, b):
    assert type(a) is type(b)
    assert a.array.dtype == b.array.dtype, (a.array.dtype, b.array.dtype)
    assert a.array.shape == b.array.shape, (a.array.shape, b.array.shape)
    assert np.array_equal(a.array, b.array)  # bit-for-bit: same operations in the same order
    assert a.sampling.dtype == b.sampling.dtype and np.array_equal(a.sampling, b.sampling)
    assert a.origin.dtype == b.origin.dtype and np.array_equal(a.origin, b.origin)
    assert a.name == b.name and a.units == b.units


def run(fn, *args, **kwargs):
    try:
        return ("ok", fn(*args, **kwargs))
    except Exception as exc:  # noqa: BLE001 - exceptions are compared
        return ("err", (type(exc), str(exc)))


def compare_old_new(ds, **kw):
    kind_new, res_new = run(ds.fourier_resample, **kw)
    kind_old, res_old = run(fourier_resample_original, ds, **kw)
    assert kind_new == kind_old, (kw, kind_new, res_new, kind_old, res_old)
    if kind_new == "err":
        assert res_new == res_old, (res_new, res_old)
    else:
        same_dataset(res_new, res_old)

    d1, d2 = ds.copy(), ds.copy()
    k1, r1 = run(d1.fourier_resample, modify_in_place=True, **kw)
    k2, r2 = run(fourier_resample_original, d2, modify_in_place=True, **kw)
    assert k1 == k2 == kind_new
    if k1 == "err":
        assert r1 == r2
    else:
        assert r1 is None and r2 is None
        assert np.array_equal(d1.array, res_new.array)
    same_dataset(d1, d2)
    return kind_new, res_new


def axis_operator(n_in, n_out):
    """Explicit band-matched DFT resampling operator (n_out x n_in), complex128."""
    f_in = np.arange(n_in) - n_in // 2  # frequencies present after fftshift
    f_out = np.arange(n_out) - n_out // 2
    common = np.intersect1d(f_in, f_out)
    x = np.arange(n_in)
    m = np.arange(n_out)
    D = np.exp(-2j * np.pi * np.outer(common, x) / n_in)  # forward DFT rows for common freqs
    E = np.exp(2j * np.pi * np.outer(m, common) / n_out)  # inverse DFT columns
    return (E @ D) / n_in


def oracle(arr, axes, out_shape):
    res = arr.astype(np.complex128)
    for ax, n_out in zip(axes, out_shape):
        op = axis_operator(arr.shape[ax], n_out)
        res = np.moveaxis(np.tensordot(op, res, axes=([1], [ax])), 0, ax)
    return res if np.iscomplexobj(arr) else res.real


def property_check(ds, out, axes, out_shape):
    tol = 1e-4 if ds.array.dtype in (np.float32, np.complex64) else 1e-9
    exp_shape = list(ds.shape)
    for ax, n in zip(axes, out_shape):
        exp_shape[ax] = n
    assert out.shape == tuple(exp_shape)
    assert np.iscomplexobj(out.array) == np.iscomplexobj(ds.array)
    ref = oracle(ds.array, axes, out_shape)
    scale = max(1.0, float(np.abs(ref).max()))
    assert np.allclose(out.array, ref, rtol=0, atol=tol * scale), np.abs(out.array - ref).max()
    # mean over the resampled axes is preserved
    assert np.allclose(out.array.mean(axis=tuple(axes)), ds.array.mean(axis=tuple(axes)), rtol=0, atol=tol * scale)
    # centre and extent of the field of view
    for ax in range(ds.ndim):
        n0, n1 = ds.shape[ax], out.shape[ax]
        assert np.isclose(n1 * out.sampling[ax], n0 * ds.sampling[ax], rtol=1e-12)
        c0 = ds.origin[ax] + 0.5 * (n0 - 1) * ds.sampling[ax]
        c1 = out.origin[ax] + 0.5 * (n1 - 1) * out.sampling[ax]
        assert np.isclose(c0, c1, rtol=1e-10, atol=1e-10)
        if ax not in axes:
            assert out.sampling[ax] == ds.sampling[ax] and out.origin[ax] == ds.origin[ax]


def remove_nyquist(arr):
    F = np.fft.fftn(arr)
    for ax, n in enumerate(arr.shape):
        if n % 2 == 0:
            idx = [slice(None)] * arr.ndim
            idx[ax] = n // 2
            F[tuple(idx)] = 0
    res = np.fft.ifftn(F)
    return res if np.iscomplexobj(arr) else res.real


def axis_subsets(nd):
    for r in range(1, nd + 1):
        yield from itertools.combinations(range(nd), r)


n_cases = 0
shapes = [(1,), (2,), (7,), (8,), (5, 9), (6, 4), (1, 8), (7, 6), (3, 5, 4), (4, 3, 2, 5)]
dtypes = [np.int32, np.float32, np.float64, np.complex64, np.complex128]
for shape in shapes:
    nd = len(shape)
    for dtype in dtypes:
        arr = make_array(shape, dtype)
        ds = wrap(arr)
        for axes in axis_subsets(nd):
            candidates = []
            # exhaustive odd/even up/down/equal neighbourhood for 1 and 2 axes, random otherwise
            if len(axes) <= 2 and nd <= 2:
                per_axis = [sorted({1, 2, max(1, shape[a] - 3), max(1, shape[a] - 1), shape[a],
                                    shape[a] + 1, shape[a] + 2, 2 * shape[a], 2 * shape[a] + 1})
                            for a in axes]
                candidates = list(itertools.product(*per_axis))
            else:
                for _ in range(4):
                    candidates.append(tuple(int(rng.integers(1, 2 * shape[a] + 3)) for a in axes))
                candidates.append(tuple(shape[a] for a in axes))
            for out_shape in candidates:
                # permuted axes order every other case
                if n_cases % 2 and len(axes) > 1:
                    perm = rng.permutation(len(axes))
                    ax_p = tuple(axes[i] for i in perm)
                    os_p = tuple(out_shape[i] for i in perm)
                else:
                    ax_p, os_p = axes, out_shape
                kind, out = compare_old_new(ds, out_shape=os_p, axes=ax_p)
                assert kind == "ok"
                property_check(ds, out, ax_p, os_p)
                if tuple(os_p) == tuple(shape[a] for a in ax_p):
                    # identity when the shape is unchanged
                    assert np.allclose(out.array, arr, rtol=0, atol=1e-5)
                    assert np.allclose(out.sampling, ds.sampling) and np.allclose(out.origin, ds.origin)
                n_cases += 1
        # factors interface
        for fac in (0.5, 2, 1.0, 1.5, 0.01, (0.75,) * nd, tuple(1.0 + 0.5 * i for i in range(nd))):
            kind, out = compare_old_new(ds, factors=fac)
            assert kind == "ok"
            facs = (float(fac),) * nd if isinstance(fac, int | float) else fac
            exp = tuple(max(1, int(round(n * f))) for n, f in zip(shape, facs))
            property_check(ds, out, tuple(range(nd)), exp)
            n_cases += 1

# linearity + band-limited round trip (float64 / complex128)
for shape in [(7,), (8,), (5, 9), (6, 4), (6, 7), (3, 4, 5)]:
    nd = len(shape)
    for dtype in (np.float64, np.complex128):
        a, b = make_array(shape, dtype), make_array(shape, dtype)
        o, s = rng.normal(size=nd), rng.uniform(0.5, 2.0, size=nd)
        for out_shape in [tuple(n + 3 for n in shape), tuple(max(1, n - 2) for n in shape),
                          tuple(2 * n for n in shape), tuple(2 * n + 1 for n in shape)]:
            ra = wrap(a, o, s).fourier_resample(out_shape=out_shape)
            rb = wrap(b, o, s).fourier_resample(out_shape=out_shape)
            rc = wrap(2.5 * a - 0.75 * b, o, s).fourier_resample(out_shape=out_shape)
            assert np.allclose(rc.array, 2.5 * ra.array - 0.75 * rb.array, rtol=0, atol=1e-10)
            assert np.array_equal(ra.sampling, rc.sampling) and np.array_equal(ra.origin, rc.origin)
            n_cases += 1
        bl = remove_nyquist(a)
        ds_bl = wrap(bl, o, s)
        for up in [tuple(n + 1 for n in shape), tuple(n + 2 for n in shape),
                   tuple(2 * n for n in shape), tuple(3 * n + 1 for n in shape)]:
            _, upd = compare_old_new(ds_bl, out_shape=up)
            _, back = compare_old_new(upd, out_shape=shape)
            assert np.allclose(back.array, bl, rtol=0, atol=1e-10), np.abs(back.array - bl).max()
            assert np.allclose(back.sampling, s, rtol=1e-12) and np.allclose(back.origin, o, atol=1e-10)
            n_cases += 1

# odd argument forms and failures: old and new must agree in every detail
ds3 = wrap(make_array((5, 6, 7), np.float64))
edge_calls = [
    dict(out_shape=(4,), axes=1),
    dict(out_shape=(9,), axes=2.0),
    dict(out_shape=[3, 12], axes=[2, 0]),
    dict(out_shape=(np.int64(8), 3.0), axes=(0, 1)),
    dict(out_shape=(4, 8), axes=(0, 0)),  # duplicate axis
    dict(out_shape=(4,), axes=(-1,)),  # negative axis
    dict(out_shape=(9, 3), axes=(-1, 0)),
    dict(out_shape=(), axes=()),  # no axes
    dict(out_shape=(4,), axes=(5,)),  # out-of-range axis
    dict(out_shape=(4, 4), axes=(0,)),  # length mismatch
    dict(out_shape=(0, 4, 4)),  # non-positive
    dict(out_shape=(-3, 4, 4)),
    dict(factors=(0.5, 2.0)),  # factors length mismatch
    dict(factors=0.5, axes=(1,)),
    dict(factors=(2, 0.5), axes=(2, 0)),
    dict(),  # neither
    dict(out_shape=(5, 6, 7), factors=1.0),  # both
]
for kw in edge_calls:
    compare_old_new(ds3, **kw)
    n_cases += 1

print(f"C06/2 demo PASS ({n_cases} cases)")
