"""Demo for C01 / patch 3: AutoSerialize._deserialize_container lists the children of a container
group (array_keys / group_keys) once per call instead of once per item and per lookup.

Checks
 (a) old-vs-new: a verbatim copy of the ORIGINAL _deserialize_container is temporarily installed
     on AutoSerialize (so that nested containers recurse through it as well); stores holding
     deep / wide / mixed containers (lists, tuples, sets, dicts, > 10 items, empty ones, numeric
     fast path, arrays, tensors, modules, paths, None, nested AutoSerialize objects, loggers) are
     loaded with the original and with the tree under test and must give strictly equal graphs;
 (b) failure injection: hand-corrupted stores (missing index, unknown subgroup structure,
     unknown container type, missing container type, stale fast-path marker) make both versions
     raise the same exception / take the same fallback;
 (c) the round-trip property itself on both stores / several compression levels / str and Path
     targets, including the save->load->save->load fixed point.
Exits 0 on success.
"""

import io
import logging
import os
import sys
import tempfile
from pathlib import Path
from typing import Any, Sequence, cast

import numpy as np
import torch
import zarr
from zarr.storage import LocalStore

from quantem.core.io.serialize import AutoSerialize, load


# --------------------------------------------------------------------------------------------
# verbatim copy of the ORIGINAL AutoSerialize._deserialize_container (tree before the patch)
# --------------------------------------------------------------------------------------------
def orig_deserialize_container(cls, group: zarr.Group):
    """
    Reconstructs a list, tuple, or dict container from a Zarr group.

    Supports nested containers, torch module containers, and automatic conversion
    of torch tensors and special objects. Container structure and type info are
    encoded in Zarr group attributes.
    """
    ctype = group.attrs.get("_container_type")
    if ctype is None:
        raise ValueError(f"Missing _container_type in group: {group.path}")

    torch_iterable_type = group.attrs.get("_torch_iterable_module_type")

    # Helper to handle optional torch tensor restoration
    def maybe_tensor(group, key):
        arr = AutoSerialize._read_array_np(group, key)
        return torch.from_numpy(arr) if group.attrs.get(f"{key}.torch_save") else arr

    if ctype in ("list", "tuple"):
        # Determine maximum index to reconstruct order and size
        # Fast-path: ndarray-encoded homogeneous sequence
        if (
            group.attrs.get("_sequence_encoding") == "ndarray"
            and "values" in group.array_keys()
        ):
            arr = AutoSerialize._read_array_np(group, "values")
            seq = arr.tolist()
            items = seq
        else:
            length = (
                max(
                    (
                        int(k)
                        for k in list(group.attrs)
                        + list(group.array_keys())
                        + list(group.group_keys())
                        if k.isdigit()
                    ),
                    default=-1,
                )
                + 1
            )
            items = []
            for i in range(length):
                key = str(i)
                if key in group.attrs:
                    val = group.attrs[key]
                    # Convert string paths back to Path objects if needed
                    val = cls._convert_string_to_path_if_needed(val, group, key)
                    items.append(val)
                elif key in group.array_keys():
                    items.append(maybe_tensor(group, key))
                elif key in group.group_keys():
                    subgroup = cast(zarr.Group, group[key])
                    # Handle recursive containers
                    if "_container_type" in subgroup.attrs:
                        items.append(cls._deserialize_container(subgroup))
                    # Restore nested AutoSerialize objects
                    elif "_autoserialize" in subgroup.attrs:
                        meta = cast(dict[str, Any], subgroup.attrs["_autoserialize"])
                        submod = __import__(
                            cast(str, meta["class_module"]),
                            fromlist=[cast(str, meta["class_name"])],
                        )
                        subcls = getattr(submod, cast(str, meta["class_name"]))
                        items.append(subcls._recursive_load(subgroup))
                    # Restore nested torch modules
                    elif subgroup.attrs.get("_torch_whole_module"):
                        module_arr = cast(zarr.Array, subgroup["module"])
                        data = cast(np.ndarray, module_arr[:]).tobytes()
                        buf = io.BytesIO(data)
                        # For containers, load to CPU - they'll be moved to the right device when attached to the main object
                        mod = torch.load(buf, map_location="cpu", weights_only=False)
                        items.append(mod)
                    elif subgroup.attrs.get("_torch_tensor"):
                        # Handle new tensor format in containers
                        data = AutoSerialize._read_array_np(subgroup, "tensor").tobytes()
                        buf = io.BytesIO(data)
                        tensor = torch.load(buf, map_location="cpu", weights_only=False)
                        items.append(tensor)
                    elif subgroup.attrs.get("_torch_logger"):
                        # Handle torch logger in containers
                        logger_class_name = subgroup.attrs.get("class_name", "SummaryWriter")

                        if logger_class_name == "SummaryWriter":
                            from torch.utils.tensorboard import SummaryWriter

                            log_dir = subgroup.attrs.get("log_dir", None)
                            comment = str(cast(Any, subgroup.attrs.get("comment", "")))
                            max_queue = int(cast(Any, subgroup.attrs.get("max_queue", 10)))
                            flush_secs = int(cast(Any, subgroup.attrs.get("flush_secs", 120)))
                            filename_suffix = str(
                                cast(Any, subgroup.attrs.get("filename_suffix", ""))
                            )

                            logger = SummaryWriter(
                                log_dir=log_dir,
                                comment=comment,
                                max_queue=max_queue,
                                flush_secs=flush_secs,
                                filename_suffix=filename_suffix,
                            )
                            items.append(logger)
                        else:
                            # Skip unknown logger types in containers
                            continue
                    elif subgroup.attrs.get("_python_logger"):
                        # Handle Python logger in containers
                        logger_class_name = subgroup.attrs.get("class_name", "Logger")

                        if logger_class_name == "Logger":
                            import logging

                            logger_name = cast(
                                str, subgroup.attrs.get("logger_name", "quantem")
                            )
                            logger_level = int(
                                cast(Any, subgroup.attrs.get("logger_level", logging.INFO))
                            )

                            logger = logging.getLogger(logger_name)
                            logger.setLevel(logger_level)
                            items.append(logger)
                        else:
                            # Skip unknown logger types in containers
                            continue
                    else:
                        raise ValueError(
                            f"Unknown group structure at key '{key}' in {group.path}"
                        )
                else:
                    raise KeyError(f"Missing expected key '{key}' in container")
        # Restore container type and special torch containers
        seq_result = items if ctype == "list" else tuple(items)
        if torch_iterable_type == "Sequential":
            return torch.nn.Sequential(*seq_result)
        elif torch_iterable_type == "ModuleList":
            return torch.nn.ModuleList(cast(Sequence[torch.nn.Module], list(seq_result)))
        elif torch_iterable_type == "ParameterList":
            return torch.nn.ParameterList(cast(Sequence[torch.nn.Parameter], list(seq_result)))
        else:
            return seq_result

    elif ctype == "set":
        # Fast-path: the items were written as a homogeneous numeric sequence
        if (
            group.attrs.get("_sequence_encoding") == "ndarray"
            and "values" in group.array_keys()
        ):
            return set(AutoSerialize._read_array_np(group, "values").tolist())
        # Convert back from list to set
        items = []
        for i in range(
            max(
                (
                    int(k)
                    for k in list(group.attrs)
                    + list(group.array_keys())
                    + list(group.group_keys())
                    if k.isdigit()
                ),
                default=-1,
            )
            + 1
        ):
            key = str(i)
            if key in group.attrs:
                val = group.attrs[key]
                # Convert string paths back to Path objects if needed
                val = cls._convert_string_to_path_if_needed(val, group, key)
                items.append(val)
            elif key in group.array_keys():
                items.append(maybe_tensor(group, key))
            elif key in group.group_keys():
                subgroup = cast(zarr.Group, group[key])
                # Handle recursive containers
                if "_container_type" in subgroup.attrs:
                    items.append(cls._deserialize_container(subgroup))
                # Restore nested AutoSerialize objects
                elif "_autoserialize" in subgroup.attrs:
                    meta = cast(dict[str, Any], subgroup.attrs["_autoserialize"])
                    submod = __import__(
                        cast(str, meta["class_module"]),
                        fromlist=[cast(str, meta["class_name"])],
                    )
                    subcls = getattr(submod, cast(str, meta["class_name"]))
                    items.append(subcls._recursive_load(subgroup))
                # Restore nested torch modules
                elif subgroup.attrs.get("_torch_whole_module"):
                    module_arr = cast(zarr.Array, subgroup["module"])
                    data = cast(np.ndarray, module_arr[:]).tobytes()
                    buf = io.BytesIO(data)
                    # For containers, load to CPU - they'll be moved to the right device when attached to the main object
                    mod = torch.load(buf, map_location="cpu", weights_only=False)
                    items.append(mod)
                elif subgroup.attrs.get("_torch_tensor"):
                    # Handle new tensor format in containers
                    data = AutoSerialize._read_array_np(subgroup, "tensor").tobytes()
                    buf = io.BytesIO(data)
                    tensor = torch.load(buf, map_location="cpu", weights_only=False)
                    items.append(tensor)
                elif subgroup.attrs.get("_torch_logger"):
                    # Handle torch logger in containers
                    logger_class_name = subgroup.attrs.get("class_name", "SummaryWriter")

                    if logger_class_name == "SummaryWriter":
                        from torch.utils.tensorboard import SummaryWriter

                        log_dir = subgroup.attrs.get("log_dir", None)
                        comment = str(cast(Any, subgroup.attrs.get("comment", "")))
                        max_queue = int(cast(Any, subgroup.attrs.get("max_queue", 10)))
                        flush_secs = int(cast(Any, subgroup.attrs.get("flush_secs", 120)))
                        filename_suffix = str(
                            cast(Any, subgroup.attrs.get("filename_suffix", ""))
                        )

                        logger = SummaryWriter(
                            log_dir=log_dir,
                            comment=comment,
                            max_queue=max_queue,
                            flush_secs=flush_secs,
                            filename_suffix=filename_suffix,
                        )
                        items.append(logger)
                    else:
                        # Skip unknown logger types in containers
                        continue
                elif subgroup.attrs.get("_python_logger"):
                    # Handle Python logger in containers
                    logger_class_name = subgroup.attrs.get("class_name", "Logger")

                    if logger_class_name == "Logger":
                        import logging

                        logger_name = cast(str, subgroup.attrs.get("logger_name", "quantem"))
                        logger_level = int(
                            cast(Any, subgroup.attrs.get("logger_level", logging.INFO))
                        )

                        logger = logging.getLogger(logger_name)
                        logger.setLevel(logger_level)
                        items.append(logger)
                    else:
                        # Skip unknown logger types in containers
                        continue
                else:
                    raise ValueError(f"Unknown group structure at key '{key}' in {group.path}")
            else:
                raise KeyError(f"Missing expected key '{key}' in container")
        return set(items)

    elif ctype == "dict":
        result: dict[str, Any] = {}
        # Restore scalars and simple objects stored as attributes
        for key in group.attrs:
            if (
                key == "_container_type"
                or key.endswith(".torch_save")
                or key.endswith(".is_path")
            ):
                continue
            val = group.attrs[key]
            # Convert string paths back to Path objects if needed
            val = cls._convert_string_to_path_if_needed(val, group, key)
            result[key] = val
        # Restore arrays (including torch tensors)
        for key in group.array_keys():
            result[key] = maybe_tensor(group, key)
        # Restore subgroups
        for key in group.group_keys():
            subgroup = cast(zarr.Group, group[key])
            if "_container_type" in subgroup.attrs:
                result[key] = cls._deserialize_container(subgroup)
            elif "_autoserialize" in subgroup.attrs:
                meta = cast(dict[str, Any], subgroup.attrs["_autoserialize"])
                submod = __import__(
                    cast(str, meta["class_module"]), fromlist=[cast(str, meta["class_name"])]
                )
                subcls = getattr(submod, cast(str, meta["class_name"]))
                result[key] = subcls._recursive_load(subgroup)
            elif subgroup.attrs.get("_torch_whole_module"):
                module_arr = cast(zarr.Array, subgroup["module"])
                data = cast(np.ndarray, module_arr[:]).tobytes()
                buf = io.BytesIO(data)
                # For containers, load to CPU - they'll be moved to the right device when attached to the main object
                mod = torch.load(buf, map_location="cpu", weights_only=False)
                result[key] = mod
            elif subgroup.attrs.get("_torch_tensor"):
                # Handle new tensor format in containers
                data = AutoSerialize._read_array_np(subgroup, "tensor").tobytes()
                buf = io.BytesIO(data)
                tensor = torch.load(buf, map_location="cpu", weights_only=False)
                result[key] = tensor
            elif subgroup.attrs.get("_torch_logger"):
                # Handle torch logger in containers
                logger_class_name = subgroup.attrs.get("class_name", "SummaryWriter")

                if logger_class_name == "SummaryWriter":
                    from torch.utils.tensorboard import SummaryWriter

                    log_dir = subgroup.attrs.get("log_dir", None)
                    comment = str(cast(Any, subgroup.attrs.get("comment", "")))
                    max_queue = int(cast(Any, subgroup.attrs.get("max_queue", 10)))
                    flush_secs = int(cast(Any, subgroup.attrs.get("flush_secs", 120)))
                    filename_suffix = str(cast(Any, subgroup.attrs.get("filename_suffix", "")))

                    logger = SummaryWriter(
                        log_dir=log_dir,
                        comment=comment,
                        max_queue=max_queue,
                        flush_secs=flush_secs,
                        filename_suffix=filename_suffix,
                    )
                    result[key] = logger
                else:
                    # Skip unknown logger types in containers
                    continue
            elif subgroup.attrs.get("_python_logger"):
                # Handle Python logger in containers
                logger_class_name = subgroup.attrs.get("class_name", "Logger")

                if logger_class_name == "Logger":
                    import logging

                    logger_name = cast(str, subgroup.attrs.get("logger_name", "quantem"))
                    logger_level = int(
                        cast(Any, subgroup.attrs.get("logger_level", logging.INFO))
                    )

                    logger = logging.getLogger(logger_name)
                    logger.setLevel(logger_level)
                    result[key] = logger
                else:
                    # Skip unknown logger types in containers
                    continue
            else:
                raise ValueError(f"Unknown group structure at key '{key}' in {group.path}")

        return result

    else:
        raise ValueError(f"Unknown container type: {ctype}")


# --------------------------------------------------------------------------------------------
# comparison helpers
# --------------------------------------------------------------------------------------------
def is_num(v):
    return isinstance(v, (int, float, bool, np.integer, np.floating, np.bool_)) and not isinstance(
        v, (np.ndarray,)
    )


def same(a, b, path="root", strict=False):
    """Structural equality of an original value `a` and a loaded value `b`.

    strict=False applies the relaxations of the property (NumPy scalars and all-numeric sequences
    are compared by numeric value); strict=True (loaded vs re-loaded) requires identical types.
    """
    if isinstance(a, torch.nn.Module):
        assert type(a) is type(b), path
        sa, sb = a.state_dict(), b.state_dict()
        assert list(sa) == list(sb), path
        for k in sa:
            same(sa[k], sb[k], f"{path}.{k}", strict)
        return
    if isinstance(a, torch.optim.Optimizer) or (
        hasattr(a, "step") and hasattr(a, "get_last_lr")
    ):
        assert type(a) is type(b), (path, type(a), type(b))
        same(a.state_dict(), b.state_dict(), f"{path}.state_dict()", strict)
        return
    if isinstance(a, logging.Logger):
        assert isinstance(b, logging.Logger), (path, type(b))
        assert a.name == b.name and a.level == b.level, path
        return
    if isinstance(a, torch.Tensor):
        assert type(a) is type(b), (path, type(a), type(b))
        assert a.dtype == b.dtype and a.shape == b.shape, path
        assert a.requires_grad == b.requires_grad, path
        assert torch.equal(a.detach(), b.detach()), path
        return
    if isinstance(a, np.ndarray):
        assert isinstance(b, np.ndarray), (path, type(b))
        assert a.dtype == b.dtype, (path, a.dtype, b.dtype)
        assert a.shape == b.shape, (path, a.shape, b.shape)
        assert a.tobytes() == b.tobytes(), path
        return
    if isinstance(a, np.random.Generator):
        assert isinstance(b, np.random.Generator), path
        assert type(a.bit_generator) is type(b.bit_generator), path
        return
    if isinstance(a, AutoSerialize):
        assert type(a) is type(b), (path, type(a), type(b))
        assert set(vars(a)) == set(vars(b)), (path, set(vars(a)) ^ set(vars(b)))
        for k in vars(a):
            same(vars(a)[k], vars(b)[k], f"{path}.{k}", strict)
        return
    if isinstance(a, (list, tuple)):
        assert type(a) is type(b), (path, type(a), type(b))
        assert len(a) == len(b), path
        if not strict and len(a) > 0 and all(is_num(v) for v in a):
            for i, (x, y) in enumerate(zip(a, b)):
                assert x == y, (path, i, x, y)
            return
        for i, (x, y) in enumerate(zip(a, b)):
            same(x, y, f"{path}[{i}]", strict)
        return
    if isinstance(a, dict):
        assert type(b) is dict, (path, type(b))
        assert set(map(str, a)) == set(map(str, b)) and len(a) == len(b), path
        for k in a:
            same(a[k], b[k if k in b else str(k)], f"{path}[{k!r}]", strict)
        return
    if isinstance(a, (set, frozenset)):
        assert type(b) is set, (path, type(b))
        assert a == b, (path, a, b)
        if strict:
            assert sorted(map(repr, a)) == sorted(map(repr, b)), path
        return
    if isinstance(a, Path):
        assert isinstance(b, Path) and a == b, (path, a, b)
        return
    if not strict and isinstance(a, np.generic):
        assert not isinstance(b, np.ndarray), path
        assert a.item() == b or (a != a and b != b), (path, a, b)
        return
    # plain python scalars / None / str
    assert type(a) is type(b), (path, type(a), type(b))
    assert a == b or (a != a and b != b), (path, a, b)


# --------------------------------------------------------------------------------------------
# object graphs
# --------------------------------------------------------------------------------------------
class Leaf(AutoSerialize):
    def __init__(self, k):
        self.k = k
        self.a0 = np.array(k, dtype=np.int16)
        self.e = np.empty((k, 0, 2), dtype=np.complex64)
        self.t = torch.arange(k + 1, dtype=torch.float64)


class Graph(AutoSerialize):
    def __init__(self, seed):
        rng = np.random.default_rng(seed)
        self.i = int(rng.integers(-5, 5))
        self.f = float(rng.normal())
        self.b = bool(seed % 2)
        self.none = None
        self.s = f"text-{seed}"
        self.empty_str = ""
        self.p = Path("/tmp/some/where") / f"f{seed}.bin"
        self.np_f32 = np.float32(1.5)
        self.np_i64 = np.int64(-(2**40))
        self.np_bool = np.bool_(True)
        self.a_0d = np.array(rng.normal())
        self.a_0d_c = np.array(2.0 - 1.0j, dtype=np.complex64)
        self.a_0d_u8 = np.array(255, dtype=np.uint8)
        self.a_empty1 = np.zeros((0,), dtype=np.float32)
        self.a_empty2 = np.zeros((3, 0), dtype=np.int8)
        self.a_empty3 = np.zeros((0, 4, 0), dtype=np.bool_)
        self.a_rect = rng.normal(size=(3, 7)).astype(np.float32)
        self.a_3d = rng.integers(0, 255, size=(2, 5, 3)).astype(np.uint16)
        self.a_bool = rng.integers(0, 2, size=(5,)).astype(bool)
        self.a_c128 = rng.normal(size=(4, 1)) + 1j * rng.normal(size=(4, 1))
        self.a_view = np.arange(24, dtype=np.int32).reshape(4, 6)[::2, ::-1]
        self.t_plain = torch.tensor(rng.normal(size=(2, 3)), dtype=torch.float32)
        self.t_grad = torch.ones(3, 1, requires_grad=True)
        self.t_int = torch.arange(5, dtype=torch.int16)
        self.t_0d = torch.tensor(3.5)
        self.t_empty = torch.zeros(0, 2)
        self.mod = torch.nn.Linear(3, 2)
        self.lst_num = [1, 2, 3]
        self.lst_float = [0.5, -1.25]
        self.lst_mixed = [1, "a", None, 2.5, Path("rel/x"), [np.array(1.0), (2, 3)], {"k": 1}]
        self.lst_empty = []
        self.tup = (np.zeros((2, 0)), "z", (1.5, 2.5), ())
        self.tup_num = (True, False, True)
        self.dct = {
            "arr": np.arange(3),
            "zero_d": np.array(7, dtype=np.int8),
            "empty": np.zeros((0, 0)),
            "nested": {"deep": [np.ones((1, 2)), {"x": None}], "p": Path("q")},
            "t": torch.zeros(2, dtype=torch.bool),
            "leaf": Leaf(2),
            "none": None,
            "set": {1, 2, 3},
        }
        self.dct_empty = {}
        self.st_num = {3, 1, 2}
        self.st_str = {"a", "bb"}
        self.st_mixed = {"a", 1, (1, 2)}
        self.st_empty = set()
        self.leaf = Leaf(seed)
        self.leaves = [Leaf(0), Leaf(1)]
        self.rng = np.random.default_rng(seed)


class Small(AutoSerialize):
    def __init__(self):
        self.z = np.array(-3, dtype=np.int32)
        self.e = np.zeros((2, 0, 3), dtype=np.float16)
        self.m = np.arange(15, dtype=np.float32).reshape(5, 3)
        self.seq = [np.array(1.5), np.zeros((0,), dtype=np.uint8), (1, 2)]
        self.t = torch.arange(3.0, requires_grad=True)
        self.p = Path("a/b")
        self.n = None


def roundtrip(obj, target, store, level):
    obj.save(target, mode="w", store=store, compression_level=level)
    back = load(target)
    same(obj, back)
    # overwrite mode + fixed point
    back.save(target, mode="o", store=store, compression_level=level)
    again = load(target)
    same(back, again, strict=True)
    same(obj, again)
    return back


class Containers(AutoSerialize):
    """Containers of every kind, nested in every other kind."""

    def __init__(self, seed):
        rng = np.random.default_rng(seed)
        # more than 10 items: index keys "10", "11" must not be ordered as strings
        self.long_mixed = [i if i % 3 else f"s{i}" for i in range(13)]
        self.long_arrays = [np.full((i % 3, 2), i, dtype=np.int16) for i in range(12)]
        self.long_num = list(range(25))
        self.tup_long = tuple(rng.normal(size=11).tolist())
        self.lst_empty = []
        self.tup_empty = ()
        self.set_empty = set()
        self.dict_empty = {}
        self.nested_empties = [[], (), {}, [[]], ((),), {"e": []}]
        self.lol = [[1, 2], [3.5], ["a", None], [[True, False], [np.array(2.0)]]]
        self.tot = ((1, "x"), (np.zeros((0, 2)), (None,)), ())
        self.lod = [{"a": 1, "b": [1, 2, 3]}, {"c": {"d": (Path("p/q"), 2)}}, {}]
        self.dol = {"l": [1, "two", 3.0], "t": (4, 5), "s": {6, 7}, "n": [None, None]}
        self.sets = {"num": {1, 2, 3}, "str": {"a", "b"}, "mixed": {"a", 1, 2.5, (1, 2)}}
        self.set_in_list = [{1, 2}, {"x"}, set()]
        self.set_tuples = {(1, 2), (3, 4), ("a", "b")}
        self.paths = [Path("a"), Path("/abs/b.txt"), "not_a_path", (Path("c"),)]
        self.arrays = [
            np.array(3, dtype=np.uint8),
            np.zeros((0,), dtype=np.float32),
            np.zeros((2, 0, 3), dtype=np.complex64),
            rng.normal(size=(3, 5)),
            np.arange(6, dtype=np.int64).reshape(3, 2)[::-1],
        ]
        self.tensors = (
            torch.arange(4),
            torch.ones(2, 3, requires_grad=True),
            torch.tensor(2.5),
            torch.zeros(0, 2, dtype=torch.float64),
        )
        torch.manual_seed(seed)
        self.modules = [torch.nn.Linear(2, 2), torch.nn.ReLU(), {"inner": torch.nn.Conv1d(1, 1, 2)}]
        self.objs = [Leaf(1), (Leaf(2), {"leaf": Leaf(0)})]
        self.loggers = [logging.getLogger(f"demo.c.{seed}"), {"lg": logging.getLogger("demo.c")}]
        self.np_scalars = [np.float32(1.5), "break-fast-path", np.int8(-3), np.bool_(False)]
        self.digit_keys = {"0": "zero", "1": [1, 2], "10": np.arange(2), "x": {"2": None}}
        self.bools = [True, False]
        self.deep = [[[[[[{"k": ({"z": [1, [2, [3, ["end"]]]]},)}]]]]]]


class use_original:
    """Context manager installing the verbatim original _deserialize_container."""

    def __enter__(self):
        self._saved = AutoSerialize.__dict__["_deserialize_container"]
        AutoSerialize._deserialize_container = classmethod(orig_deserialize_container)
        return self

    def __exit__(self, *exc):
        AutoSerialize._deserialize_container = self._saved
        return False


def load_both(target):
    with use_original():
        old = load(target)
    new = load(target)
    return old, new


def check_old_new(tmp):
    n = 0
    cases = [
        (Containers(0), "dir", None),
        (Graph(2), "zip", 3),
        (Small(), "dir", 9),
    ]
    for ci, (obj, store, level) in enumerate(cases):
        target = os.path.join(tmp, f"on_{ci}" + (".zip" if store == "zip" else ""))
        obj.save(target, store=store, compression_level=level)
        old, new = load_both(target)
        same(old, new, strict=True)
        same(obj, new)
        n += 1
    return n


def outcome(fn):
    try:
        return ("ok", fn())
    except Exception as e:  # noqa: BLE001
        return ("err", type(e), str(e))


class Holder(AutoSerialize):
    def __init__(self):
        self.seq = ["a", np.arange(3), {"k": 1}, "d", (1, "x")]
        self.st = {"p", "q", "r"}
        self.dct = {"x": 1, "arr": np.ones(2), "sub": ["u", "v"]}
        self.nums = [1, 2, 3]
        self.numset = {4, 5}


def check_corrupted(tmp):
    n = 0

    def fresh(tag):
        target = os.path.join(tmp, f"corrupt_{tag}")
        Holder().save(target, store="dir")
        return target, zarr.open_group(store=LocalStore(target), mode="r+")

    def compare(target, expect_error):
        with use_original():
            r_old = outcome(lambda: load(target))
        r_new = outcome(lambda: load(target))
        assert r_old[0] == r_new[0], (target, r_old, r_new)
        if r_old[0] == "err":
            assert r_old[1:] == r_new[1:], (r_old, r_new)
        else:
            same(r_old[1], r_new[1], strict=True)
        assert (r_new[0] == "err") == expect_error, (target, r_new)
        return r_new

    # 1. a missing index in the middle of a list
    target, root = fresh("missing_index")
    del root["seq"].attrs["3"]
    r = compare(target, expect_error=True)
    assert r[1] is KeyError and "'3'" in r[2], r
    n += 1

    # 2. trailing item removed: the list silently gets shorter, identically in both
    target, root = fresh("short")
    del root["st"].attrs["2"]
    r = compare(target, expect_error=False)
    assert len(r[1].st) == 2
    n += 1

    # 3. a subgroup without any marker inside a list / a set / a dict
    for name in ("seq", "st", "dct"):
        target, root = fresh(f"unknown_group_{name}")
        root[name].create_group("7" if name != "dct" else "mystery")
        r = compare(target, expect_error=True)
        assert r[1] in (ValueError, KeyError), r
        n += 1

    # 4. unknown / missing container type
    target, root = fresh("unknown_ctype")
    root["seq"].attrs["_container_type"] = "deque"
    r = compare(target, expect_error=True)
    assert r[1] is ValueError and "deque" in r[2], r
    n += 1

    # 5. fast-path marker present but the 'values' dataset is not: falls back to the
    #    per-index layout (here: an empty sequence) in both versions
    for name in ("nums", "numset"):
        target, root = fresh(f"stale_marker_{name}")
        del root[name]["values"]
        r = compare(target, expect_error=False)
        assert len(getattr(r[1], name)) == 0, r
        n += 1

    # 6. 'values' dataset present but no marker: not a fast-path sequence
    target, root = fresh("no_marker")
    del root["nums"].attrs["_sequence_encoding"]
    r = compare(target, expect_error=False)
    assert r[1].nums == [], r
    n += 1

    # 7. non-contiguous indices: the gap is reported
    target, root = fresh("gap")
    root["seq"].attrs["9"] = "far away"
    r = compare(target, expect_error=True)
    assert r[1] is KeyError and "'5'" in r[2], r
    n += 1

    # 8. direct call on a group without _container_type
    target, root = fresh("direct")
    grp = root.create_group("bare")
    with use_original():
        r_old = outcome(lambda: AutoSerialize._deserialize_container(grp))
    r_new = outcome(lambda: AutoSerialize._deserialize_container(grp))
    assert r_old == r_new and r_new[1] is ValueError, (r_old, r_new)
    n += 1

    # 9. direct call on hand-made torch iterable containers
    for kind, ctype in (("Sequential", "list"), ("ModuleList", "tuple"), ("ParameterList", "list")):
        grp = root.create_group(f"it_{kind}")
        holder = Holder()
        if kind == "ParameterList":
            value = torch.nn.ParameterList([torch.nn.Parameter(torch.ones(2)) for _ in range(3)])
        elif kind == "ModuleList":
            value = torch.nn.ModuleList([torch.nn.Linear(1, 2), torch.nn.Tanh()])
        else:
            value = torch.nn.Sequential(torch.nn.Linear(2, 1), torch.nn.Sigmoid())
        holder._serialize_container(value, grp)
        with use_original():
            r_old = AutoSerialize._deserialize_container(grp)
        r_new = AutoSerialize._deserialize_container(grp)
        assert type(r_old) is type(r_new) is type(value), (type(r_old), type(r_new))
        assert len(r_old) == len(r_new) == len(value)
        for x, y, z in zip(r_old, r_new, value):
            same(x, y, strict=True)
            same(z, y)
        n += 1
    return n


def roundtrip_containers(tmp):
    n = 0
    obj = Containers(5)
    loaded_all = []
    for ci, (store, level, kind) in enumerate([("zip", None, Path), ("dir", 9, str)]):
        name = f"rt_{ci}" + (".zip" if store == "zip" else "")
        loaded_all.append(roundtrip(obj, kind(os.path.join(tmp, name)), store, level))
        n += 1
    same(loaded_all[0], loaded_all[1], strict=True)
    small = Small()
    loaded_all = []
    for ci, (store, level, kind) in enumerate([("zip", 4, str), ("dir", 0, Path), ("dir", 1, str)]):
        name = f"rts_{ci}" + (".zip" if store == "zip" else "")
        loaded_all.append(roundtrip(small, kind(os.path.join(tmp, name)), store, level))
        n += 1
    for other in loaded_all[1:]:
        same(loaded_all[0], other, strict=True)
    return n


def main():
    torch.manual_seed(0)
    with tempfile.TemporaryDirectory() as tmp:
        n_on = check_old_new(tmp)
        n_bad = check_corrupted(tmp)
        n_rt = roundtrip_containers(tmp)
    print(f"PASS: {n_on} stores old==new, {n_bad} corrupted/direct cases, {n_rt} round-trips")
    return 0


if __name__ == "__main__":
    sys.exit(main())
